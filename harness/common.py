"""Shared machinery of every property check (DESIGN.md section 2).

A property module `harness/props/cXX.py` exposes

    LEAN_MODULES = ["PySMT.Props.CXX"]        # built + audited (layer L)
    def run(ctx): ...                          # layers K (correspondence) and S (search)

and talks to this file only through `Ctx`.  Nothing here imports pysmt, so the
runner works even when /repo is broken at import time (that is then reported by
the property module's own import, as an infrastructure error of that check).
"""
import fcntl
import hashlib
import json
import os
import random
import re
import subprocess
import sys
import time

VERIF = os.path.dirname(os.path.dirname(os.path.abspath(__file__)))
LEAN_DIR = os.path.join(VERIF, "lean")
REPO = os.environ.get("VERIF_REPO", "/repo")
ALLOWED_AXIOMS = {"propext", "Classical.choice", "Quot.sound"}
FORBIDDEN = re.compile(
    r"\bsorry\b|\badmit\b|^\s*axiom\s|native_decide|bv_decide|implemented_by|"
    r"\bunsafe\s|maxHeartbeats\s+0\b", re.M)

TRUSTED_BASE = [
    "Lean 4.33.0 kernel (type-checks every theorem; thorough tier re-checks with leanchecker)",
    "axioms allowed in property theorems: propext, Classical.choice, Quot.sound (audited with #print axioms on every run); no sorry/admit/native_decide/bv_decide/user axioms",
    "specification files lean/PySMT/Core and lean/PySMT/Spec (reading of SMT-LIB 2.6 semantics, assertion stack, strict solver front end)",
    "tools/extract.py (translator /repo -> lean/PySMT/Gen) and harness/ (correspondence run, generators, canonicalisers)",
    "lean/PySMT/Impl is a hand-written model of the anchored Python code: its agreement with /repo is tested on every run (layer K), not proved",
    "CPython 3.12 in /venv executes the implementation side",
]


def _strip_comments(src):
    # remove /- ... -/ (nested not handled beyond one level) and -- comments
    src = re.sub(r"/-.*?-/", "", src, flags=re.S)
    src = re.sub(r"--[^\n]*", "", src)
    return src


class LeanError(Exception):
    pass


class Ctx:
    def __init__(self, prop, tier, seed):
        self.prop = prop
        self.tier = tier
        self.seed = seed
        self.rng = random.Random(seed)
        self.t0 = time.time()
        self.evaluations = 0
        self.nontrivial = set()
        self.samples = []
        self.counters = {}
        self.s_violations = []      # concrete failing inputs on the implementation
        self.k_divergences = []     # model != implementation
        self.l_breaks = []          # proof obligations that no longer check
        self.obligations = []       # theorem names
        self.discharged = []
        self.axioms = {}
        self.checker_cmds = []
        self.extra = {}
        self.assumptions = []
        self.infra_errors = []
        self.level = "proof"
        self.rule = ""
        self.budget_s = 150 if tier == "quick" else 1200
        self.workers = int(os.environ.get("VERIF_WORKERS", "4" if tier == "quick" else "14"))

    # ------------------------------------------------------------------ utils
    def start_run_clock(self):
        """called by the runner after the Lean build/audit: the K/S budget counts from
        here, so that a slow (cold) build cannot eat the generation budget"""
        self.t_run = time.time()

    def time_left(self):
        return self.budget_s - (time.time() - getattr(self, "t_run", self.t0))

    def count(self, key, n=1):
        self.counters[key] = self.counters.get(key, 0) + n

    def case(self, nontrivial_key=None):
        """One generated case was executed.  `nontrivial_key`: a hashable
        description of the case if it is non-trivial by the property's rule."""
        self.evaluations += 1
        if nontrivial_key is not None:
            if not isinstance(nontrivial_key, (str, bytes)):
                nontrivial_key = repr(nontrivial_key)
            if isinstance(nontrivial_key, str):
                nontrivial_key = nontrivial_key.encode()
            self.nontrivial.add(hashlib.blake2b(nontrivial_key, digest_size=8).digest())

    def sample(self, obj, limit=6):
        if len(self.samples) < limit:
            self.samples.append(obj)

    # ------------------------------------------------------------ reporting
    def report_s(self, sig, what, replay):
        """A concrete input on which the IMPLEMENTATION violates the property."""
        self.s_violations.append({"sig": sig, "what": what, "replay": replay})

    def report_k(self, what, replay):
        """Model and implementation disagree on an input (correspondence broke)."""
        self.k_divergences.append({"what": what, "replay": replay})

    def report_l(self, what, detail=""):
        self.l_breaks.append({"what": what, "detail": detail[-4000:]})

    def infra(self, what):
        self.infra_errors.append(what)

    # ------------------------------------------------------------------ Lean
    def _lake(self, args, timeout=3000):
        lock = open(os.path.join(LEAN_DIR, ".lake-verif.lock"), "w")
        fcntl.flock(lock, fcntl.LOCK_EX)
        try:
            p = subprocess.run(["lake"] + args, cwd=LEAN_DIR, capture_output=True,
                               text=True, timeout=timeout)
        finally:
            fcntl.flock(lock, fcntl.LOCK_UN)
            lock.close()
        return p

    def lean_build(self, modules):
        """lake build; returns (ok, log)."""
        p = self._lake(["build"] + list(modules))
        self.checker_cmds.append("cd lean && lake build " + " ".join(modules))
        return p.returncode == 0, (p.stdout + p.stderr)

    def lean_audit(self, modules):
        """Layer L for `modules` (property-theorem files): build, forbid
        sorry/axioms, list theorems, #print axioms for each."""
        ok, log = self.lean_build(modules)
        if not ok:
            self.report_l("lake build %s failed" % " ".join(modules), log)
        for m in modules:
            path = os.path.join(LEAN_DIR, m.replace(".", "/") + ".lean")
            try:
                src = open(path).read()
            except OSError as e:
                self.report_l("missing property file %s" % path, str(e))
                continue
            names = []
            ns = []
            for line in _strip_comments(src).splitlines():
                mm = re.match(r"\s*namespace\s+(\S+)", line)
                if mm:
                    ns.append(mm.group(1))
                    continue
                mm = re.match(r"\s*end\s+(\S+)", line)
                if mm and ns and ns[-1] == mm.group(1):
                    ns.pop()
                    continue
                mm = re.match(r"\s*(?:@\[[^\]]*\]\s*)?(?:protected\s+|private\s+)?theorem\s+(\S+)", line)
                if mm:
                    names.append(".".join(ns + [mm.group(1)]))
            self.obligations.extend(names)
            if not ok or not names:
                continue
            audit = "import %s\n" % m + "".join("#print axioms %s\n" % n for n in names)
            apath = os.path.join(LEAN_DIR, ".audit_%s_%d.lean" % (m.replace(".", "_"), os.getpid()))
            open(apath, "w").write(audit)
            try:
                p = subprocess.run(["lake", "env", "lean", apath], cwd=LEAN_DIR,
                                   capture_output=True, text=True, timeout=1200)
            finally:
                os.unlink(apath)
            out = p.stdout + p.stderr
            if p.returncode != 0:
                self.report_l("axiom audit of %s failed" % m, out)
                continue
            # parse "'X' depends on axioms: [a, b]" / "'X' does not depend on any axioms"
            out1 = re.sub(r"\s+", " ", out)
            for n in names:
                mm = re.search(r"'%s' (does not depend on any axioms|depends on axioms: \[([^\]]*)\])" % re.escape(n), out1)
                if not mm:
                    self.report_l("no axiom report for %s" % n, out)
                    continue
                axs = [a.strip() for a in (mm.group(2) or "").split(",") if a.strip()]
                self.axioms[n] = axs
                bad = [a for a in axs if a not in ALLOWED_AXIOMS]
                if bad:
                    self.report_l("theorem %s depends on non-standard axioms %s" % (n, bad))
                else:
                    self.discharged.append(n)
        # forbidden-token scan over the transitive PySMT imports of the property
        # modules (comments stripped)
        seen, todo = set(), list(modules)
        while todo:
            m = todo.pop()
            if m in seen:
                continue
            seen.add(m)
            path = os.path.join(LEAN_DIR, m.replace(".", "/") + ".lean")
            try:
                src = _strip_comments(open(path).read())
            except OSError:
                continue
            mm = FORBIDDEN.search(src)
            if mm:
                self.report_l("forbidden token %r in %s" % (mm.group(0).strip(), path))
            for imp in re.findall(r"^\s*(?:public\s+)?import\s+(PySMT\.[\w.]+)", src, flags=re.M):
                todo.append(imp)
        self.extra["lean_modules_scanned"] = len(seen)
        if self.tier == "thorough" and ok and os.environ.get("VERIF_NO_LEANCHECKER") != "1":
            p = subprocess.run(["lake", "env", "leanchecker"] + list(modules), cwd=LEAN_DIR,
                               capture_output=True, text=True, timeout=3000)
            self.checker_cmds.append("cd lean && lake env leanchecker " + " ".join(modules))
            if p.returncode != 0:
                self.report_l("leanchecker rejected %s" % modules, p.stdout + p.stderr)
        return ok

    def lean_run(self, driver, lines, timeout=1800):
        """Run lean/Drivers/<driver>.lean on request lines (batch line protocol);
        returns the list of answer lines (one per request).  Raises LeanError when
        the driver cannot be run (e.g. its imports no longer build)."""
        if not lines:
            return []
        inp = "\n".join(lines) + "\n"
        # own session: `lake env` keeps `lean` as its child, so on a timeout (or when this process is
        # killed) the whole group must go, or the driver survives as an orphan burning a core
        import signal
        proc = subprocess.Popen(["lake", "env", "lean", "--run", "Drivers/%s.lean" % driver],
                                cwd=LEAN_DIR, stdin=subprocess.PIPE, stdout=subprocess.PIPE,
                                stderr=subprocess.PIPE, text=True, start_new_session=True)
        _LIVE_DRIVERS.add(proc.pid)
        try:
            so, se = proc.communicate(inp, timeout=timeout)
        except subprocess.TimeoutExpired:
            try:
                os.killpg(proc.pid, signal.SIGKILL)
            except OSError:
                pass
            proc.communicate()
            raise LeanError("driver %s: no answer within %d s for %d requests" % (driver, timeout, len(lines)))
        finally:
            _LIVE_DRIVERS.discard(proc.pid)

        class _P(object):
            pass
        p = _P()
        p.stdout, p.stderr, p.returncode = so, se, proc.returncode
        out = p.stdout.split("\n")
        if out and out[-1] == "":
            out.pop()
        if p.returncode != 0 or len(out) != len(lines):
            raise LeanError("driver %s: rc=%s, %d answers for %d requests\n%s\n%s" % (
                driver, p.returncode, len(out), len(lines), p.stderr[-3000:], "\n".join(out[-5:])))
        return out

    def lean_run_sharded(self, driver, lines, shards=None):
        """Same as lean_run but split over several driver processes."""
        from concurrent.futures import ThreadPoolExecutor
        shards = shards or self.workers
        if len(lines) < 200 or shards <= 1:
            return self.lean_run(driver, lines)
        n = len(lines)
        step = (n + shards - 1) // shards
        chunks = [lines[i:i + step] for i in range(0, n, step)]
        with ThreadPoolExecutor(len(chunks)) as ex:
            res = list(ex.map(lambda c: self.lean_run(driver, c), chunks))
        out = []
        for r in res:
            out.extend(r)
        return out


_LIVE_DRIVERS = set()


def _kill_live_drivers(*_a):
    import signal
    for pid in list(_LIVE_DRIVERS):
        try:
            os.killpg(pid, signal.SIGKILL)
        except OSError:
            pass


import atexit as _atexit
_atexit.register(_kill_live_drivers)


# ---------------------------------------------------------------- known findings
def load_known():
    """known_findings.json (committed, merged) plus the per-property fragments in
    known_findings.d/ it is merged from (so a fragment that has not been merged
    yet is honoured as well); never written at run time."""
    import glob
    out, seen = [], set()
    paths = [os.path.join(VERIF, "known_findings.json")] + \
        sorted(glob.glob(os.path.join(VERIF, "known_findings.d", "*.json")))
    for path in paths:
        try:
            ents = json.load(open(path))
        except (OSError, ValueError):
            continue
        for e in ents:
            key = json.dumps(e, sort_keys=True)
            if key not in seen:
                seen.add(key)
                out.append(e)
    return out


def match_known(sig, known):
    """A known entry matches when every key of its `match` dict is present in
    the violation's signature with an equal value (or, for list values, the
    signature's value is a member)."""
    for e in known:
        if e.get("kind") != "known":
            continue
        m = e.get("match", {})
        ok = bool(m)
        for k, v in m.items():
            sv = sig.get(k)
            if isinstance(v, list):
                if sv not in v:
                    ok = False
            elif sv != v:
                ok = False
        if ok:
            return e
    return None


def finish(ctx):
    """Classification (DESIGN 2.3 step 5), evidence, exit code."""
    known = [e for e in load_known() if e.get("property") == ctx.prop]
    printed_known = {}
    new_s = []
    for v in ctx.s_violations:
        e = match_known(v["sig"], known)
        if e is not None:
            printed_known.setdefault(e["id"], e)
        else:
            new_s.append(v)
    for fid, e in sorted(printed_known.items()):
        print("KNOWN-FINDING: property=%s %s %s" % (ctx.prop, fid, e.get("what", "")))
    rc = 0
    os.makedirs(os.path.join(VERIF, "replays"), exist_ok=True)
    nviol = 0
    if new_s:
        # one VIOLATION line per distinct signature (at most 5)
        seen = set()
        for v in new_s:
            key = json.dumps(v["sig"], sort_keys=True, default=str)
            if key in seen:
                continue
            seen.add(key)
            if len(seen) > 5:
                break
            h = hashlib.blake2b(key.encode(), digest_size=6).hexdigest()
            path = os.path.join("replays", "%s-%s.json" % (ctx.prop, h))
            json.dump({"property": ctx.prop, "kind": "failing-input", "seed": ctx.seed,
                       "tier": ctx.tier, "what": v["what"], "sig": v["sig"],
                       "replay": v["replay"],
                       "broken_obligations": [b["what"] for b in ctx.l_breaks],
                       "broken_correspondence": [k["what"] for k in ctx.k_divergences[:3]]},
                      open(os.path.join(VERIF, path), "w"), indent=1, default=str)
            print("VIOLATION property=%s replay=%s" % (ctx.prop, path))
            nviol += 1
        rc = 1
    elif ctx.l_breaks or ctx.k_divergences:
        key = json.dumps([b["what"] for b in ctx.l_breaks] + [k["what"] for k in ctx.k_divergences[:3]])
        h = hashlib.blake2b(key.encode(), digest_size=6).hexdigest()
        path = os.path.join("replays", "%s-%s.json" % (ctx.prop, h))
        json.dump({"property": ctx.prop, "kind": "no-failing-input-found", "seed": ctx.seed,
                   "tier": ctx.tier,
                   "broken_obligations": ctx.l_breaks,
                   "broken_correspondence": ctx.k_divergences[:10]},
                  open(os.path.join(VERIF, path), "w"), indent=1, default=str)
        print("VIOLATION property=%s replay=%s no-failing-input-found" % (ctx.prop, path))
        nviol += 1
        rc = 1
    if rc == 0 and ctx.evaluations == 0 and not getattr(ctx, "is_replay", False):
        ctx.infra_errors.append("no K/S case was executed (evaluations = 0): a check that explored nothing must not pass")
    if ctx.infra_errors and rc == 0:
        for e in ctx.infra_errors:
            print("INFRA-ERROR: %s" % e, file=sys.stderr)
        rc = 2
    cov = {
        "obligations": len(ctx.obligations),
        "discharged": len(ctx.discharged),
        "checker_cmd": "; ".join(dict.fromkeys(ctx.checker_cmds)) or "none",
        "trusted_base": TRUSTED_BASE,
        "theorems": ctx.obligations,
        "axioms": ctx.axioms,
        "evaluations": ctx.evaluations,
        "distinct_nontrivial": len(ctx.nontrivial),
        "rule": ctx.rule,
        "samples": ctx.samples if ctx.samples else ["(no K/S case was generated)"],
        "counters": ctx.counters,
        "correspondence_divergences": len(ctx.k_divergences),
        "broken_obligations": [b["what"] for b in ctx.l_breaks],
        "known_findings_seen": sorted(printed_known),
    }
    cov.update(ctx.extra)
    # schema hygiene for keys the evidence schema types
    if not isinstance(cov.get("exhaustive", False), bool):
        cov["exhaustive_note"] = str(cov["exhaustive"])
        cov["exhaustive"] = False
    for k in ("states", "transitions", "traces_validated_against_impl", "programs", "disagreements_checked"):
        if k in cov and not isinstance(cov[k], int):
            cov[k + "_note"] = str(cov.pop(k))
    if "explanation" in cov and not isinstance(cov["explanation"], str):
        cov["explanation"] = str(cov["explanation"])
    ev = {
        "property_id": ctx.prop,
        "tier": ctx.tier,
        "seed": ctx.seed,
        "level": ctx.level,
        "coverage": cov,
        "assumptions": ctx.assumptions,
        "wall_s": round(time.time() - ctx.t0, 2),
        "violations": nviol,
    }
    # a run pointed at another checkout (VERIF_REPO: machinery tests on seeded changes) must never
    # overwrite the evidence of /repo
    evdir = "evidence" if os.path.realpath(REPO) == os.path.realpath("/repo") else os.path.join("replays", "evidence-other-checkout")
    os.makedirs(os.path.join(VERIF, evdir), exist_ok=True)
    tmp = os.path.join(VERIF, evdir, ".%s.json.%d" % (ctx.prop, os.getpid()))
    json.dump(ev, open(tmp, "w"), indent=1, default=str)
    os.replace(tmp, os.path.join(VERIF, evdir, "%s.json" % ctx.prop))
    return rc
