"""FNode <-> wire format (DESIGN 3.6; grammar in lean/PySMT/Core/Wire.lean).

Reads pySMT objects only through node_type(), args() and the payload held in the
node content.  `OutOfFragment` is raised for objects the Lean core does not model
(algebraic constants, function-typed symbols used as terms, negative indices, ...).
"""
from fractions import Fraction

import pysmt.operators as op

OPNAMES = [
    "forall", "exists", "and", "or", "not", "implies", "iff", "symbol", "function",
    "realConst", "boolConst", "intConst", "strConst", "plus", "minus", "times", "le", "lt",
    "equals", "ite", "toReal", "bvConst", "bvNot", "bvAnd", "bvOr", "bvXor", "bvConcat",
    "bvExtract", "bvUlt", "bvUle", "bvNeg", "bvAdd", "bvSub", "bvMul", "bvUdiv", "bvUrem",
    "bvLshl", "bvLshr", "bvRol", "bvRor", "bvZext", "bvSext", "bvSlt", "bvSle", "bvComp",
    "bvSdiv", "bvSrem", "bvAshr", "strLength", "strConcat", "strContains", "strIndexOf",
    "strReplace", "strSubstr", "strPrefixOf", "strSuffixOf", "strToInt", "intToStr",
    "strCharAt", "arraySelect", "arrayStore", "arrayValue", "div", "pow", "algebraicConst",
    "bvToNatural",
]
assert len(OPNAMES) == 66
OPID = {n: i for i, n in enumerate(OPNAMES)}


class OutOfFragment(Exception):
    pass


def hexs(s):
    try:
        b = s.encode("utf-8")
    except UnicodeEncodeError:
        raise OutOfFragment("string not UTF-8 encodable")
    return b.hex() or "_"


def unhex(h):
    return "" if h == "_" else bytes.fromhex(h).decode("utf-8")


def enc_type(t):
    if t.is_bool_type():
        return "B"
    if t.is_int_type():
        return "I"
    if t.is_real_type():
        return "R"
    if t.is_string_type():
        return "S"
    if t.is_bv_type():
        return "V %d" % t.width
    if t.is_array_type():
        return "A %s %s" % (enc_type(t.index_type), enc_type(t.elem_type))
    if t.is_function_type():
        raise OutOfFragment("function type as a sort")
    return "C " + hexs(str(t))


def enc_symty(t):
    if t.is_function_type():
        ps = list(t.param_types)
        return "F %s %d%s" % (enc_type(t.return_type), len(ps),
                              "".join(" " + enc_type(p) for p in ps))
    return enc_type(t)


def _payload(f):
    nt = f.node_type()
    pl = f._content.payload
    if nt == op.SYMBOL:
        return "y %s %s" % (hexs(pl[0]), enc_symty(pl[1]))
    if nt == op.FUNCTION:
        fn = pl
        if not fn.is_symbol():
            raise OutOfFragment("function name is not a symbol")
        return "y %s %s" % (hexs(fn.symbol_name()), enc_symty(fn.symbol_type()))
    if nt == op.BOOL_CONSTANT:
        return "b 1" if pl else "b 0"
    if nt == op.INT_CONSTANT:
        return "i %d" % int(pl)
    if nt == op.REAL_CONSTANT:
        fr = Fraction(pl)
        return "q %d %d" % (fr.numerator, fr.denominator)
    if nt == op.STR_CONSTANT:
        return "s " + hexs(pl)
    if nt == op.BV_CONSTANT:
        if pl[0] < 0 or pl[1] < 0:
            raise OutOfFragment("negative bv payload")
        return "v %d %d" % (pl[0], pl[1])
    if nt in (op.FORALL, op.EXISTS):
        out = ["Q %d" % len(pl)]
        for v in pl:
            if not v.is_symbol() or v.symbol_type().is_function_type():
                raise OutOfFragment("bound variable is not a plain symbol")
            out.append("%s %s" % (hexs(v.symbol_name()), enc_type(v.symbol_type())))
        return " ".join(out)
    if nt == op.ARRAY_VALUE:
        return "t " + enc_type(pl)
    if nt == op.ALGEBRAIC_CONSTANT:
        raise OutOfFragment("algebraic constant")
    if pl is None:
        return "-"
    if isinstance(pl, tuple) and all(isinstance(x, int) for x in pl):
        if any(x < 0 for x in pl):
            raise OutOfFragment("negative index in payload")
        return "n %d%s" % (len(pl), "".join(" %d" % x for x in pl))
    raise OutOfFragment("unknown payload %r for node type %d" % (pl, nt))


def enc_term(f):
    """DAG encoding: post-order, first-visit numbering, one definition per
    distinct FNode object; iterative (no recursion over the nesting depth)."""
    idx = {}
    defs = []
    stack = [(f, False)]
    while stack:
        n, expanded = stack.pop()
        if id(n) in idx:
            continue
        if expanded:
            nt = n.node_type()
            if nt >= len(OPNAMES):
                raise OutOfFragment("custom node type")
            a = n.args()
            defs.append("%s %s %d%s" % (OPNAMES[nt], _payload(n), len(a),
                                        "".join(" %d" % idx[id(c)] for c in a)))
            idx[id(n)] = len(defs) - 1
        else:
            stack.append((n, True))
            for c in reversed(n.args()):
                if id(c) not in idx:
                    stack.append((c, False))
    return "T %d %s" % (len(defs), " ".join(defs))


# ------------------------------------------------------------------ decoding
class Tok:
    def __init__(self, s):
        self.t = s.split() if isinstance(s, str) else list(s)
        self.i = 0

    def next(self):
        v = self.t[self.i]
        self.i += 1
        return v

    def peek(self):
        return self.t[self.i]

    def nat(self):
        return int(self.next())

    def done(self):
        return self.i >= len(self.t)


def dec_type(tk):
    t = tk.next()
    if t in "BIRS" and len(t) == 1:
        return (t,)
    if t == "V":
        return ("V", tk.nat())
    if t == "A":
        i = dec_type(tk)
        e = dec_type(tk)
        return ("A", i, e)
    if t == "C":
        return ("C", unhex(tk.next()))
    raise ValueError("type expected: %r" % t)


def dec_symty(tk):
    if tk.peek() == "F":
        tk.next()
        ret = dec_type(tk)
        k = tk.nat()
        return ("F", ret, tuple(dec_type(tk) for _ in range(k)))
    return dec_type(tk)


def dec_payload(tk):
    t = tk.next()
    if t == "-":
        return None
    if t == "b":
        return ("b", tk.nat() != 0)
    if t == "i":
        return ("i", int(tk.next()))
    if t == "q":
        n = int(tk.next())
        d = int(tk.next())
        return ("q", Fraction(n, d))
    if t == "s":
        return ("s", unhex(tk.next()))
    if t == "v":
        v = tk.nat()
        w = tk.nat()
        return ("v", v, w)
    if t == "n":
        k = tk.nat()
        return ("n",) + tuple(tk.nat() for _ in range(k))
    if t == "y":
        n = unhex(tk.next())
        return ("y", n, dec_symty(tk))
    if t == "Q":
        m = tk.nat()
        return ("Q",) + tuple((unhex(tk.next()), dec_type(tk)) for _ in range(m))
    if t == "t":
        return ("t", dec_type(tk))
    raise ValueError("payload expected: %r" % t)


def dec_term(tk):
    """-> list of (opname, payload, child-index tuple); root is the last."""
    if isinstance(tk, str):
        tk = Tok(tk)
    t = tk.next()
    if t != "T":
        raise ValueError("T expected: %r" % t)
    n = tk.nat()
    nodes = []
    for _ in range(n):
        o = tk.next()
        p = dec_payload(tk)
        k = tk.nat()
        nodes.append((o, p, tuple(tk.nat() for _ in range(k))))
    return nodes


AC_OPS = {"and", "or"}


def canon_key(nodes, ac_ops=AC_OPS, sort_qvars=True, sort_array_value=True):
    """Canonical key of a decoded DAG (content hash, linear in the DAG size): AC
    operators get their argument keys sorted, quantifier variable lists sorted,
    array-value (key, value) pairs sorted."""
    import hashlib
    keys = []
    for (o, p, ch) in nodes:
        ck = [keys[c] for c in ch]
        if o in ac_ops:
            ck = sorted(ck)
        if o in ("forall", "exists") and sort_qvars and p is not None:
            p = ("Q",) + tuple(sorted(p[1:]))
        if o == "arrayValue" and sort_array_value:
            pairs = sorted(zip(ck[1::2], ck[2::2]))
            ck = [ck[0]] + [x for pr in pairs for x in pr]
        keys.append(hashlib.blake2b(repr((o, p, ck)).encode(), digest_size=12).hexdigest())
    return keys[-1]


def term_key(f, **kw):
    return canon_key(dec_term(enc_term(f)), **kw)


# ------------------------------------------------------------------ values
def enc_val(v):
    """v: python-side value description:
       bool | int | Fraction | str | ('bv', w, n) | ('arr', idxtok, dflt, [(k, v), ...]) | ('u', sort, k)
       where idxtok is the wire encoding of the index sort (e.g. "I", "V 2")"""
    if isinstance(v, bool):
        return "b 1" if v else "b 0"
    if isinstance(v, int):
        return "i %d" % v
    if isinstance(v, Fraction):
        return "r %d %d" % (v.numerator, v.denominator)
    if isinstance(v, str):
        return "s " + hexs(v)
    if v[0] == "bv":
        return "v %d %d" % (v[1], v[2])
    if v[0] == "arr":
        return "a %s %s %d%s" % (v[1], enc_val(v[2]), len(v[3]),
                                 "".join(" %s %s" % (enc_val(k), enc_val(x)) for k, x in v[3]))
    if v[0] == "u":
        return "u %s %d" % (hexs(v[1]), v[2])
    raise ValueError(v)


def dec_val(tk):
    t = tk.next()
    if t == "b":
        return tk.nat() != 0
    if t == "i":
        return int(tk.next())
    if t == "r":
        n = int(tk.next())
        d = int(tk.next())
        return Fraction(n, d)
    if t == "s":
        return unhex(tk.next())
    if t == "v":
        w = tk.nat()
        n = tk.nat()
        return ("bv", w, n)
    if t == "u":
        s = unhex(tk.next())
        return ("u", s, tk.nat())
    if t == "a":
        i0 = tk.i
        dec_type(tk)
        idx = " ".join(tk.t[i0:tk.i])
        d = dec_val(tk)
        k = tk.nat()
        return ("arr", idx, d, [(dec_val(tk), dec_val(tk)) for _ in range(k)])
    raise ValueError("value expected: %r" % t)


def enc_interp(syms, fns=(), doms=()):
    """syms: [(name, pysmt type, value)], fns: [(name, pysmt function type, [(args, val)], default)],
       doms: [(pysmt type, [values])]"""
    out = ["N %d" % len(syms)]
    for n, t, v in syms:
        out.append("%s %s %s" % (hexs(n), enc_type(t), enc_val(v)))
    out.append("%d" % len(fns))
    for n, t, tab, d in fns:
        out.append("%s %s %d" % (hexs(n), enc_symty(t), len(tab)))
        for args, r in tab:
            out.append(" ".join(enc_val(a) for a in args) + " " + enc_val(r))
        out.append(enc_val(d))
    out.append("%d" % len(doms))
    for t, vs in doms:
        out.append("%s %d%s" % (enc_type(t), len(vs), "".join(" " + enc_val(v) for v in vs)))
    return " ".join(out)
