"""Helpers shared by the term-based checks: python-value <-> FNode constants,
building `chk_equiv` requests for the Sem driver."""
from fractions import Fraction

import pysmt.operators as op
import wire


def val_to_fnode(mgr, ty, v):
    if ty.is_bool_type():
        return mgr.Bool(v)
    if ty.is_int_type():
        return mgr.Int(v)
    if ty.is_real_type():
        return mgr.Real(v)
    if ty.is_string_type():
        return mgr.String(v)
    if ty.is_bv_type():
        return mgr.BV(v[2], v[1])
    if ty.is_array_type():
        d = val_to_fnode(mgr, ty.elem_type, v[2])
        asg = {val_to_fnode(mgr, ty.index_type, k): val_to_fnode(mgr, ty.elem_type, x) for k, x in v[3]}
        return mgr.Array(ty.index_type, d, asg)
    raise ValueError("no constant of type %s" % ty)


def fnode_to_val(c):
    """constant FNode -> python value (arrays: entries sorted, default-valued dropped)"""
    nt = c.node_type()
    if nt == op.BOOL_CONSTANT:
        return bool(c.constant_value())
    if nt == op.INT_CONSTANT:
        return int(c.constant_value())
    if nt == op.REAL_CONSTANT:
        return Fraction(c.constant_value())
    if nt == op.STR_CONSTANT:
        return c.constant_value()
    if nt == op.BV_CONSTANT:
        return ("bv", c.bv_width(), int(c.constant_value()))
    if nt == op.ARRAY_VALUE:
        d = fnode_to_val(c.array_value_default())
        ents = {}
        args = c.args()[1:]
        for k, v in zip(args[0::2], args[1::2]):
            ents[repr(fnode_to_val(k))] = (fnode_to_val(k), fnode_to_val(v))
        return canon_val(("arr", wire.enc_type(c.array_value_index_type()), d, list(ents.values())))
    raise ValueError("not a constant: %s" % c)


def small_domain(idxtok):
    """all values of a small finite index sort (<= 256 elements), greatest last"""
    if idxtok == "B":
        return [False, True]
    if idxtok.startswith("V "):
        w = int(idxtok[2:])
        if w <= 8:
            return [("bv", w, n) for n in range(1 << w)]
    return None


def canon_val(v):
    """same canonical form as Val.normArr in lean/PySMT/Core/Val.lean"""
    if isinstance(v, tuple) and v[0] == "arr":
        idx = v[1]
        d = canon_val(v[2])
        m = {}
        for k, x in v[3]:
            m[repr(canon_val(k))] = (canon_val(k), canon_val(x))
        dom = small_domain(idx)
        if dom:
            top = dom[-1]
            d2 = m[repr(top)][1] if repr(top) in m else d
            if d2 != d:
                m = {repr(k): (k, (m[repr(k)][1] if repr(k) in m else d)) for k in dom[:-1]}
                d = d2
        ents = [(k, x) for k, x in m.values() if x != d]
        ents.sort(key=repr)
        return ("arr", idx, d, ents)
    return v


def parse_val(s):
    return canon_val(wire.dec_val(wire.Tok(s)))


def chk_equiv_line(f, g, interps, check_fv=True):
    """interps: list of (syms, fns, doms) triples"""
    parts = ["chk_equiv" if check_fv else "chk_equiv_nofv", str(len(interps))]
    for (syms, fns, doms) in interps:
        parts.append(wire.enc_interp(syms, fns, doms))
    parts.append(wire.enc_term(f))
    parts.append(wire.enc_term(g))
    return " ".join(parts)


def readable(f, limit=300):
    try:
        s = f.serialize()
    except Exception as e:       # printing must never break a check
        s = "<unprintable: %r>" % (e,)
    return s if len(s) <= limit else s[:limit] + "…"
