"""./check CXX [--tier quick|thorough] [--replay file] -- entry point of every check."""
import argparse
import importlib
import json
import os
import sys
import traceback

HERE = os.path.dirname(os.path.abspath(__file__))
VERIF = os.path.dirname(HERE)


def _arm_watchdog(ctx):
    """Backstop against a run that never returns (e.g. a changed library that loops for ever inside one
    case): far beyond the K/S budget the process prints the stack of every thread, records an
    infrastructure error and exits 2 -- a hang is never a pass and never, by itself, a violation.
    (Per-case deadlines that turn a hang into a replayable finding live in the property modules.)"""
    import faulthandler
    import threading
    limit = float(os.environ.get("VERIF_HARD_LIMIT_S", 0)) or ctx.budget_s * 8 + 300

    def fire():
        try:
            sys.stderr.write("INFRA: %s still running %.0f s after the Lean audit (budget %d s): giving up\n"
                             % (ctx.prop, limit, ctx.budget_s))
            faulthandler.dump_traceback(file=sys.stderr, all_threads=True)
            sys.stderr.flush()
            sys.stdout.write("INFRA property=%s hard time limit exceeded\n" % ctx.prop)
            sys.stdout.flush()
        finally:
            try:
                import common as _c
                _c._kill_live_drivers()
            except Exception:
                pass
            os._exit(2)
    t = threading.Timer(limit, fire)
    t.daemon = True
    t.start()


def main():
    ap = argparse.ArgumentParser()
    ap.add_argument("prop")
    ap.add_argument("--tier", default=os.environ.get("VERIF_TIER", "quick"))
    ap.add_argument("--replay", default=None)
    ap.add_argument("--regen-only", action="store_true",
                    help="only regenerate lean/PySMT/Gen for this property from the repository and exit")
    args = ap.parse_args()
    if os.environ.get("PYTHONHASHSEED") != "0":
        env = dict(os.environ, PYTHONHASHSEED="0", PYTHONDONTWRITEBYTECODE="1")
        os.execve(sys.executable, [sys.executable, "-B"] + sys.argv, env)
    os.chdir(VERIF)
    repo = os.environ.get("VERIF_REPO", "/repo")
    sys.path.insert(0, repo)
    sys.path.insert(0, HERE)
    os.environ.setdefault("PYSMT_VERIF", "1")
    import common
    import signal as _signal

    def _on_term(signum, frame):        # e.g. `timeout` around the check: leave no Lean driver behind
        common._kill_live_drivers()
        os._exit(2)
    _signal.signal(_signal.SIGTERM, _on_term)
    # forked children (harness workers, and the solver member processes the real code forks from them) must die
    # of SIGTERM at once as they would without this handler: a Python-level handler only runs between bytecodes,
    # i.e. not while the child sits in a restarted blocking read -- Portfolio's terminate() relies on the default
    os.register_at_fork(after_in_child=lambda: _signal.signal(_signal.SIGTERM, _signal.SIG_DFL))
    tier = args.tier if args.tier in ("quick", "thorough") else "quick"
    try:
        seed = int(os.environ.get("VERIF_SEED", "0"))
    except ValueError:
        seed = 0
    prop = args.prop.upper()
    ctx = common.Ctx(prop, tier, seed)
    try:
        # translator: regenerate lean/PySMT/Gen from /repo (layer K, kind T)
        sys.path.insert(0, os.path.join(VERIF, "tools"))
        try:
            import extract
            extract.regenerate(ctx, prop)
        except Exception as e:      # translator cannot express the current source
            ctx.report_l("translator tools/extract.py failed: %r" % (e,), traceback.format_exc())
        if args.regen_only:
            print("regenerated:", ctx.counters.get("gen_files_rewritten", 0), "file(s) rewritten;",
                  [b["what"] for b in ctx.l_breaks])
            sys.exit(0)
        mod = importlib.import_module("props.%s" % prop.lower())
        ctx.rule = getattr(mod, "RULE", "")
        ctx.assumptions = list(getattr(mod, "ASSUMPTIONS", []))
        ctx.lean_audit(getattr(mod, "LEAN_MODULES", []))
        ctx.start_run_clock()
        _arm_watchdog(ctx)
        ctx.is_replay = bool(args.replay)
        if args.replay:
            rep = json.load(open(args.replay))
            mod.replay(ctx, rep)
        else:
            import cover
            cov = cover.Coverage(prop, repo)
            cov.start()
            try:
                mod.run(ctx)
                # changed-source escalation (DESIGN 2.3 step 4): if an anchored file differs from the
                # aligned/ snapshot and some changed executable line was never executed, generate once
                # more with another seed (only happens on a changed tree)
                try:
                    chg = cover.changed_lines(prop, repo)
                    if chg:
                        def unreached():
                            u = {}
                            for f, ls in chg.items():
                                miss = sorted((ls & cover.executable_lines(f)) - cov.hit.get(f, set()))
                                if miss:
                                    u[os.path.relpath(f, os.path.realpath(repo))] = miss
                            return u
                        ctx.extra["changed_anchor_lines"] = {os.path.relpath(f, os.path.realpath(repo)): sorted(ls)[:50]
                                                              for f, ls in chg.items()}
                        u = unreached()
                        if u and getattr(mod, "ESCALATE", True) and ctx.time_left() > 30 and not ctx.s_violations:
                            import random as _r
                            ctx.rng = _r.Random(ctx.seed + 7919)
                            ctx.count("escalation_rounds")
                            mod.run(ctx)
                            u = unreached()
                        ctx.extra["unreached_changed_lines"] = u
                except Exception as e:
                    ctx.extra["escalation_note"] = "escalation failed: %r" % (e,)
            finally:
                cov.stop()
                try:
                    ctx.extra["anchor_line_coverage"] = cov.report(repo)
                    ctx.extra["anchor_line_coverage_note"] = (
                        "lines of the property's anchored files executed in THIS process during K/S "
                        "(code run in child processes - solver members, reference solver - is not counted); informational")
                except Exception as e:      # never let reporting break a check
                    ctx.extra["anchor_line_coverage_note"] = "coverage report failed: %r" % (e,)
    except Exception as e:
        traceback.print_exc()
        ctx.infra("check crashed: %r" % (e,))
    rc = common.finish(ctx)
    sys.exit(rc)


if __name__ == "__main__":
    main()
