"""Formula and interpretation generators (DESIGN 3.5, 3.7).

Everything random comes from the `random.Random` passed in.  Formulas are built
through the public FormulaManager constructors of the *given environment*, so they
are well-typed by construction.
"""
from fractions import Fraction
from itertools import product

from pysmt.typing import BOOL, INT, REAL, STRING, BVType, ArrayType, FunctionType


class Universe:
    """symbols and sorts a generator draws from"""

    def __init__(self, env, theories=("bool", "int", "real", "bv", "str", "arr", "uf", "quant"),
                 widths=(1, 2, 3, 4, 8), prefix=""):
        self.env = env
        self.mgr = env.formula_manager
        self.tm = env.type_manager
        m = self.mgr
        self.theories = set(theories)
        self.widths = tuple(widths)
        self.U = self.tm.Type(prefix + "U", 0) if "uf" in self.theories else None
        self.syms = {}

        def add(ty, names):
            self.syms.setdefault(ty, [])
            for n in names:
                self.syms[ty].append(m.Symbol(prefix + n, ty))
        add(BOOL, ["p", "q", "r"])
        if "int" in self.theories:
            add(INT, ["x", "y", "z"])
        if "real" in self.theories:
            add(REAL, ["u", "v"])
        if "bv" in self.theories:
            for w in self.widths:
                add(BVType(w), ["b%d_%d" % (w, i) for i in range(2)])
        if "str" in self.theories:
            add(STRING, ["s", "t"])
        self.arr_types = []
        if "arr" in self.theories:
            if "int" in self.theories:
                self.arr_types.append(ArrayType(INT, INT))
            if "bv" in self.theories:
                self.arr_types.append(ArrayType(BVType(2), BOOL))
                self.arr_types.append(ArrayType(BVType(2), BVType(2)))
            for t in self.arr_types:
                add(t, ["a%d_%d" % (self.arr_types.index(t), i) for i in range(2)])
        self.funs = []
        if "uf" in self.theories:
            add(self.U, ["c", "d"])
            self.funs.append(m.Symbol(prefix + "fU", FunctionType(self.U, [self.U])))
            self.funs.append(m.Symbol(prefix + "pU", FunctionType(BOOL, [self.U])))
            if "int" in self.theories:
                self.funs.append(m.Symbol(prefix + "f", FunctionType(INT, [INT])))
                self.funs.append(m.Symbol(prefix + "g", FunctionType(BOOL, [BOOL, INT])))
                self.funs.append(m.Symbol(prefix + "h", FunctionType(INT, [INT, INT])))
        # bound-variable candidates
        self.qvars = [m.Symbol(prefix + "qb", BOOL)]
        if "int" in self.theories:
            self.qvars.append(m.Symbol(prefix + "qi", INT))
            self.qvars.append(self.syms[INT][0])           # shadows the free x
        if "bv" in self.theories:
            self.qvars.append(m.Symbol(prefix + "qv", BVType(2)))
        self.qvars.append(self.syms[BOOL][0])              # shadows the free p

    def types(self):
        return list(self.syms.keys())


INT_CORNERS = [0, 1, -1, 2, 3, -3, 7, 10, 2 ** 31, -(2 ** 31), 10 ** 20 + 1]
REAL_CORNERS = [Fraction(0), Fraction(1), Fraction(-1), Fraction(1, 2), Fraction(-7, 3), Fraction(5),
                Fraction(10 ** 20 + 1, 3)]
STR_CORNERS = ["", "a", "ab", "abc", "ba", "0", "12", "007", "-3", "a\"b", "b", "abab"]


def bv_corners(w):
    s = {0, 1, (1 << w) - 1, 1 << (w - 1), (1 << (w - 1)) - 1, (5 % (1 << w))}
    return sorted(s)


class FormulaGen:
    def __init__(self, rng, universe, max_depth=4, quant_prob=0.08, share_prob=0.25):
        self.rng = rng
        self.u = universe
        self.m = universe.mgr
        self.max_depth = max_depth
        self.quant_prob = quant_prob
        self.share_prob = share_prob
        self.pool = {}

    # -------------------------------------------------------------- helpers
    def _pick(self, l):
        return l[self.rng.randrange(len(l))]

    def _remember(self, ty, f):
        self.pool.setdefault(ty, []).append(f)
        if len(self.pool[ty]) > 40:
            self.pool[ty].pop(self.rng.randrange(40))
        return f

    def const(self, ty):
        m, r = self.m, self.rng
        if ty.is_bool_type():
            return m.Bool(r.random() < 0.5)
        if ty.is_int_type():
            return m.Int(self._pick(INT_CORNERS) if r.random() < 0.8 else r.randint(-20, 20))
        if ty.is_real_type():
            return m.Real(self._pick(REAL_CORNERS) if r.random() < 0.8 else Fraction(r.randint(-9, 9), r.randint(1, 5)))
        if ty.is_bv_type():
            w = ty.width
            return m.BV(self._pick(bv_corners(w)) if r.random() < 0.7 else r.randrange(1 << w), w)
        if ty.is_string_type():
            return m.String(self._pick(STR_CORNERS))
        if ty.is_array_type():
            d = self.const(ty.elem_type)
            assign = {}
            for _ in range(r.randint(0, 2)):
                assign[self.const(ty.index_type)] = self.const(ty.elem_type)
            return m.Array(ty.index_type, d, assign)
        return None

    def leaf(self, ty):
        r = self.rng
        syms = self.u.syms.get(ty, [])
        c = None
        if r.random() < 0.45 or not syms:
            c = self.const(ty)
        if c is not None:
            return c
        return self._pick(syms)

    # -------------------------------------------------------------- formulas
    def gen(self, ty, depth=None):
        if depth is None:
            depth = self.max_depth
        r = self.rng
        if depth <= 0 or r.random() < 0.12:
            return self.leaf(ty)
        if r.random() < self.share_prob and self.pool.get(ty):
            return self._pick(self.pool[ty])
        for _ in range(8):
            try:
                f = self._gen_op(ty, depth)
            except Exception as e:        # constructor refused (e.g. division by constant zero)
                from pysmt.exceptions import PysmtException
                if isinstance(e, (PysmtException, AssertionError, ZeroDivisionError, ValueError)):
                    f = None
                else:
                    raise
            if f is not None:
                return self._remember(ty, f)
        return self.leaf(ty)

    def _args(self, ty, n, depth):
        out = [self.gen(ty, depth - 1) for _ in range(n)]
        # shape classes: the same operand again / sibling repeated
        if n >= 2 and self.rng.random() < 0.15:
            out[-1] = out[0]
        return out

    def _num_type(self):
        c = []
        if "int" in self.u.theories:
            c.append(INT)
        if "real" in self.u.theories:
            c.append(REAL)
        return self._pick(c) if c else None

    def _any_nonbool_type(self):
        c = [t for t in self.u.types() if not t.is_bool_type()]
        return self._pick(c) if c else None

    def _gen_op(self, ty, depth):
        m, r, u = self.m, self.rng, self.u
        d = depth
        if ty.is_bool_type():
            ch = ["not", "and", "or", "implies", "iff", "ite", "eq", "rel", "and", "or", "not"]
            if "bv" in u.theories:
                ch += ["bvrel", "bvrel"]
            if "str" in u.theories:
                ch += ["strrel"]
            if "arr" in u.theories and "bv" in u.theories:
                ch += ["select"]
            if "uf" in u.theories:
                ch += ["fun"]
            if "quant" in u.theories and r.random() < self.quant_prob * 4:
                ch += ["quant", "quant"]
            k = self._pick(ch)
            if k == "not":
                a = self.gen(BOOL, d - 1)
                return m.Not(a)
            if k in ("and", "or"):
                n = r.choice([2, 2, 3, 4])
                args = self._args(BOOL, n, d)
                if r.random() < 0.1:
                    args[-1] = m.Not(args[0])          # complementary literals
                return (m.And if k == "and" else m.Or)(args)
            if k == "implies":
                a, b = self._args(BOOL, 2, d)
                return m.Implies(a, b)
            if k == "iff":
                a, b = self._args(BOOL, 2, d)
                return m.Iff(a, b)
            if k == "ite":
                return m.Ite(self.gen(BOOL, d - 1), self.gen(BOOL, d - 1), self.gen(BOOL, d - 1))
            if k == "eq":
                t = self._any_nonbool_type()
                if t is None:
                    return None
                a, b = self._args(t, 2, d)
                return m.Equals(a, b)
            if k == "rel":
                t = self._num_type()
                if t is None:
                    return None
                a, b = self._args(t, 2, d)
                return self._pick([m.LE, m.LT, m.GE, m.GT])(a, b)
            if k == "bvrel":
                t = BVType(self._pick(u.widths))
                a, b = self._args(t, 2, d)
                return self._pick([m.BVULT, m.BVULE, m.BVSLT, m.BVSLE, m.BVUGT, m.BVSGE])(a, b)
            if k == "strrel":
                a, b = self._args(STRING, 2, d)
                return self._pick([m.StrContains, m.StrPrefixOf, m.StrSuffixOf])(a, b)
            if k == "select":
                at = ArrayType(BVType(2), BOOL)
                return m.Select(self.gen(at, d - 1), self.gen(BVType(2), d - 1))
            if k == "fun":
                fs = [f for f in u.funs if f.symbol_type().return_type.is_bool_type()]
                if not fs:
                    return None
                f = self._pick(fs)
                return m.Function(f, [self.gen(t, d - 1) for t in f.symbol_type().param_types])
            if k == "quant":
                vs = r.sample(u.qvars, r.choice([1, 1, 2]))
                body = self.gen(BOOL, d - 1)
                # make the bound variables occur sometimes
                if r.random() < 0.7:
                    v = vs[0]
                    vt = v.symbol_type()
                    if vt.is_bool_type():
                        occ = v
                    else:
                        occ = m.Equals(v, self.gen(vt, max(d - 2, 0)))
                    body = self._pick([m.And, m.Or])([body, occ])
                return (m.ForAll if r.random() < 0.5 else m.Exists)(vs, body)
            return None
        if ty.is_int_type() or ty.is_real_type():
            ch = ["plus", "minus", "times", "ite", "plus", "times", "div"]
            if ty.is_int_type():
                if "str" in u.theories:
                    ch += ["strlen", "indexof", "toint"]
                if "bv" in u.theories:
                    ch += ["bv2nat"]
                if "arr" in u.theories:
                    ch += ["select"]
                if "uf" in u.theories:
                    ch += ["fun"]
            else:
                if "int" in u.theories:
                    ch += ["toreal", "toreal"]
            k = self._pick(ch)
            if k == "plus":
                return m.Plus(self._args(ty, r.choice([2, 2, 3]), d))
            if k == "minus":
                a, b = self._args(ty, 2, d)
                return m.Minus(a, b)
            if k == "times":
                # mostly linear: one side constant
                if r.random() < 0.7:
                    return m.Times(self.const(ty), self.gen(ty, d - 1))
                return m.Times(self._args(ty, r.choice([2, 3]), d))
            if k == "div":
                a = self.gen(ty, d - 1)
                b = self.const(ty) if r.random() < 0.8 else self.gen(ty, d - 1)
                return m.Div(a, b)
            if k == "ite":
                return m.Ite(self.gen(BOOL, d - 1), self.gen(ty, d - 1), self.gen(ty, d - 1))
            if k == "strlen":
                return m.StrLength(self.gen(STRING, d - 1))
            if k == "indexof":
                return m.StrIndexOf(self.gen(STRING, d - 1), self.gen(STRING, d - 1), self.gen(INT, d - 1))
            if k == "toint":
                return m.StrToInt(self.gen(STRING, d - 1))
            if k == "bv2nat":
                return m.BVToNatural(self.gen(BVType(self._pick(u.widths)), d - 1))
            if k == "select":
                return m.Select(self.gen(ArrayType(INT, INT), d - 1), self.gen(INT, d - 1))
            if k == "fun":
                fs = [f for f in u.funs if f.symbol_type().return_type.is_int_type()]
                if not fs:
                    return None
                f = self._pick(fs)
                return m.Function(f, [self.gen(t, d - 1) for t in f.symbol_type().param_types])
            if k == "toreal":
                return m.ToReal(self.gen(INT, d - 1))
            return None
        if ty.is_bv_type():
            w = ty.width
            ch = ["un", "bin", "bin", "bin", "ite", "rot", "shiftc"]
            if any(x < w for x in u.widths):
                ch += ["ext", "concat"]
            if any(x > w for x in u.widths):
                ch += ["extract"]
            if w == 1:
                ch += ["comp"]
            if w == 2 and "arr" in u.theories:
                ch += ["select"]
            k = self._pick(ch)
            if k == "un":
                return self._pick([m.BVNot, m.BVNeg])(self.gen(ty, d - 1))
            if k == "bin":
                a, b = self._args(ty, 2, d)
                return self._pick([m.BVAnd, m.BVOr, m.BVXor, m.BVAdd, m.BVSub, m.BVMul, m.BVUDiv, m.BVURem,
                                   m.BVSDiv, m.BVSRem, m.BVLShl, m.BVLShr, m.BVAShr])(a, b)
            if k == "shiftc":
                a = self.gen(ty, d - 1)
                c = m.BV(self._pick(sorted({0, 1, w - 1, w % (1 << w), (1 << w) - 1})), w)
                return self._pick([m.BVLShl, m.BVLShr, m.BVAShr])(a, c)
            if k == "ite":
                return m.Ite(self.gen(BOOL, d - 1), self.gen(ty, d - 1), self.gen(ty, d - 1))
            if k == "rot":
                return self._pick([m.BVRol, m.BVRor])(self.gen(ty, d - 1), r.randint(0, w))
            if k == "ext":
                w0 = self._pick([x for x in u.widths if x < w])
                return self._pick([m.BVZExt, m.BVSExt])(self.gen(BVType(w0), d - 1), w - w0)
            if k == "concat":
                w0 = self._pick([x for x in u.widths if x < w])
                if (w - w0) not in u.widths:
                    return None
                return m.BVConcat(self.gen(BVType(w0), d - 1), self.gen(BVType(w - w0), d - 1))
            if k == "extract":
                w0 = self._pick([x for x in u.widths if x > w])
                lo = r.randint(0, w0 - w)
                return m.BVExtract(self.gen(BVType(w0), d - 1), lo, lo + w - 1)
            if k == "comp":
                t = BVType(self._pick(u.widths))
                a, b = self._args(t, 2, d)
                return m.BVComp(a, b)
            if k == "select":
                return m.Select(self.gen(ArrayType(BVType(2), BVType(2)), d - 1), self.gen(BVType(2), d - 1))
            return None
        if ty.is_string_type():
            k = self._pick(["concat", "concat", "replace", "substr", "charat", "ite"] +
                           (["fromint"] if "int" in u.theories else []))
            if k == "concat":
                return m.StrConcat(self._args(STRING, r.choice([2, 3]), d))
            if k == "replace":
                return m.StrReplace(self.gen(STRING, d - 1), self.gen(STRING, d - 1), self.gen(STRING, d - 1))
            if k == "substr":
                return m.StrSubstr(self.gen(STRING, d - 1), self._small_int(d), self._small_int(d))
            if k == "charat":
                return m.StrCharAt(self.gen(STRING, d - 1), self._small_int(d))
            if k == "fromint":
                return m.IntToStr(self.gen(INT, d - 1))
            if k == "ite":
                return m.Ite(self.gen(BOOL, d - 1), self.gen(ty, d - 1), self.gen(ty, d - 1))
            return None
        if ty.is_array_type():
            k = self._pick(["store", "store", "ite", "const", "avalue"])
            if k == "store":
                return m.Store(self.gen(ty, d - 1), self.gen(ty.index_type, d - 1), self.gen(ty.elem_type, d - 1))
            if k == "ite":
                return m.Ite(self.gen(BOOL, d - 1), self.gen(ty, d - 1), self.gen(ty, d - 1))
            if k == "const":
                return self.const(ty)
            if k == "avalue":
                # array value whose default / stored values are arbitrary terms (keys must be constants)
                assign = {}
                for _ in range(r.randint(0, 2)):
                    assign[self.const(ty.index_type)] = self.gen(ty.elem_type, d - 1)
                return m.Array(ty.index_type, self.gen(ty.elem_type, d - 1), assign)
            return None
        # custom sort
        k = self._pick(["fun", "ite"])
        if k == "fun":
            fs = [f for f in u.funs if f.symbol_type().return_type == ty]
            if not fs:
                return None
            f = self._pick(fs)
            return m.Function(f, [self.gen(t, d - 1) for t in f.symbol_type().param_types])
        return m.Ite(self.gen(BOOL, d - 1), self.gen(ty, d - 1), self.gen(ty, d - 1))

    def _small_int(self, d):
        if "int" in self.u.theories and self.rng.random() < 0.3:
            return self.gen(INT, max(d - 2, 0))
        return self.m.Int(self._pick([-2, -1, 0, 1, 2, 3, 5]))

    def any_type(self, bool_weight=0.5):
        if self.rng.random() < bool_weight:
            return BOOL
        return self._pick(self.u.types())


# ---------------------------------------------------------------- interpretations
class InterpGen:
    """samples interpretations of the free symbols of a formula (values in the
    python-side value representation of wire.enc_val)."""

    INT_DOM = [-1, 0, 1, 2]
    REAL_DOM = [Fraction(0), Fraction(1), Fraction(-1, 2), Fraction(3)]

    def __init__(self, rng, universe):
        self.rng = rng
        self.u = universe

    def value(self, ty):
        r = self.rng
        if ty.is_bool_type():
            return r.random() < 0.5
        if ty.is_int_type():
            return r.choice(INT_CORNERS) if r.random() < 0.3 else r.randint(-4, 6)
        if ty.is_real_type():
            return r.choice(REAL_CORNERS) if r.random() < 0.5 else Fraction(r.randint(-6, 6), r.randint(1, 4))
        if ty.is_bv_type():
            w = ty.width
            return ("bv", w, r.choice(bv_corners(w)) if r.random() < 0.4 else r.randrange(1 << w))
        if ty.is_string_type():
            return r.choice(STR_CORNERS)
        if ty.is_array_type():
            d = self.value(ty.elem_type)
            ents = {}
            for _ in range(r.randint(0, 2)):
                k = self.value(ty.index_type)
                ents[repr(k)] = (k, self.value(ty.elem_type))
            import wire
            return ("arr", wire.enc_type(ty.index_type), d, list(ents.values()))
        return ("u", str(ty), r.randrange(2))

    def domains(self):
        doms = [(INT, list(self.INT_DOM)), (REAL, list(self.REAL_DOM))]
        if self.u.U is not None:
            doms.append((self.u.U, [("u", str(self.u.U), 0), ("u", str(self.u.U), 1)]))
        return doms

    def for_formula(self, f):
        """-> (syms, fns, doms) suitable for wire.enc_interp, plus a python dict"""
        syms, fns = [], []
        for s in sorted(f.get_free_variables(), key=lambda s: s.symbol_name()):
            t = s.symbol_type()
            if t.is_function_type():
                tab = []
                for _ in range(self.rng.randint(0, 3)):
                    tab.append(([self.value(p) for p in t.param_types], self.value(t.return_type)))
                # de-duplicate argument tuples (first wins, as in the Lean lookup)
                seen, tab2 = set(), []
                for a, v in tab:
                    if repr(a) not in seen:
                        seen.add(repr(a))
                        tab2.append((a, v))
                fns.append((s.symbol_name(), t, tab2, self.value(t.return_type)))
            else:
                syms.append((s.symbol_name(), t, self.value(t)))
        # bound variables also need *some* value in case of sloppy scoping: none needed
        return syms, fns, self.domains()
