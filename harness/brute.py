"""An enumerating solver built on pySMT's generic solver base classes.

`BruteSolver` is an `IncrementalTrackingSolver` whose `_solve` enumerates every
assignment of its *declared* symbols (Bool, bit-vectors of width <= 4, Int
symbols with a declared range) -- a complete decision procedure for the finite
domain it is given and therefore a legitimate satisfiability oracle for the
optimisation mix-ins.  `BruteSUA` / `BruteInc` mix in the *real*
`SUAOptimizerMixin` / `IncrementalOptimizerMixin` of /repo unchanged.

Every state-changing call is logged in `self.events`:

    ("push",) ("pop",) ("assert", formula) ("solve", stack_copy, assumptions, model_index_or_None)

so that the Lean model can be replayed with exactly the same oracle answers
(layer K of C18) and so that the harness can check the stack discipline.

Formulas are evaluated by a small table evaluator written here (one value per
assignment, computed bottom-up over the formula DAG and cached per node); it does
not call pySMT's simplifier, so the oracle is independent of the code under test
(operators it does not know fall back to substitute+simplify).

No external solver is needed; `register(env)` makes the classes available as
`Solver(name="brute")`, `Optimizer(name="brute_sua" | "brute_incr")`.
"""
import itertools

import pysmt.operators as op
from pysmt.decorators import clear_pending_pop
from pysmt.exceptions import PysmtValueError
from pysmt.logics import QF_BV, QF_LIA, QF_LRA, QF_UFLIRA, QF_BOOL, QF_AUFBVLIRA
from pysmt.optimization.optimizer import SUAOptimizerMixin, IncrementalOptimizerMixin
from pysmt.solvers.eager import EagerModel
from pysmt.solvers.options import SolverOptions
from pysmt.solvers.solver import IncrementalTrackingSolver
from pysmt.solvers.smtlib import SmtLibBasicSolver

MAX_BV_WIDTH = 4


class BruteBudgetExceeded(Exception):
    """More `solve` calls than `max_solves`: the routine under test does not terminate."""


class BruteOptions(SolverOptions):
    def __call__(self, solver):
        pass


def _sgn(v, w):
    return v - (1 << w) if v >= (1 << (w - 1)) else v


class TableEvaluator(object):
    """Values of a formula on every row of a fixed assignment table."""

    def __init__(self, symbols, rows):
        self.symbols = list(symbols)
        self.rows = rows                      # list of tuples of python values
        self.n = len(rows)
        self.memo = {}
        for i, s in enumerate(self.symbols):
            self.memo[s] = [r[i] for r in rows]

    def table(self, f):
        memo = self.memo
        if f in memo:
            return memo[f]
        stack = [(f, False)]
        while stack:
            node, expanded = stack.pop()
            if node in memo:
                continue
            if not expanded:
                stack.append((node, True))
                for a in node.args():
                    if a not in memo:
                        stack.append((a, False))
            else:
                memo[node] = self._apply(node, [memo[a] for a in node.args()])
        return memo[f]

    def _apply(self, node, args):
        t = node.node_type()
        n = self.n
        if node.is_constant():
            if node.is_bv_constant():
                v = node.bv_unsigned_value()
            else:
                v = node.constant_value()
            return [v] * n
        if node.is_symbol():
            raise PysmtValueError("brute: undeclared symbol %s" % node)
        z = list(zip(*args)) if args else []
        if t == op.AND:
            return [all(r) for r in z]
        if t == op.OR:
            return [any(r) for r in z]
        if t == op.NOT:
            return [not a for a in args[0]]
        if t == op.IMPLIES:
            return [(not a) or b for a, b in z]
        if t == op.IFF:
            return [bool(a) == bool(b) for a, b in z]
        if t == op.ITE:
            return [b if a else c for a, b, c in z]
        if t == op.EQUALS:
            return [a == b for a, b in z]
        if t == op.LE:
            return [a <= b for a, b in z]
        if t == op.LT:
            return [a < b for a, b in z]
        if t == op.PLUS:
            return [sum(r) for r in z]
        if t == op.MINUS:
            return [a - b for a, b in z]
        if t == op.TIMES:
            out = []
            for r in z:
                p = 1
                for x in r:
                    p *= x
                out.append(p)
            return out
        if t == op.TOREAL:
            return list(args[0])
        if t in BV_OPS:
            w = node.bv_width() if node.get_type().is_bv_type() else None
            aw = node.arg(0).bv_width()
            fn = BV_OPS[t]
            return [fn(node, w, aw, *r) for r in z]
        return self._fallback(node)

    def _fallback(self, node):
        env_mgr = node  # noqa
        from pysmt.environment import get_env
        mgr = get_env().formula_manager
        out = []
        for row in self.rows:
            asg = {}
            for s, v in zip(self.symbols, row):
                ty = s.symbol_type()
                if ty.is_bool_type():
                    asg[s] = mgr.Bool(v)
                elif ty.is_bv_type():
                    asg[s] = mgr.BV(v, ty.width)
                else:
                    asg[s] = mgr.Int(v)
            c = node.substitute(asg).simplify()
            if not c.is_constant():
                raise PysmtValueError("brute: cannot evaluate %s" % node)
            out.append(c.bv_unsigned_value() if c.is_bv_constant() else c.constant_value())
        return out


def _m(w):
    return (1 << w) - 1


BV_OPS = {
    op.BV_NOT: lambda n, w, aw, a: (~a) & _m(w),
    op.BV_NEG: lambda n, w, aw, a: (-a) & _m(w),
    op.BV_AND: lambda n, w, aw, a, b: a & b,
    op.BV_OR: lambda n, w, aw, a, b: a | b,
    op.BV_XOR: lambda n, w, aw, a, b: a ^ b,
    op.BV_ADD: lambda n, w, aw, a, b: (a + b) & _m(w),
    op.BV_SUB: lambda n, w, aw, a, b: (a - b) & _m(w),
    op.BV_MUL: lambda n, w, aw, a, b: (a * b) & _m(w),
    op.BV_UDIV: lambda n, w, aw, a, b: _m(w) if b == 0 else a // b,
    op.BV_UREM: lambda n, w, aw, a, b: a if b == 0 else a % b,
    op.BV_LSHL: lambda n, w, aw, a, b: (a << b) & _m(w) if b < w else 0,
    op.BV_LSHR: lambda n, w, aw, a, b: (a >> b) if b < w else 0,
    op.BV_ASHR: lambda n, w, aw, a, b: (_sgn(a, w) >> min(b, w)) & _m(w),
    op.BV_ULT: lambda n, w, aw, a, b: a < b,
    op.BV_ULE: lambda n, w, aw, a, b: a <= b,
    op.BV_SLT: lambda n, w, aw, a, b: _sgn(a, aw) < _sgn(b, aw),
    op.BV_SLE: lambda n, w, aw, a, b: _sgn(a, aw) <= _sgn(b, aw),
    op.BV_COMP: lambda n, w, aw, a, b: 1 if a == b else 0,
    op.BV_CONCAT: lambda n, w, aw, a, b: (a << n.arg(1).bv_width()) | b,
    op.BV_EXTRACT: lambda n, w, aw, a: (a >> n.bv_extract_start()) & _m(w),
    op.BV_ZEXT: lambda n, w, aw, a: a,
    op.BV_SEXT: lambda n, w, aw, a: _sgn(a, aw) & _m(w),
    op.BV_TONATURAL: lambda n, w, aw, a: a,
}


class BruteSolver(IncrementalTrackingSolver):
    """Complete enumerating solver over declared finite domains."""

    LOGICS = [QF_BOOL, QF_BV, QF_LIA, QF_LRA, QF_UFLIRA, QF_AUFBVLIRA]
    OptionsClass = BruteOptions

    def __init__(self, environment, logic, **options):
        IncrementalTrackingSolver.__init__(self, environment, logic, **options)
        self.domains = {}          # symbol -> list of python values
        self._order = []           # declaration order
        self._eval = None
        self.model = None
        self.model_row = None
        self.events = []
        self.chooser = None        # callable(list_of_row_indices) -> index; default: first
        self.max_solves = None     # optional bound on the number of solve calls (non-termination guard)
        self.n_solves = 0
        so = self.options.solver_options
        for s, dom in (so.get("domains") or {}).items():
            self.declare(s, dom)
        self.chooser = so.get("chooser")

    # ------------------------------------------------------------- domains
    def declare(self, symbol, domain=None):
        """Declare `symbol`.  Bool and BV symbols get their full domain; Int
        symbols need `domain=(lo, hi)` (inclusive) or an explicit list."""
        ty = symbol.symbol_type()
        if ty.is_bool_type():
            vals = [False, True]
        elif ty.is_bv_type():
            if domain is not None and not isinstance(domain, tuple):
                # explicit candidate values (any width): the caller asserts membership itself
                vals = [int(v) for v in domain]
                if any(v < 0 or v >= (1 << ty.width) for v in vals):
                    raise PysmtValueError("brute: candidate out of range for width %d" % ty.width)
            else:
                if ty.width > MAX_BV_WIDTH:
                    raise PysmtValueError("brute: bit-vector width %d > %d" % (ty.width, MAX_BV_WIDTH))
                vals = list(range(1 << ty.width))
        elif ty.is_int_type():
            if domain is None:
                raise PysmtValueError("brute: Int symbol %s needs a declared range" % symbol)
            if isinstance(domain, tuple):
                vals = list(range(domain[0], domain[1] + 1))
            else:
                vals = list(domain)
        else:
            raise PysmtValueError("brute: unsupported sort %s" % ty)
        if symbol not in self.domains:
            self._order.append(symbol)
        self.domains[symbol] = vals
        self._eval = None

    def _ensure_declared(self, formulas):
        for f in formulas:
            for s in f.get_free_variables():
                if s not in self.domains:
                    self.declare(s)

    def evaluator(self):
        if self._eval is None:
            rows = list(itertools.product(*[self.domains[s] for s in self._order]))
            self._eval = TableEvaluator(self._order, rows)
        return self._eval

    def row_assignment(self, idx):
        mgr = self.environment.formula_manager
        ev = self.evaluator()
        asg = {}
        for s, v in zip(ev.symbols, ev.rows[idx]):
            ty = s.symbol_type()
            if ty.is_bool_type():
                asg[s] = mgr.Bool(v)
            elif ty.is_bv_type():
                asg[s] = mgr.BV(v, ty.width)
            else:
                asg[s] = mgr.Int(v)
        return asg

    def sat_rows(self, formulas):
        """Indices of all rows satisfying every formula (the exhaustive oracle)."""
        formulas = list(formulas)
        self._ensure_declared(formulas)
        ev = self.evaluator()
        ok = list(range(ev.n))
        for f in formulas:
            t = ev.table(f)
            ok = [i for i in ok if t[i]]
            if not ok:
                break
        return ok

    def values(self, term):
        """Python value of `term` on every row (unsigned for bit-vectors)."""
        self._ensure_declared([term])
        return self.evaluator().table(term)

    # ------------------------------------------------------------- proxies
    @clear_pending_pop
    def _reset_assertions(self):
        self.events.append(("reset",))

    @clear_pending_pop
    def _add_assertion(self, formula, named=None):
        self._assert_is_boolean(formula)
        self.events.append(("assert", formula))
        return formula

    @clear_pending_pop
    def _push(self, levels=1):
        for _ in range(levels):
            self.events.append(("push",))

    @clear_pending_pop
    def _pop(self, levels=1):
        for _ in range(levels):
            self.events.append(("pop",))

    @clear_pending_pop
    def _solve(self, assumptions=None):
        assumptions = list(assumptions) if assumptions is not None else []
        self.n_solves += 1
        if self.max_solves is not None and self.n_solves > self.max_solves:
            raise BruteBudgetExceeded("more than %d solve calls" % self.max_solves)
        stack = list(self._assertion_stack)
        rows = self.sat_rows(stack + assumptions)
        if rows:
            idx = rows[0] if self.chooser is None else self.chooser(rows)
            self.model_row = idx
            self.model = EagerModel(self.row_assignment(idx), self.environment)
            self.events.append(("solve", stack, assumptions, idx))
            return True
        self.model = None
        self.model_row = None
        self.events.append(("solve", stack, assumptions, None))
        return False

    def get_model(self):
        if self.model is None:
            raise PysmtValueError("brute: no model available")
        return self.model

    def get_value(self, formula):
        return self.get_model().get_value(formula)

    def _exit(self):
        pass

    # ------------------------------------------------------------- observers
    def level_count(self):
        return len(self._backtrack_points)

    def snapshot(self):
        """(assertion stack, backtrack points) -- what C18 requires to be restored.  The
        assertions are read through the public property, i.e. as a user sees them (a level left
        pending by is_sat/is_valid/is_unsat is removed first)."""
        a = list(self.assertions)
        return (a, list(self._backtrack_points))


class BruteSUA(BruteSolver, SUAOptimizerMixin):
    """The real solving-under-assumptions optimiser over the enumerating solver."""


class BruteInc(BruteSolver, IncrementalOptimizerMixin):
    """The real push/pop-based optimiser over the enumerating solver."""


class _ScriptMixin(SmtLibBasicSolver):
    """SMT-LIB command interface (what `SmtLibScript.evaluate` / `InterpreterOMT` drive).
    `declare-fun` takes the domain of an Int symbol from `script_ranges[name]`."""

    script_ranges = None

    def declare_fun(self, symbol):
        if symbol in self.domains:
            return None
        rng = (self.script_ranges or {}).get(symbol.symbol_name())
        self.declare(symbol, rng)
        return None

    declare_const = declare_fun


class BruteScriptSUA(BruteSUA, _ScriptMixin):
    """assumption-based optimiser reachable through the script interpreter"""


class BruteScriptInc(BruteInc, _ScriptMixin):
    """push/pop-based optimiser reachable through the script interpreter"""


MIXINS = {"sua": BruteSUA, "incr": BruteInc}
SCRIPT_MIXINS = {"sua": BruteScriptSUA, "incr": BruteScriptInc}


def register(env):
    """Make the classes available through the factory of `env`."""
    f = env.factory
    f._all_solvers["brute"] = BruteSolver
    f._all_optimizers["brute_sua"] = BruteSUA
    f._all_optimizers["brute_incr"] = BruteInc
    f._all_optimizers["brute_script_sua"] = BruteScriptSUA
    f._all_optimizers["brute_script_incr"] = BruteScriptInc
