#!/usr/bin/env python3
"""Strict reference SMT-LIB 2.6 solver process (C17) -- the machine of lean/PySMT/Spec/StrictSolver.lean.

    refsolver.py [--log FILE] [--int-range R] [--usize K] [--lenient-pop] [--layout 0|1|2|3]

(`--layout`: how replies are laid out in lines, see `lay_out`; the log always has the one-line form.  `--lenient-pop`: not strict -- a pop beyond the stack is acknowledged and removes every level but the first; used only to
compare the wrapper model with the wrapper on a solver that does not reject such a pop.)

Reads commands (S-expressions) on stdin, answers *exactly one* reply per command on stdout:
`success`, `sat|unsat|unknown`, `((t v))`, or `(error "...")`.  An illegal command leaves the state
unchanged.  Strict means:

* a sort / function symbol may be declared only when no symbol of that name is in scope; a declaration lives in
  the level that was on top when it was made and disappears with it (no :global-declarations);
* `assert` / `get-value` terms must be well sorted over symbols in scope;
* `pop n` needs more than n levels; `reset-assertions` drops all levels and all declarations;
* `get-value` only in sat mode (last check-sat said sat, nothing changed since);
* `set-logic` exactly once and before anything but set-option/set-info; `:produce-models` only before set-logic;
* nothing after `exit`.

`check-sat` / `get-value` decide by enumeration: Bool, bit-vectors of width <= 4, Int restricted to [-R, R], Real restricted
to the six rationals `REALS` (exact arithmetic; printed `(/ 1 3)` or `(/ 1.0 3.0)`, `(- (/ 22 7))`, `(- 1.0)`), every
declared-sort instance has exactly K elements (`@<sort>!k` as values), `(Array I E)` over these with select / store
(all functions from the index domain to the element domain, at most 4096 of them).  A live assertion that mentions a symbol whose
name starts with `UNKNOWN` makes `check-sat` answer `unknown`.

No pysmt import: own reader and own evaluator.  With --log every command and its reply are appended to FILE
(`> command` / `< reply` lines) before the reply is written to stdout.
"""
import re
import sys
from fractions import Fraction

TOKEN = re.compile(r'\s+|;[^\n]*|(\(|\)|\|[^|]*\||"(?:[^"]|"")*"|[^\s()|";]+)')


class Err(Exception):
    pass


def tokenize(text):
    pos, out = 0, []
    while pos < len(text):
        m = TOKEN.match(text, pos)
        if not m:
            raise Err("lexical error")
        if m.group(1) is not None:
            out.append(m.group(1))
        pos = m.end()
    return out


def parse(tokens):
    """tokens -> list of complete S-expressions, rest tokens"""
    out, stack = [], []
    consumed = 0
    for i, t in enumerate(tokens):
        if t == "(":
            stack.append([])
        elif t == ")":
            if not stack:
                raise Err("unbalanced )")
            e = stack.pop()
            if stack:
                stack[-1].append(e)
            else:
                out.append(e)
                consumed = i + 1
        else:
            if stack:
                stack[-1].append(t)
            else:
                out.append(t)
                consumed = i + 1
    return out, tokens[consumed:]


def render(e):
    if isinstance(e, list):
        return "(" + " ".join(render(x) for x in e) + ")"
    return e


def unquote(name):
    if len(name) >= 2 and name[0] == "|" and name[-1] == "|":
        return name[1:-1]
    return name


# the values a Real symbol ranges over: exact rationals, some of them not dyadic, one with a big numerator
REALS = (Fraction(0), Fraction(1, 3), Fraction(-1), Fraction(22, 7), Fraction(10 ** 20 + 1, 3), Fraction(-22, 7))


class Level(object):
    def __init__(self):
        self.sorts = {}     # name -> arity
        self.syms = {}      # name -> sort (canonical rendering)
        self.asserts = []   # S-expressions


class Strict(object):
    def __init__(self, int_range=3, usize=3):
        self.levels = [Level()]
        self.logic = None
        self.sat_mode = False
        self.model = None
        self.exited = False
        self.print_success = True
        self.R = int_range
        self.K = usize
        self.lenient_pop = False
        self.real_style = 0

    # ------------------------------------------------------------- scope
    def sort_arity(self, name):
        for l in self.levels:
            if name in l.sorts:
                return l.sorts[name]
        return None

    def sym_sort(self, name):
        for l in self.levels:
            if name in l.syms:
                return l.syms[name]
        return None

    def parse_sort(self, s):
        """S-expression -> canonical sort: 'Bool' | 'Int' | ('BV', w) | ('U', text) | ('Array', index, element)"""
        if s == "Bool" or s == "Int" or s == "Real":
            return s
        if isinstance(s, list) and len(s) == 3 and s[0] == "_" and s[1] == "BitVec" and s[2].isdigit():
            w = int(s[2])
            if not 1 <= w <= 4:
                raise Err("unsupported bit-vector width %d" % w)
            return ("BV", w)
        if isinstance(s, list) and len(s) == 3 and s[0] == "Array":
            idx, elem = self.parse_sort(s[1]), self.parse_sort(s[2])
            sort = ("Array", idx, elem)
            if len(self.domain(elem)) ** len(self.domain(idx)) > 4096:
                raise Err("array sort too large for enumeration")
            return sort
        if isinstance(s, str):
            a = self.sort_arity(unquote(s))
            if a is None:
                raise Err("unknown sort %s" % s)
            if a != 0:
                raise Err("sort %s expects %d arguments" % (s, a))
            return ("U", unquote(s))
        if isinstance(s, list) and s and isinstance(s[0], str):
            a = self.sort_arity(unquote(s[0]))
            if a is None:
                raise Err("unknown sort %s" % s[0])
            if a != len(s) - 1 or a == 0:
                raise Err("sort %s expects %d arguments" % (s[0], a))
            args = [self.parse_sort(x) for x in s[1:]]
            return ("U", "(%s %s)" % (unquote(s[0]), " ".join(self.sort_text(x) for x in args)))
        raise Err("bad sort")

    @staticmethod
    def sort_text(s):
        if isinstance(s, tuple):
            if s[0] == "Array":
                return "(Array %s %s)" % (Strict.sort_text(s[1]), Strict.sort_text(s[2]))
            return "(_ BitVec %d)" % s[1] if s[0] == "BV" else s[1]
        return s

    def domain(self, sort):
        if sort == "Bool":
            return [False, True]
        if sort == "Int":
            d = [0]
            for i in range(1, self.R + 1):
                d += [i, -i]
            return d
        if sort == "Real":
            return list(REALS)
        if sort[0] == "BV":
            return list(range(1 << sort[1]))
        if sort[0] == "Array":
            # an array value is the tuple of its elements, in the order of the index domain
            elems = self.domain(sort[2])
            res = [()]
            for _ in self.domain(sort[1]):
                res = [r + (e,) for r in res for e in elems]
            return res
        return list(range(self.K))

    def value_text(self, sort, v):
        if sort == "Bool":
            return "true" if v else "false"
        if sort == "Int":
            return str(v) if v >= 0 else "(- %d)" % -v
        if sort == "Real":
            # both spellings of a rational are legal value syntax; which one is used depends on --layout
            num = (lambda n: str(n)) if self.real_style == 0 else (lambda n: "%d.0" % n)
            a = abs(v)
            txt = "%d.0" % a.numerator if a.denominator == 1 else "(/ %s %s)" % (num(a.numerator), num(a.denominator))
            return txt if v >= 0 else "(- %s)" % txt
        if sort[0] == "BV":
            return "#b" + format(v, "0%db" % sort[1])
        if sort[0] == "Array":
            txt = "((as const %s) %s)" % (self.sort_text(sort), self.value_text(sort[2], v[0]))
            for i, e in zip(self.domain(sort[1])[1:], v[1:]):
                if e != v[0]:
                    txt = "(store %s %s %s)" % (txt, self.value_text(sort[1], i), self.value_text(sort[2], e))
            return txt
        return "@%s!%d" % (re.sub(r"[^A-Za-z0-9]+", "_", sort[1]).strip("_"), v)

    # ------------------------------------------------------- sort checking
    def check(self, t, bound):
        """sort of term t (raises Err when ill sorted or when a symbol is not in scope)"""
        if isinstance(t, str):
            if t in bound:
                return bound[t]
            if t == "true" or t == "false":
                return "Bool"
            if re.fullmatch(r"0|[1-9][0-9]*", t):
                return "Int"
            if re.fullmatch(r"(0|[1-9][0-9]*)\.[0-9]+", t):
                return "Real"
            if re.fullmatch(r"#b[01]+", t):
                return self._bv(len(t) - 2)
            if re.fullmatch(r"#x[0-9a-fA-F]+", t):
                return self._bv(4 * (len(t) - 2))
            s = self.sym_sort(unquote(t))
            if s is None:
                raise Err("unknown symbol %s" % t)
            return s
        if not t:
            raise Err("empty application")
        h = t[0]
        if isinstance(h, list):
            if len(h) == 4 and h[0] == "_" and h[1] == "extract" and len(t) == 2:
                i, j = int(h[2]), int(h[3])
                s = self.check(t[1], bound)
                if not (isinstance(s, tuple) and s[0] == "BV" and s[1] > i >= j >= 0):
                    raise Err("bad extract")
                return self._bv(i - j + 1)
            if len(h) == 3 and h[0] == "_" and h[1] in ("zero_extend", "sign_extend") and len(t) == 2:
                s = self.check(t[1], bound)
                if not (isinstance(s, tuple) and s[0] == "BV"):
                    raise Err("bad extend")
                return self._bv(s[1] + int(h[2]))
            raise Err("unsupported indexed operator %s" % render(h))
        if h == "_":
            if len(t) == 3 and re.fullmatch(r"bv[0-9]+", t[1]) and t[2].isdigit():
                w = int(t[2])
                if int(t[1][2:]) >= (1 << w):
                    raise Err("bit-vector literal out of range")
                return self._bv(w)
            raise Err("unsupported indexed identifier")
        if h == "let":
            if len(t) != 3:
                raise Err("bad let")
            nb = dict(bound)
            for b in t[1]:
                if not (isinstance(b, list) and len(b) == 2 and isinstance(b[0], str)):
                    raise Err("bad let binding")
                nb[b[0]] = self.check(b[1], bound)     # parallel let
            return self.check(t[2], nb)
        args = [self.check(a, bound) for a in t[1:]]
        n = len(args)

        def need(cond):
            if not cond:
                raise Err("ill-sorted application of %s" % h)

        isbv = lambda s: isinstance(s, tuple) and s[0] == "BV"
        if h == "not":
            need(args == ["Bool"])
            return "Bool"
        if h in ("and", "or", "xor", "=>"):
            need(n >= 2 and all(a == "Bool" for a in args))
            return "Bool"
        if h in ("=", "distinct"):
            need(n >= 2 and all(a == args[0] for a in args))
            return "Bool"
        if h == "ite":
            need(n == 3 and args[0] == "Bool" and args[1] == args[2])
            return args[1]
        num = lambda s: s == "Int" or s == "Real"
        if h in ("+", "*"):
            need(n >= 2 and num(args[0]) and all(a == args[0] for a in args))
            return args[0]
        if h == "-":
            need(n >= 1 and num(args[0]) and all(a == args[0] for a in args))
            return args[0]
        if h == "/":
            # `(/ 1 3)` with integer numerals is the usual spelling of a rational constant
            need(n == 2 and all(num(a) for a in args))
            return "Real"
        if h == "to_real":
            need(args == ["Int"])
            return "Real"
        if h in ("div", "mod"):
            need(n == 2 and all(a == "Int" for a in args))
            return "Int"
        if h == "abs":
            need(args == ["Int"])
            return "Int"
        if h in ("<", "<=", ">", ">="):
            need(n >= 2 and num(args[0]) and all(a == args[0] for a in args))
            return "Bool"
        if h in ("bvnot", "bvneg"):
            need(n == 1 and isbv(args[0]))
            return args[0]
        if h in ("bvand", "bvor", "bvxor", "bvadd", "bvsub", "bvmul", "bvudiv", "bvurem", "bvshl", "bvlshr",
                 "bvashr", "bvsdiv", "bvsrem"):
            need(n == 2 and isbv(args[0]) and args[0] == args[1])
            return args[0]
        if h in ("bvult", "bvule", "bvugt", "bvuge", "bvslt", "bvsle", "bvsgt", "bvsge"):
            need(n == 2 and isbv(args[0]) and args[0] == args[1])
            return "Bool"
        if h == "concat":
            need(n == 2 and isbv(args[0]) and isbv(args[1]))
            return self._bv(args[0][1] + args[1][1])
        isarr = lambda s: isinstance(s, tuple) and s[0] == "Array"
        if h == "select":
            need(n == 2 and isarr(args[0]) and args[0][1] == args[1])
            return args[0][2]
        if h == "store":
            need(n == 3 and isarr(args[0]) and args[0][1] == args[1] and args[0][2] == args[2])
            return args[0]
        if self.sym_sort(unquote(h)) is not None:
            raise Err("%s is not a function" % h)
        raise Err("unknown symbol %s" % h)

    @staticmethod
    def _bv(w):
        if not 1 <= w <= 8:
            raise Err("unsupported bit-vector width %d" % w)
        return ("BV", w)

    # ---------------------------------------------------------- evaluation
    def ev(self, t, env):
        """value of a (sort-checked) term; returns (sort, value)"""
        if isinstance(t, str):
            if t in env:
                return env[t]
            if t == "true":
                return ("Bool", True)
            if t == "false":
                return ("Bool", False)
            if t[0].isdigit():
                return ("Real", Fraction(t)) if "." in t else ("Int", int(t))
            if t.startswith("#b"):
                return (("BV", len(t) - 2), int(t[2:], 2))
            if t.startswith("#x"):
                return (("BV", 4 * (len(t) - 2)), int(t[2:], 16))
            return env[unquote(t)]
        h = t[0]
        if isinstance(h, list):
            s, v = self.ev(t[1], env)
            w = s[1]
            if h[1] == "extract":
                i, j = int(h[2]), int(h[3])
                return (("BV", i - j + 1), (v >> j) & ((1 << (i - j + 1)) - 1))
            k = int(h[2])
            if h[1] == "zero_extend":
                return (("BV", w + k), v)
            sv = v - (1 << w) if v >> (w - 1) else v
            return (("BV", w + k), sv % (1 << (w + k)))
        if h == "_":
            return (("BV", int(t[2])), int(t[1][2:]))
        if h == "let":
            ne = dict(env)
            for b in t[1]:
                ne[b[0]] = self.ev(b[1], env)
            return self.ev(t[2], ne)
        if h == "and":
            return ("Bool", all(self.ev(a, env)[1] for a in t[1:]))
        if h == "or":
            return ("Bool", any(self.ev(a, env)[1] for a in t[1:]))
        if h == "ite":
            return self.ev(t[2], env) if self.ev(t[1], env)[1] else self.ev(t[3], env)
        a = [self.ev(x, env) for x in t[1:]]
        v = [x[1] for x in a]
        s0 = a[0][0]
        if h == "not":
            return ("Bool", not v[0])
        if h == "xor":
            r = v[0]
            for x in v[1:]:
                r = r != x
            return ("Bool", r)
        if h == "=>":
            r = v[-1]
            for x in reversed(v[:-1]):
                r = (not x) or r
            return ("Bool", r)
        if h == "=":
            return ("Bool", all(x == v[0] for x in v))
        if h == "distinct":
            return ("Bool", len(set(v)) == len(v))
        if h == "+":
            return (s0, sum(v))
        if h == "*":
            r = 1
            for x in v:
                r *= x
            return (s0, r)
        if h == "-":
            return (s0, -v[0] if len(v) == 1 else v[0] - sum(v[1:]))
        if h == "/":
            return ("Real", Fraction(0) if v[1] == 0 else Fraction(v[0]) / Fraction(v[1]))
        if h == "to_real":
            return ("Real", Fraction(v[0]))
        if h == "div" or h == "mod":
            if v[1] == 0:
                return ("Int", 0 if h == "div" else v[0])     # one fixed interpretation of division by zero
            q = v[0] // v[1] if v[1] > 0 else -(v[0] // -v[1])
            return ("Int", q if h == "div" else v[0] - v[1] * q)
        if h == "abs":
            return ("Int", abs(v[0]))
        if h in ("<", "<=", ">", ">="):
            f = {"<": lambda x, y: x < y, "<=": lambda x, y: x <= y,
                 ">": lambda x, y: x > y, ">=": lambda x, y: x >= y}[h]
            return ("Bool", all(f(v[i], v[i + 1]) for i in range(len(v) - 1)))
        if h == "select":
            return (s0[2], v[0][self.domain(s0[1]).index(v[1])])
        if h == "store":
            k = self.domain(s0[1]).index(v[1])
            return (s0, v[0][:k] + (v[2],) + v[0][k + 1:])
        w = s0[1]
        m = (1 << w) - 1
        sg = lambda x: x - (1 << w) if x >> (w - 1) else x
        if h == "concat":
            w2 = a[1][0][1]
            return (("BV", w + w2), (v[0] << w2) | v[1])
        bvops = {
            "bvnot": lambda: ~v[0] & m, "bvneg": lambda: -v[0] & m,
            "bvand": lambda: v[0] & v[1], "bvor": lambda: v[0] | v[1], "bvxor": lambda: v[0] ^ v[1],
            "bvadd": lambda: (v[0] + v[1]) & m, "bvsub": lambda: (v[0] - v[1]) & m, "bvmul": lambda: (v[0] * v[1]) & m,
            "bvudiv": lambda: m if v[1] == 0 else v[0] // v[1],
            "bvurem": lambda: v[0] if v[1] == 0 else v[0] % v[1],
            "bvshl": lambda: (v[0] << v[1]) & m if v[1] < w else 0,
            "bvlshr": lambda: v[0] >> v[1] if v[1] < w else 0,
            "bvashr": lambda: (sg(v[0]) >> min(v[1], w)) & m,
        }
        if h in bvops:
            return (s0, bvops[h]())
        if h in ("bvsdiv", "bvsrem"):
            x, y = sg(v[0]), sg(v[1])
            if y == 0:
                return (s0, (m if x >= 0 else 1) if h == "bvsdiv" else v[0])
            q = abs(x) // abs(y) * (1 if (x < 0) == (y < 0) else -1)
            return (s0, (q if h == "bvsdiv" else x - y * q) & m)
        cmp_ = {"bvult": lambda: v[0] < v[1], "bvule": lambda: v[0] <= v[1],
                "bvugt": lambda: v[0] > v[1], "bvuge": lambda: v[0] >= v[1],
                "bvslt": lambda: sg(v[0]) < sg(v[1]), "bvsle": lambda: sg(v[0]) <= sg(v[1]),
                "bvsgt": lambda: sg(v[0]) > sg(v[1]), "bvsge": lambda: sg(v[0]) >= sg(v[1])}
        if h in cmp_:
            return ("Bool", cmp_[h]())
        raise Err("cannot evaluate %s" % h)

    @staticmethod
    def atoms(t, acc):
        if isinstance(t, str):
            acc.add(unquote(t))
        else:
            for x in t:
                Strict.atoms(x, acc)
        return acc

    def check_sat(self):
        live = [a for l in self.levels for a in l.asserts]
        scope = {}
        for l in self.levels:
            scope.update(l.syms)
        mentioned = set()
        for a in live:
            self.atoms(a, mentioned)
        if any(n.startswith("UNKNOWN") for n in mentioned if n in scope):
            return "unknown", None
        names = sorted(n for n in scope if n in mentioned)
        env = {n: (scope[n], self.domain(scope[n])[0]) for n in scope}
        # depth-first enumeration; an assertion is evaluated as soon as its last symbol has a value
        pos = {n: k for k, n in enumerate(names)}
        due = [[] for _ in range(len(names) + 1)]
        for a in live:
            ks = [pos[n] + 1 for n in self.atoms(a, set()) if n in pos]
            due[max(ks) if ks else 0].append(a)
        if not all(self.ev(a, env)[1] for a in due[0]):
            return "unsat", None
        doms = [self.domain(scope[n]) for n in names]

        def search(k):
            if k == len(names):
                return True
            n = names[k]
            for v in doms[k]:
                env[n] = (scope[n], v)
                if all(self.ev(a, env)[1] for a in due[k + 1]) and search(k + 1):
                    return True
            return False
        if search(0):
            return "sat", dict(env)
        return "unsat", None

    # ------------------------------------------------------------ commands
    def command(self, c):
        """one command (S-expression) -> reply text"""
        try:
            return self._command(c)
        except Err as e:
            return '(error "%s")' % str(e).replace('"', "'")
        except (ValueError, IndexError, KeyError, TypeError, RecursionError) as e:
            return '(error "malformed command: %s")' % type(e).__name__

    def _command(self, c):
        if self.exited:
            raise Err("solver has exited")
        if not isinstance(c, list) or not c or not isinstance(c[0], str):
            raise Err("not a command")
        name = c[0]
        ok = "success"
        if name == "set-option":
            if len(c) != 3 or not isinstance(c[1], str) or not c[1].startswith(":"):
                raise Err("bad set-option")
            if c[1] == ":produce-models" and self.logic is not None:
                raise Err(":produce-models can only be set before set-logic")
            if c[1] == ":print-success":
                if c[2] not in ("true", "false"):
                    raise Err("bad value")
                self.print_success = c[2] == "true"
            return ok
        if name == "set-info":
            return ok
        if name == "exit":
            if len(c) != 1:
                raise Err("bad exit")
            self.exited = True
            return ok
        if name == "set-logic":
            if len(c) != 2 or not isinstance(c[1], str):
                raise Err("bad set-logic")
            if self.logic is not None:
                raise Err("logic already set")
            self.logic = c[1]
            return ok
        if self.logic is None:
            raise Err("set-logic expected first")
        if name == "declare-sort":
            if len(c) != 3 or not isinstance(c[1], str) or not c[2].isdigit():
                raise Err("bad declare-sort")
            n = unquote(c[1])
            if not re.fullmatch(r"[A-Za-z~!@$%^&*_+=<>.?/-][A-Za-z0-9~!@$%^&*_+=<>.?/-]*", n) and c[1][0] != "|":
                raise Err("%s is not a symbol" % c[1])
            if self.sort_arity(n) is not None or n in ("Bool", "Int", "Real", "BitVec", "Array", "String"):
                raise Err("sort %s already declared" % n)
            self.levels[-1].sorts[n] = int(c[2])
            self.sat_mode = False
            return ok
        if name in ("declare-fun", "declare-const"):
            if name == "declare-fun":
                if len(c) != 4 or not isinstance(c[2], list):
                    raise Err("bad declare-fun")
                if c[2]:
                    raise Err("function symbols of positive arity are not supported")
                sort = c[3]
            else:
                if len(c) != 3:
                    raise Err("bad declare-const")
                sort = c[2]
            if not isinstance(c[1], str):
                raise Err("bad symbol")
            n = unquote(c[1])
            if self.sym_sort(n) is not None:
                raise Err("symbol %s already declared" % n)
            self.levels[-1].syms[n] = self.parse_sort(sort)
            self.sat_mode = False
            return ok
        if name == "assert":
            if len(c) != 2:
                raise Err("bad assert")
            if self.check(c[1], {}) != "Bool":
                raise Err("assert expects a Bool term")
            self.levels[-1].asserts.append(c[1])
            self.sat_mode = False
            return ok
        if name == "push" or name == "pop":
            if len(c) != 2 or not (isinstance(c[1], str) and c[1].isdigit()):
                raise Err("bad %s" % name)
            n = int(c[1])
            if name == "push":
                for _ in range(n):
                    self.levels.append(Level())
            else:
                if n >= len(self.levels):
                    if not self.lenient_pop:
                        raise Err("pop %d with %d levels" % (n, len(self.levels) - 1))
                    n = len(self.levels) - 1        # test double: a solver that tolerates popping too much
                if n:
                    del self.levels[-n:]
            self.sat_mode = False
            return ok
        if name == "reset-assertions":
            if len(c) != 1:
                raise Err("bad reset-assertions")
            self.levels = [Level()]
            self.sat_mode = False
            return ok
        if name == "check-sat":
            if len(c) != 1:
                raise Err("bad check-sat")
            res, model = self.check_sat()
            self.sat_mode = res == "sat"
            self.model = model
            return res
        if name == "get-value":
            if len(c) != 2 or not isinstance(c[1], list) or not c[1]:
                raise Err("bad get-value")
            if not self.sat_mode:
                raise Err("get-value outside sat mode")
            out = []
            for t in c[1]:
                self.check(t, {})
                s, v = self.ev(t, self.model)
                out.append("(%s %s)" % (render(t), self.value_text(s, v)))
            return "(" + " ".join(out) + ")"
        raise Err("unsupported command %s" % name)


def lay_out(reply, layout):
    """the bytes written for a reply.  SMT-LIB fixes the tokens of a reply, not their layout: a client has to find the
    end of a parenthesised reply by its closing parenthesis.  0: one line; 1: one binding per line; 2: a line break
    after every token of a value reply; 3: a blank line first, trailing blanks, CR LF line ends."""
    if layout in (1, 2) and reply.startswith("(("):
        if layout == 1:
            return "(\n" + "".join("  %s\n" % render(b) for b in parse(tokenize(reply))[0][0]) + ")\n"
        return "\n".join(tokenize(reply)) + "\n"
    if layout == 3:
        return "\r\n" + reply + "  \r\n"
    return reply + "\n"


def main(argv):
    log = None
    R, K = 3, 3
    lenient = False
    layout = 0
    i = 0
    while i < len(argv):
        if argv[i] == "--log":
            log = open(argv[i + 1], "a")
            i += 2
        elif argv[i] == "--int-range":
            R = int(argv[i + 1])
            i += 2
        elif argv[i] == "--usize":
            K = int(argv[i + 1])
            i += 2
        elif argv[i] == "--lenient-pop":
            lenient = True
            i += 1
        elif argv[i] == "--layout":
            layout = int(argv[i + 1])
            i += 2
        else:
            sys.stderr.write("unknown argument %s\n" % argv[i])
            return 2
    st = Strict(R, K)
    st.lenient_pop = lenient
    st.real_style = layout % 2
    pending = []
    out = sys.stdout
    for line in sys.stdin:
        try:
            pending += tokenize(line)
            cmds, pending = parse(pending)
        except Err as e:
            cmds, pending = [None], []
        for c in cmds:
            text = "<unreadable>" if c is None else render(c)
            reply = '(error "syntax error")' if c is None else st.command(c)
            if log:
                log.write("> %s\n< %s\n" % (text, reply))
                log.flush()
            if reply != "success" or st.print_success:
                out.write(lay_out(reply, layout))
                out.flush()
            if st.exited:
                return 0
    return 0


if __name__ == "__main__":
    sys.exit(main(sys.argv[1:]))
