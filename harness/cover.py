"""Line coverage of a property's anchored files during a check (PEP 669 sys.monitoring,
each line reported once then disabled, so the overhead is negligible). Purely
informational: written into the evidence, never fails a check."""
import ast
import json
import os
import sys

TOOL = 3  # sys.monitoring tool id (0-5); 3 is free for general use


def anchor_files(prop, repo):
    out = []
    try:
        for l in open(os.path.join(os.path.dirname(os.path.dirname(os.path.abspath(__file__))), "properties.jsonl")):
            d = json.loads(l)
            if d["id"] == prop:
                out = [os.path.realpath(os.path.join(repo, f)) for f in d["anchors"]["files"]]
    except OSError:
        pass
    return [f for f in out if os.path.isfile(f)]


def executable_lines(path):
    """line numbers of statements inside function bodies (module- and class-level
    statements run at import time, before a check starts; docstrings excluded)"""
    try:
        tree = ast.parse(open(path).read())
    except (OSError, SyntaxError):
        return set()
    lines = set()
    for fn in ast.walk(tree):
        if not isinstance(fn, (ast.FunctionDef, ast.AsyncFunctionDef)):
            continue
        for node in ast.walk(fn):
            if node is fn or not isinstance(node, ast.stmt):
                continue
            if isinstance(node, (ast.FunctionDef, ast.AsyncFunctionDef, ast.ClassDef)):
                continue
            if isinstance(node, ast.Expr) and isinstance(getattr(node, "value", None), ast.Constant) \
                    and isinstance(node.value.value, str):
                continue
            lines.add(node.lineno)
    return lines


class Coverage:
    def __init__(self, prop, repo):
        self.files = anchor_files(prop, repo)
        self.hit = {f: set() for f in self.files}
        self.active = False

    def start(self):
        mon = getattr(sys, "monitoring", None)
        if mon is None or not self.files:
            return
        try:
            mon.use_tool_id(TOOL, "verif-cover")
        except ValueError:
            return
        files = self.hit

        def on_line(code, lineno):
            s = files.get(code.co_filename)
            if s is None:
                s = files.get(os.path.realpath(code.co_filename))
            if s is not None:
                s.add(lineno)
            return mon.DISABLE
        mon.register_callback(TOOL, mon.events.LINE, on_line)
        mon.set_events(TOOL, mon.events.LINE)
        self.active = True

    def stop(self):
        if not self.active:
            return
        mon = sys.monitoring
        mon.set_events(TOOL, 0)
        mon.register_callback(TOOL, mon.events.LINE, None)
        mon.free_tool_id(TOOL)
        self.active = False

    def report(self, repo):
        rep = {}
        for f in self.files:
            ex = executable_lines(f)
            hit = self.hit[f] & ex
            missed = sorted(ex - hit)
            rep[os.path.relpath(f, os.path.realpath(repo))] = {
                "executable_lines": len(ex), "executed": len(hit),
                "unexecuted_sample": missed[:25]}
        return rep


def changed_lines(prop, repo):
    """{anchored file: set of line numbers (in the CURRENT file) that differ from the
    aligned/ snapshot}; empty when the tree is the one the models were aligned with"""
    import difflib
    verif = os.path.dirname(os.path.dirname(os.path.abspath(__file__)))
    out = {}
    for f in anchor_files(prop, repo):
        rel = os.path.relpath(f, os.path.realpath(repo))
        snap = os.path.join(verif, "aligned", rel)
        try:
            a = open(snap).read().splitlines()
            b = open(f).read().splitlines()
        except OSError:
            continue
        if a == b:
            continue
        lines = set()
        for tag, i1, i2, j1, j2 in difflib.SequenceMatcher(None, a, b, autojunk=False).get_opcodes():
            if tag in ("replace", "insert"):
                lines.update(range(j1 + 1, j2 + 1))
            elif tag == "delete":
                lines.add(min(j1 + 1, len(b)))       # the line after a deletion
        out[f] = lines
    return out
