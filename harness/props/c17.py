"""C17 -- text-interface solvers (pysmt/smtlib/solver.py: SmtLibSolver, Solver.is_sat/is_valid/is_unsat).

K  The *real* `SmtLibSolver`, registered through `env.factory.add_generic_solver`, drives `harness/refsolver.py`
   (the strict reference solver, a separate process) over pipes.  The byte stream the process received is logged by
   the process itself; what the wrapper wrote and read is recorded by wrapping `_send_command`, `_get_answer`,
   `_get_value_answer` (in the harness, not in /repo).  The same API-call sequence, with the verdicts the process
   gave, is run through the Lean model (`smtsolver` request of Drivers/C17.lean); command stream (token-wise, per API
   call), results, and bookkeeping (`declared_vars`, `declared_sorts`, `pending_pop`) after every call are compared.
   A second tie runs random legal/illegal command streams through `refsolver.Strict` and the Lean `StrictSolver`.
S  Independent oracles on the real run: first command the strict process rejects; desynchronised reply (the wrapper's
   reads and writes must alternate, the i-th reply read must be the i-th reply produced); verdict vs brute-force truth
   of hand-written Python predicates; model missing a live symbol, reporting another value than the solver did, or
   falsifying a live assertion; unexpected exceptions.
"""
import itertools
import json
from fractions import Fraction
import os
import signal
import sys
import tempfile
import time

import common

HERE = os.path.dirname(os.path.abspath(__file__))
HARNESS = os.path.dirname(HERE)
sys.path.insert(0, HARNESS)
import refsolver  # noqa: E402  (reader / renderer and the in-process Strict machine for the second tie)

LEAN_MODULES = ["PySMT.Props.C17"]
RULE = ("API-call sequences over add_assertion(23 formulas: the Boolean constants/Bool/BV/Int/Real over six exact rationals/custom sorts of arity 0 and 2, some with names that need quoting/symbols named like generated let binders/arrays whose "
        "index or element sort is a custom sort occurring nowhere else, overlapping symbols) / push(0|1|2|3) / pop(0|1|2|3) / "
        "solve / get_value / get_model / reset_assertions / is_sat / is_valid / is_unsat, user-legal (pop within the user's "
        "stack, get_value/get_model only directly after a sat verdict); every case in one of 3 environments of the process, "
        "with one of 4 legal layouts of the solver's replies, 1 in 10 with a companion solver alive in another environment; "
        "exhaustive up to the stated length (every prefix is checked while the maximal sequence runs) plus sampled long ones, "
        "witness scenarios, over-pop sequences on a lenient solver (K only), the factory shortcuts (S only); a case is "
        "non-trivial when at least one declaration is sent and the stack is moved or reset")
ASSUMPTIONS = [
    "the solver process answers every command with exactly one reply (refsolver.py does; StrictSolver.respond); a reply "
    "is consumed as a whole (the model's recv): _get_answer reads a line, _get_value_answer reads the complete "
    "s-expression before parsing it (fix 5b9146c, F75)",
    "formulas are abstracted to (id, free symbols, custom sort declarations) of formula.simplify(); simplify, "
    "get_free_variables, get_types and the SMT-LIB printer are the subject of C01/C12/C07",
    "one symbol per name, one sort declaration per name (FormulaManager/TypeManager, C04): theorem hypothesis Universe",
    "symbols are constants (no function-typed symbols: get_model's is_term() filter is not modelled)",
    "incremental mode, default options, no named assertions, no solve(assumptions), no print_model",
    "API preconditions (theorem hypothesis LegalRun, generator rule): pop(n) within the levels the user pushed; "
    "get_value/get_model only directly after a sat verdict",
    "Int symbols range over [-3,3], custom sorts have 3 elements in refsolver and in the brute-force truth",
]

INT_RANGE = 3
USIZE = 3
CASE_TIMEOUT = 30

# --------------------------------------------------------------------------------------------- pool
_POOL = None


class Pool(object):
    """formulas with an independent Python reading, symbols, terms"""

    def __init__(self, env=None):
        from pysmt.environment import get_env
        from pysmt.typing import BOOL, INT
        env = env or get_env()
        self.env = env
        BVType = env.type_manager.BVType
        mgr = env.formula_manager
        tm = env.type_manager
        U = tm.Type("U")
        Pair = tm.Type("Pair", 2)
        PIU = tm.get_type_instance(Pair, INT, U)
        PBU = tm.get_type_instance(Pair, BOOL, U)
        S = mgr.Symbol
        a, b, c = S("a", BOOL), S("b", BOOL), S("c", BOOL)
        unk = S("UNKNOWN_k", BOOL)
        v, i = S("v", BVType(2)), S("i", INT)
        x, y = S("x", U), S("y", U)
        p, p2, r, r2 = S("p", PIU), S("p2", PIU), S("r", PBU), S("r2", PBU)
        # the custom sort V occurs *only* inside array types (element sort, and nested as index of an inner array)
        V = tm.Type("V")
        BV1 = BVType(1)
        j1, j2 = S("j1", BV1), S("j2", BV1)
        m1 = S("m1", tm.ArrayType(BV1, V))
        m2 = S("m2", tm.ArrayType(BV1, tm.ArrayType(V, BOOL)))
        # exact rationals (Real symbols range over refsolver.REALS); names that need |...| quoting (blank, parenthesis,
        # leading digit) for symbols and for declared sorts; symbols named like the names the DAG printer generates
        from pysmt.typing import REAL
        dQ = list(refsolver.REALS)
        MS, S2 = tm.Type("my sort"), tm.Type("2nd")
        q1, q2 = S("q1", REAL), S("q2", REAL)
        wa, wb = S("a b", MS), S("(x)", MS)
        wc, wc2 = S("1st", S2), S("2 (nd)", S2)
        d0, d1 = S(".def_0", BOOL), S(".def_1", BOOL)
        self.symbols = {}       # key -> dict(node, name, sort, uses, dom, custom); key = name unless the name is odd
        dB, dV, dI, dU = [False, True], [0, 1, 2, 3], list(range(-INT_RANGE, INT_RANGE + 1)), list(range(USIZE))
        for n, node, sort, uses, dom in [
                ("a", a, "Bool", [], dB), ("b", b, "Bool", [], dB), ("c", c, "Bool", [], dB),
                ("UNKNOWN_k", unk, "Bool", [], dB),
                ("v", v, "(_ BitVec 2)", [], dV), ("i", i, "Int", [], dI),
                ("x", x, "U", ["U"], dU), ("y", y, "U", ["U"], dU),
                ("p", p, "(Pair Int U)", ["Pair", "U"], dU), ("p2", p2, "(Pair Int U)", ["Pair", "U"], dU),
                ("r", r, "(Pair Bool U)", ["Pair", "U"], dU), ("r2", r2, "(Pair Bool U)", ["Pair", "U"], dU),
                ("j1", j1, "(_ BitVec 1)", [], [0, 1]), ("j2", j2, "(_ BitVec 1)", [], [0, 1]),
                # an array value is the tuple of its elements (index 0, index 1)
                ("m1", m1, "(Array (_ BitVec 1) V)", ["V"], list(itertools.product(dU, repeat=2))),
                ("m2", m2, "(Array (_ BitVec 1) (Array V Bool))", ["V"],
                 list(itertools.product(list(itertools.product(dB, repeat=USIZE)), repeat=2))),
                ("q1", q1, "Real", [], dQ), ("q2", q2, "Real", [], dQ),
                ("wa", wa, "|my sort|", ["MS"], dU), ("wb", wb, "|my sort|", ["MS"], dU),
                ("wc", wc, "|2nd|", ["S2"], dU), ("wc2", wc2, "|2nd|", ["S2"], dU),
                (".def_0", d0, "Bool", [], dB), (".def_1", d1, "Bool", [], dB)]:
            self.symbols[n] = {"node": node, "name": node.symbol_name(), "sort": sort, "uses": uses, "dom": dom,
                               "custom": bool(uses)}
        self.key_of = dict((d["name"], k) for k, d in self.symbols.items())
        self.sort_arity = {"U": 0, "Pair": 2, "V": 0, "MS": 0, "S2": 0}
        self.sort_key = {"U": "U", "Pair": "Pair", "V": "V", "my sort": "MS", "2nd": "S2"}
        m = mgr
        # id -> (FNode, predicate over {name: python value}, names the predicate reads)
        self.formulas = {
            "Fa": (a, lambda e: e["a"], ["a"]),
            "Fna": (m.Not(a), lambda e: not e["a"], ["a"]),
            "Fab": (m.Or(a, b), lambda e: e["a"] or e["b"], ["a", "b"]),
            "Fnb": (m.And(m.Not(a), b), lambda e: (not e["a"]) and e["b"], ["a", "b"]),
            "Fu": (m.Equals(x, y), lambda e: e["x"] == e["y"], ["x", "y"]),
            "Fnu": (m.Not(m.Equals(x, y)), lambda e: e["x"] != e["y"], ["x", "y"]),
            "Fvi": (m.And(m.BVULT(v, m.BV(2, 2)), m.GT(i, m.Int(1))), lambda e: e["v"] < 2 and e["i"] > 1, ["v", "i"]),
            "Fiv": (m.And(m.LT(i, m.Int(3)), m.Equals(m.BVAdd(v, m.BV(1, 2)), m.BV(0, 2))),
                    lambda e: e["i"] < 3 and (e["v"] + 1) % 4 == 0, ["v", "i"]),
            "Fp": (m.And(m.Equals(p, p2), m.Not(m.Equals(r, r2)), a),
                   lambda e: e["p"] == e["p2"] and e["r"] != e["r2"] and e["a"], ["p", "p2", "r", "r2", "a"]),
            "Ft": (m.And(a, m.Or(b, m.Not(b))), lambda e: e["a"], ["a", "b"]),
            "Fk": (m.Or(a, unk), lambda e: e["a"] or e["UNKNOWN_k"], ["a", "UNKNOWN_k"]),
            "Far": (m.Not(m.Equals(m.Select(m1, j1), m.Select(m1, j2))),
                    lambda e: e["m1"][e["j1"]] != e["m1"][e["j2"]], ["m1", "j1", "j2"]),
            "Fjj": (m.Equals(j1, j2), lambda e: e["j1"] == e["j2"], ["j1", "j2"]),
            "Fa2": (m.Not(m.Equals(m.Select(m2, j1), m.Select(m2, j2))),
                    lambda e: e["m2"][e["j1"]] != e["m2"][e["j2"]], ["m2", "j1", "j2"]),
            "Fq": (m.Equals(m.Times(m.Real(3), q1), m.Real(1)), lambda e: 3 * e["q1"] == 1, ["q1"]),
            "Fq2": (m.LT(m.Plus(q1, q2), m.Real(Fraction(-1, 7))), lambda e: e["q1"] + e["q2"] < Fraction(-1, 7),
                    ["q1", "q2"]),
            "Fq3": (m.GT(q2, m.Real(4)), lambda e: e["q2"] > 4, ["q2"]),
            "Fw": (m.Not(m.Equals(wa, wb)), lambda e: e["wa"] != e["wb"], ["wa", "wb"]),
            "Fw2": (m.Equals(wc, wc2), lambda e: e["wc"] == e["wc2"], ["wc", "wc2"]),
            # Boolean constants (also as what And() / Or() construct): TRUE is valid, FALSE is valid exactly when the
            # live assertions are unsatisfiable -- the solver has to be asked
            "Ftrue": (m.And(), lambda e: True, []),
            "Ffalse": (m.Or(), lambda e: False, []),
            "Fd": (m.And(m.Or(d0, d1), m.Not(d1)), lambda e: (e[".def_0"] or e[".def_1"]) and not e[".def_1"],
                   [".def_0", ".def_1"]),
            "Fd2": (m.And(m.Or(d0, a), m.Or(m.Not(d1), b), m.Or(d1, d0)),
                    lambda e: (e[".def_0"] or e["a"]) and ((not e[".def_1"]) or e["b"]) and (e[".def_1"] or e[".def_0"]),
                    [".def_0", ".def_1", "a", "b"]),
        }
        # checked statically only (function symbols are outside the wrapper model): V below an array-typed parameter
        g = S("g", tm.FunctionType(BOOL, [tm.ArrayType(BV1, V)]))
        self.static_only = {"Fg": (m.Function(g, [m1]), ["V"]),
                            "Fgs": (m.Function(g, [m.Store(m1, j1, m.Select(m1, j2))]), ["V"])}
        self.not_ = m.Not
        # terms for get_value: id -> FNode
        self.terms = {"a": a, "b": b, "c": c, "v": v, "i": i, "x": x,
                      "Tv": m.BVAdd(v, m.BV(1, 2)), "Ti": m.Plus(i, m.Int(1)),
                      "q1": q1, "q2": q2, "Tq": m.Times(q1, m.Plus(q2, m.Real(Fraction(22, 7)))),
                      ".def_0": d0, ".def_1": d1, "wa": wa, "wc2": wc2}
        self._abs = {}
        self._text = {}
        self.by_text = {}
        for fid, (f, _, _) in self.formulas.items():
            self.by_text[self.text(f.simplify())] = fid
            self.by_text[self.text(m.Not(f).simplify())] = "N" + fid
        self.term_by_text = {self.text(t): tid for tid, t in self.terms.items()}
        for n, d in self.symbols.items():
            self.term_by_text.setdefault(self.text(d["node"]), n)

    def text(self, node):
        """canonical rendering of the SMT-LIB text pySMT prints for `node` (daggified, as the wrapper sends it)"""
        from pysmt.smtlib.script import SmtLibCommand
        import pysmt.smtlib.commands as smtcmd
        k = node.node_id()
        if k not in self._text:
            s = SmtLibCommand(smtcmd.ASSERT, [node]).serialize_to_string()
            self._text[k] = refsolver.render(refsolver.parse(refsolver.tokenize(s))[0][0][1])
        return self._text[k]

    def names_of(self, node):
        """free symbol names of a node in Python's iteration order (the order the wrapper declares them in)"""
        return [self.key_of[s.symbol_name()] for s in node.get_free_variables()]

    def abstraction(self, ident, node):
        """the `expr` token of Drivers/C17.lean for the node that is finally sent"""
        key = (ident, node.node_id())
        if key not in self._abs:
            syms = []
            for n in self.names_of(node):
                d = self.symbols[n]
                syms.append("%s:%s:%s" % (n, d["sort"].replace(" ", "~"), "+".join(d["uses"])))
            sorts = []
            for t in self.env.typeso.get_types(node, custom_only=True):
                sorts.append("%s:%d" % (self.sort_key[t.basename], self.sort_arity[self.sort_key[t.basename]]))
            self._abs[key] = "%s/%s/%s" % (ident, ",".join(syms), ",".join(sorts))
        return self._abs[key]

    def sent(self, op):
        """(id, FNode) of the formula an op finally asserts"""
        kind, fid = op[0], op[1]
        f = self.formulas[fid][0]
        node = (self.not_(f) if kind == "is_valid" else f).simplify()
        # formulas with the same simplified form are the same thing on the wire
        return self.by_text[self.text(node)], node


_POOLS = {}
_CUR = 0        # index of the environment the case at hand lives in (0 = the global environment)
N_ENVS = 3


def pool():
    """the formulas, built in the environment of the current case (the same formulas exist in every environment)"""
    if _CUR not in _POOLS:
        if _CUR == 0:
            _POOLS[0] = Pool()
        else:
            from pysmt.environment import Environment
            _POOLS[_CUR] = Pool(Environment())
    return _POOLS[_CUR]


# ----------------------------------------------------------------------------------- brute-force truth
_TRUTH = {}


def models_of(fids):
    """is the conjunction of the predicates of `fids` satisfiable over the finite domains?  (independent groups of
    formulas -- no shared symbol -- are decided separately)"""
    P = pool()
    key = tuple(sorted(set(fids)))
    if key in _TRUTH:
        return _TRUTH[key]
    groups = []         # [set of names, [fids]]
    for fid in key:
        ns = set(P.formulas[fid.lstrip("N")][2])
        merged = [ns, [fid]]
        rest = []
        for g in groups:
            if g[0] & merged[0]:
                merged[0] |= g[0]
                merged[1] += g[1]
            else:
                rest.append(g)
        groups = rest + [merged]
    res = True
    for ns, fs in groups:
        gkey = tuple(sorted(fs))
        if gkey not in _TRUTH:
            names = sorted(ns)
            found = False
            for vals in itertools.product(*[P.symbols[n]["dom"] for n in names]):
                e = dict(zip(names, vals))
                if all(bool(P.formulas[f.lstrip("N")][1](e)) != f.startswith("N") for f in fs):
                    found = True
                    break
            _TRUTH[gkey] = found
        if not _TRUTH[gkey]:
            res = False
            break
    _TRUTH[key] = res
    return res


# ------------------------------------------------------------------------------ running the real wrapper


def const_text(node):
    """SMT-LIB text of a constant FNode (public accessors only)"""
    try:
        if node.is_bool_constant():
            return "true" if node.constant_value() else "false"
        if node.is_int_constant():
            n = node.constant_value()
            return str(n) if n >= 0 else "(- %d)" % -n
        if node.is_bv_constant():
            return "#b" + format(node.constant_value(), "0%db" % node.bv_width())
        if node.is_real_constant():
            q = Fraction(node.constant_value())
            return "%d/%d" % (q.numerator, q.denominator)
    except Exception:       # noqa
        pass
    return "?" + str(node)


def norm_value(text):
    """a value text of the solver's reply in the form `const_text` uses: rationals (any legal spelling with `/`, decimals,
    unary minus) become `numerator/denominator`, exactly; everything else is left alone"""
    if "/" not in text and "." not in text:
        return text

    def ev(e):
        if isinstance(e, str):
            return Fraction(e)
        if e[0] == "-" and len(e) == 2:
            return -ev(e[1])
        if e[0] == "/" and len(e) == 3:
            return ev(e[1]) / ev(e[2])
        raise ValueError(e)
    try:
        q = ev(refsolver.parse(refsolver.tokenize(text))[0][0])
        return "%d/%d" % (q.numerator, q.denominator)
    except Exception:       # noqa
        return text


_TMP = None


def _tmp_root():
    """one scratch directory per check run (created before the workers are forked, removed at the end of run)"""
    global _TMP
    if _TMP is None or not os.path.isdir(_TMP):
        _TMP = tempfile.mkdtemp(prefix="c17-")
    return _TMP


def _cleanup():
    global _TMP
    if _TMP is not None:
        import shutil
        shutil.rmtree(_TMP, ignore_errors=True)
        _TMP = None


_REGISTERED = set()


def solver_name(lenient=False, layout=0, slot="m"):
    """name of the reference solver (registered on demand in the factory of the current case's environment) and the
    file it logs to; `slot` tells the main solver of a case from its companion"""
    from pysmt.logics import QF_AUFBVLIRA
    P = pool()
    name = "c17ref%d%s%s%d" % (os.getpid(), slot, "L" if lenient else "S", layout)
    logp = os.path.join(_tmp_root(), "log%d%s" % (os.getpid(), slot))
    if (_CUR, name) not in _REGISTERED:
        P.env.factory.add_generic_solver(
            name,
            [sys.executable, "-S", "-E", "-B", os.path.join(HARNESS, "refsolver.py"), "--log", logp,
             "--int-range", str(INT_RANGE), "--usize", str(USIZE), "--layout", str(layout)]
            + (["--lenient-pop"] if lenient else []),
            [QF_AUFBVLIRA])
        _REGISTERED.add((_CUR, name))
    return name, logp


def setup():
    """record the wrapper's reads and writes (wrappers around three methods of the class, in the harness only)"""
    from pysmt.smtlib.solver import SmtLibSolver
    if not getattr(SmtLibSolver, "_c17_patched", False):
        o_send, o_ans, o_val = SmtLibSolver._send_command, SmtLibSolver._get_answer, SmtLibSolver._get_value_answer

        def send(self, cmd):
            self.__dict__.setdefault("_c17_events", []).append(["send", cmd.serialize_to_string()])
            return o_send(self, cmd)

        def ans(self):
            ev = self.__dict__.setdefault("_c17_events", [])
            r = o_ans(self)
            ev.append(["recv", r])
            return r

        def val(self):
            ev = self.__dict__.setdefault("_c17_events", [])
            try:
                r = o_val(self)
            except BaseException as e:
                ev.append(["recv-exc", type(e).__name__])
                raise
            ev.append(["recvv", [[str(k), const_text(x)] for k, x in r]])
            return r

        SmtLibSolver._send_command = send
        SmtLibSolver._get_answer = ans
        SmtLibSolver._get_value_answer = val
        SmtLibSolver._c17_patched = True


class CaseTimeout(BaseException):
    pass


def _alarm(signum, frame):
    raise CaseTimeout()


def _children_busy(pause=0.4):
    """True when a child process of this worker (the reference solver) is computing rather than waiting for input:
    state R, or CPU time that grows over a short pause.  The per-case limit is there to catch the WRAPPER hanging
    on a reply that never comes (the child then sleeps on its stdin); a reference solver that is still enumerating a
    large finite domain is the harness being slow, not the library misbehaving."""
    me = os.getpid()

    def scan():
        out = {}
        for d in os.listdir("/proc"):
            if not d.isdigit():
                continue
            try:
                with open("/proc/%s/stat" % d) as fh:
                    st = fh.read()
                rest = st[st.rindex(")") + 2:].split()
                ppid, state = int(rest[1]), rest[0]
                if ppid == me:
                    out[int(d)] = (state, int(rest[11]) + int(rest[12]))
            except (OSError, ValueError, IndexError):
                continue
        return out
    a = scan()
    if any(stt == "R" for stt, _ in a.values()):
        return True
    time.sleep(pause)
    b = scan()
    return any(stt == "R" or (pid in a and cpu > a[pid][1]) for pid, (stt, cpu) in b.items())


def _name(z):
    P = pool()
    if hasattr(z, "symbol_name"):
        return P.key_of.get(z.symbol_name(), z.symbol_name())
    n = str(getattr(z, "name", z))
    return P.sort_key.get(n, n)


def _key(sym):
    P = pool()
    return P.key_of.get(sym.symbol_name(), sym.symbol_name())


def snapshot(s):
    def lv(stack):
        return [sorted(_name(z) for z in level) for level in stack]
    return [lv(s.declared_vars), lv(s.declared_sorts), bool(s.pending_pop)]


VERDICT_OPS = ("solve", "is_sat", "is_valid", "is_unsat")


def probe_model(mdl, names):
    """everything a model says through its mapping interface about the symbols `names`"""
    P = pool()
    res = {"items": sorted([_key(k), const_text(x)] for k, x in mdl), "str_lines": len(str(mdl).split("\n")),
           "in": {}, "value": {}, "value_nc": {}}
    for n in names:
        if n not in P.symbols:
            continue
        node = P.symbols[n]["node"]
        res["in"][n] = node in mdl
        for key, mc in (("value", True), ("value_nc", False)):
            try:
                res[key][n] = const_text(mdl.get_value(node, model_completion=mc))
            except Exception as e:      # noqa
                res[key][n] = "exc:" + type(e).__name__
    return res


def _reprobe(rec, kept, after):
    """a model returned earlier must keep saying what it said (models survive later commands and the solver)"""
    for call, mdl, then in kept:
        if any(c["model_call"] == call for c in rec["model_changes"]):
            continue
        try:
            now = probe_model(mdl, [k for k, _ in then["items"]])
        except CaseTimeout:
            raise
        except Exception as e:      # noqa
            now = {"exc": type(e).__name__}
        if now != then:
            rec["model_changes"].append({"model_call": call, "after_call": after, "then": then, "now": now})


def env_check(P, label, node, acc):
    """a node handed to the user must belong to the formula manager of the environment his solver lives in"""
    try:
        ok = node in P.env.formula_manager
    except Exception as e:      # noqa
        ok = False
        label += " (%s)" % type(e).__name__
    if not ok:
        acc.append(["foreign-node", "%s = %s is not a formula of the solver's environment" % (label, node)])


def model_env_check(P, call, mdl, acc):
    """keys and values of a model belong to the solver's environment, and evaluating the pool formulas over the
    model's symbols *in that environment* gives what the hand-written predicates give on the model's values"""
    vals = {}
    usable = True
    for k, v in mdl:
        env_check(P, "call %s: model key %s" % (call, k), k, acc)
        env_check(P, "call %s: model value of %s" % (call, k), v, acc)
        n = _key(k)
        if n in P.symbols and not P.symbols[n]["custom"] and v.is_constant():
            vals[n] = v.constant_value()
        else:
            usable = False if n in P.symbols and not P.symbols[n]["custom"] else usable
    if not usable:
        return
    for fid, (f, pred, names) in P.formulas.items():
        if all(n in vals for n in names):
            want = bool(pred(vals))
            try:
                got = mdl.get_value(f)
                env_check(P, "call %s: model.get_value(%s)" % (call, fid), got, acc)
                if not (got.is_bool_constant() and got.constant_value() == want):
                    acc.append(["evaluation", "call %s: model.get_value(%s) = %s, the predicate on the model's values %s gives %s"
                                % (call, fid, got, vals, want)])
            except CaseTimeout:
                raise
            except Exception as e:      # noqa
                acc.append(["evaluation", "call %s: model.get_value(%s) raised %s: %s" % (call, fid, type(e).__name__,
                                                                                         str(e)[:120])])


class Companion(object):
    """a second solver object, alive at the same time as the solver of the case, in ANOTHER environment: it is created
    first, queried once at the start and once in the middle of the case"""

    def __init__(self, envk, layout, acc):
        global _CUR
        from pysmt.logics import QF_AUFBVLIRA
        self.acc = acc
        self.envk = envk
        save = _CUR
        _CUR = envk
        try:
            self.P = pool()
            name, logp = solver_name(False, layout, "c")
            open(logp, "w").close()
            self.s = self.P.env.factory.Solver(name=name, logic=QF_AUFBVLIRA)
        finally:
            _CUR = save

    def session(self, tag, fid):
        P, s = self.P, self.s
        try:
            s.push()
            s.add_assertion(P.formulas[fid][0])
            if s.solve():
                for n in P.formulas[fid][2]:
                    env_check(P, "companion (environment %d) %s: get_value(%s)" % (self.envk, tag, n),
                              s.get_value(P.symbols[n]["node"]), self.acc)
                model_env_check(P, "companion (environment %d) %s" % (self.envk, tag), s.get_model(), self.acc)
        except CaseTimeout:
            raise
        except Exception as e:      # noqa
            self.acc.append(["companion-exception", "companion (environment %d) %s raised %s: %s"
                             % (self.envk, tag, type(e).__name__, str(e)[:120])])

    def close(self):
        try:
            self.s.exit()
            self.s.solver.wait(timeout=2)
        except BaseException:       # noqa
            pass


def run_real(ops, lenient=False, layout=0, companion=None):
    """run one API-call sequence on the real wrapper; stops at a user-illegal call and at the first exception that is
    not the documented outcome of the call (unknown verdict; a value query the solver refuses or whose value cannot be
    read leaves solver and wrapper as they were, the sequence goes on).  `lenient`: against the solver that tolerates
    popping too much, user-illegal pops allowed, never stops (K only)."""
    setup()
    from pysmt.logics import QF_AUFBVLIRA
    P = pool()
    rec = {"ops": [], "outs": [], "states": [], "groups": [0], "values": [], "cut": None, "init_exc": None,
           "lenient": lenient, "layout": layout, "env": _CUR, "companion": companion, "env_problems": []}
    name, _LOG_PATH = solver_name(lenient, layout)
    open(_LOG_PATH, "w").close()
    comp = None
    old = signal.signal(signal.SIGALRM, _alarm)
    signal.setitimer(signal.ITIMER_REAL, CASE_TIMEOUT)
    s = None
    depth, satmode = 0, False
    kept = []           # (call index, model object, what it said when it was returned)
    rec["model_changes"] = []
    try:
        try:
            if companion is not None and companion != _CUR:
                comp = Companion(companion, layout, rec["env_problems"])
                comp.session("at the start", "Fab")
            s = P.env.factory.Solver(name=name, logic=QF_AUFBVLIRA)
        except CaseTimeout:
            rec["init_exc"] = "CaseTimeout"
            if _children_busy():
                rec["ref_slow"] = True
        except Exception as e:      # noqa
            rec["init_exc"] = type(e).__name__ + ": " + str(e)[:200]
        if s is not None:
            ev = s.__dict__.setdefault("_c17_events", [])
            rec["groups"].append(len(ev))
            for opi, op in enumerate(ops):
                kind = op[0]
                if comp is not None and opi == (len(ops) + 1) // 2:
                    comp.session("in the middle", "Fvi")
                if kind == "pop" and op[1] > depth and not lenient:
                    rec["cut"] = "pop beyond the user's stack"
                    break
                if kind in ("getv", "model") and not satmode:
                    rec["cut"] = "value query outside sat mode"
                    break
                out, value = None, None
                try:
                    if kind == "add":
                        s.add_assertion(P.formulas[op[1]][0])
                        out = "unit"
                    elif kind == "push":
                        s.push(op[1])
                        out = "unit"
                    elif kind == "pop":
                        s.pop(op[1])
                        out = "unit"
                    elif kind == "reset":
                        s.reset_assertions()
                        out = "unit"
                    elif kind == "solve":
                        out = "true" if s.solve() else "false"
                    elif kind == "getv":
                        r = s.get_value(P.terms[op[1]])
                        out = "val"
                        value = const_text(r)
                        env_check(P, "call %d: get_value(%s)" % (opi, op[1]), r, rec["env_problems"])
                    elif kind == "model":
                        mdl = s.get_model()
                        value = sorted([_key(k), const_text(x)] for k, x in mdl)
                        out = "model:" + ",".join(k for k, _ in value)
                        model_env_check(P, opi, mdl, rec["env_problems"])
                    elif kind == "is_sat":
                        out = "true" if s.is_sat(P.formulas[op[1]][0]) else "false"
                    elif kind == "is_valid":
                        out = "true" if s.is_valid(P.formulas[op[1]][0]) else "false"
                    elif kind == "is_unsat":
                        out = "true" if s.is_unsat(P.formulas[op[1]][0]) else "false"
                    else:
                        raise ValueError("unknown op %r" % (op,))
                except CaseTimeout:
                    out = "exc:CaseTimeout"
                    if _children_busy():
                        rec["ref_slow"] = True
                except Exception as e:      # noqa
                    out = "exc:" + type(e).__name__
                    rec["exc_text"] = str(e)[:200]
                rec["ops"].append(list(op))
                rec["outs"].append(out)
                rec["values"].append(value)
                rec["states"].append(snapshot(s))
                rec["groups"].append(len(ev))
                _reprobe(rec, kept, len(rec["ops"]) - 1)
                if kind == "model" and not out.startswith("exc:"):
                    kept.append((len(rec["ops"]) - 1, mdl, probe_model(mdl, [k for k, _ in value])))
                if out == "exc:CaseTimeout":
                    break
                if out.startswith("exc:") and out != "exc:SolverReturnedUnknownResultError" and not lenient:
                    if kind not in ("getv", "model"):
                        break
                    continue        # nothing changed: still in sat mode
                if kind == "push":
                    depth += op[1]
                elif kind == "pop":
                    depth = max(0, depth - op[1])
                elif kind == "reset":
                    depth = 0
                if kind in VERDICT_OPS:
                    satmode = out in ("true", "false") and (out == "true") != (kind in ("is_valid", "is_unsat"))
                elif kind not in ("getv", "model"):
                    satmode = False
    finally:
        signal.setitimer(signal.ITIMER_REAL, 0)
        signal.signal(signal.SIGALRM, old)
        if comp is not None:
            comp.close()
        if s is not None:
            try:
                s.exit()
            except BaseException:       # noqa
                pass
            try:
                s.solver.wait(timeout=2)
            except BaseException:       # noqa
                try:
                    s.solver.kill()
                except BaseException:   # noqa
                    pass
            rec["events"] = s.__dict__.get("_c17_events", [])
            rec["groups"].append(len(rec["events"]))
            _reprobe(rec, kept, len(rec["ops"]))       # models survive the solver
        else:
            rec["events"] = []
    log = []
    try:
        lines = open(_LOG_PATH).read().split("\n")
    except OSError:
        lines = []
    for k in range(0, len(lines) - 1, 2):
        if lines[k].startswith("> ") and lines[k + 1].startswith("< "):
            log.append([lines[k][2:], lines[k + 1][2:]])
    rec["log"] = log
    return rec


# ------------------------------------------------------------------------------ canonical forms
def canon_cmd(text):
    """SMT-LIB command text -> (token of Drivers/C17.lean, S-expression)"""
    P = pool()
    try:
        c = refsolver.parse(refsolver.tokenize(text))[0][0]
    except Exception:       # noqa
        return "??" + text, None
    try:
        n = c[0]
        if n == "set-option":
            return "so:%s:%s" % (c[1], c[2]), c
        if n == "set-logic":
            return "sl:%s" % c[1], c
        if n == "declare-sort":
            nm = refsolver.unquote(c[1])
            return "ds:%s:%s" % (P.sort_key.get(nm, nm.replace(" ", "~")), c[2]), c
        if n == "declare-fun" and c[2] == []:
            nm = refsolver.unquote(c[1])
            return "df:%s:%s" % (P.key_of.get(nm, nm.replace(" ", "~")), refsolver.render(c[3]).replace(" ", "~")), c
        if n == "assert":
            return "as:%s" % P.by_text.get(refsolver.render(c[1]), "?" + refsolver.render(c[1]).replace(" ", "~")), c
        if n == "push":
            return "pu:%s" % c[1], c
        if n == "pop":
            return "po:%s" % c[1], c
        if n == "reset-assertions":
            return "ra", c
        if n == "check-sat":
            return "cs", c
        if n == "get-value" and len(c[1]) == 1:
            return "gv:%s" % P.term_by_text.get(refsolver.render(c[1][0]),
                                                 "?" + refsolver.render(c[1][0]).replace(" ", "~")), c
        if n == "exit":
            return "ex", c
    except Exception:       # noqa
        pass
    return "??" + refsolver.render(c).replace(" ", "~"), c


OPNAME = {"add": "add_assertion", "push": "push", "pop": "pop", "reset": "reset_assertions", "solve": "solve",
          "getv": "get_value", "model": "get_model", "is_sat": "is_sat", "is_valid": "is_valid",
          "is_unsat": "is_unsat"}


def model_request(rec):
    """request line for Drivers/C17.lean: the executed ops, the verdicts the process gave, then exit()"""
    P = pool()
    toks = []
    for op in rec["ops"]:
        k = op[0]
        if k == "add":
            fid, node = P.sent(op)
            toks.append("A" + P.abstraction(fid, node))
        elif k == "push":
            toks.append("P%d" % op[1])
        elif k == "pop":
            toks.append("O%d" % op[1])
        elif k == "reset":
            toks.append("R")
        elif k == "solve":
            toks.append("S")
        elif k == "getv":
            toks.append("V" + P.abstraction(op[1], P.terms[op[1]]))
        elif k == "model":
            toks.append("M")
        elif k in ("is_sat", "is_valid", "is_unsat"):
            fid, node = P.sent(op)
            toks.append({"is_sat": "I", "is_valid": "L", "is_unsat": "U"}[k] + P.abstraction(fid, node))
    verdicts = [r for c, r in rec["log"] if r in ("sat", "unsat", "unknown")]
    return "%s QF_AUFBVLIRA %s %s X" % ("smtsolver-lenient" if rec.get("lenient") else "smtsolver",
                                        ",".join(verdicts) or "-", " ".join(toks))


def real_answer(rec):
    """the real run in the shape of the driver's answer: (groups of command tokens, per-op entries)"""
    sends = []          # (token, reply or None)
    log = rec["log"]
    k = 0
    groups = []
    bounds = rec["groups"]
    ev = rec["events"]
    for gi in range(len(bounds) - 1):
        g = []
        for e in ev[bounds[gi]:bounds[gi + 1]]:
            if e[0] == "send":
                tok, _ = canon_cmd(e[1])
                reply = log[k][1] if k < len(log) else None
                k += 1
                if reply is not None and reply.startswith("(error"):
                    tok = "!" + tok
                g.append(tok)
        groups.append(g)
    entries = []
    for op, out, st in zip(rec["ops"], rec["outs"], rec["states"]):
        if out.startswith("exc:"):
            name = out[4:]
            if name == "UnknownSolverAnswerError":
                out = "err:solver-error"
            elif name == "SolverReturnedUnknownResultError":
                out = "err:unknown-result"
            elif name == "IndexError":
                out = "err:index-error"
            elif op[0] in ("getv", "model") and name in ("PysmtSyntaxError", "UndefinedSymbolError", "PysmtTypeError",
                                                         "PysmtValueError", "AssertionError", "StopIteration"):
                out = "err:bad-value"
        entries.append([out, st[0], st[1], st[2]])
    return groups, entries


def parse_model_answer(ans):
    """driver answer -> (groups, entries, dead, queue) or None"""
    if not ans.startswith("ok "):
        return None
    parts = ans[3:].split(" | ")
    if len(parts) != 3:
        return None
    groups = []
    for t in parts[0].split(" "):
        if t == "#":
            groups.append([])
        elif t:
            groups[-1].append(t)
    entries = []
    for t in parts[1].split(" "):
        if not t:
            continue
        f = t.split("@")
        lv = lambda s: [] if s == "-" else [[n for n in l.split(",") if n] for l in s.split(";")]
        entries.append([f[0], lv(f[1]), lv(f[2]), f[3] == "T", int(f[4])])
    return groups, entries, parts[2]


def compare_with_model(rec, ans):
    """K: list of differences between the real run and the model's answer"""
    m = parse_model_answer(ans)
    if m is None:
        return ["model answered %r" % ans[:200]]
    mgroups, mentries, tail = m
    rgroups, rentries = rec["real_answer"] if "real_answer" in rec else real_answer(rec)
    diffs = []
    # the last real group is exit(); the model got an explicit X
    kinds = ["init"] + [op[0] for op in rec["ops"]] + ["exit"]
    if len(mgroups) != len(rgroups):
        diffs.append("number of call groups: model %d real %d" % (len(mgroups), len(rgroups)))
    # F37 (known): a value the parser cannot read (custom sort, array over a custom sort) makes get_value / get_model
    # raise in the middle of their queries, while every value is readable for the abstract model.  For such a call
    # only "the queries sent are among the model's" and the bookkeeping are compared.
    unread = set()
    for li in range(min(len(rentries), len(mentries))):
        if rec["ops"][li][0] in ("getv", "model") and rentries[li][0].startswith(("err:", "exc:")) \
                and not mentries[li][0].startswith("err:"):
            unread.add(li)
    for gi, (mg, rg) in enumerate(zip(mgroups, rgroups)):
        kind = kinds[gi] if gi < len(kinds) else "?"
        if kind == "model":
            mg, rg = sorted(mg), sorted(rg)
        if gi - 1 in unread:
            if [t for t in rg if t not in mg]:
                diffs.append("stream of call %d (%s): real %s not among model %s" % (gi - 1, kind, " ".join(rg), " ".join(mg)))
                break
            continue
        if mg != rg:
            diffs.append("stream of call %d (%s): model %s real %s" % (gi - 1, kind, " ".join(mg), " ".join(rg)))
            break
    for oi, (me, re_) in enumerate(zip(mentries, rentries)):
        if me[0] != re_[0] and oi not in unread:
            diffs.append("result of call %d (%s): model %s real %s" % (oi, rec["ops"][oi][0], me[0], re_[0]))
            break
        if me[1] != re_[1] or me[2] != re_[2] or me[3] != re_[3]:
            diffs.append("bookkeeping after call %d (%s): model vars=%s sorts=%s pending=%s real vars=%s sorts=%s pending=%s"
                         % (oi, rec["ops"][oi][0], me[1], me[2], me[3], re_[1], re_[2], re_[3]))
            break
    return diffs


# ------------------------------------------------------------------------------ S: independent oracles
def classify_error(reply):
    for key, name in (("already declared", "redeclared"), ("unknown symbol", "unknown-symbol"),
                      ("unknown sort", "unknown-sort"), ("pop ", "pop-too-deep"), ("sat mode", "not-sat-mode"),
                      ("bad declare-sort", "bad-declare-sort"), ("is not a symbol", "bad-declare-sort"),
                      ("syntax error", "syntax"), ("set-logic", "logic"), ("ill-sorted", "ill-sorted")):
        if key in reply:
            return name
    return "other"


def analyse(rec):
    """S oracles on one real run -> list of (sig, what)"""
    P = pool()
    out = []
    if rec.get("lenient"):
        return out          # user-illegal pops on a test double: correspondence only
    if rec["init_exc"]:
        out.append(({"oracle": "exception", "call": "__init__", "exc": rec["init_exc"].split(":")[0]},
                    "constructor raised " + rec["init_exc"]))
        return out
    ev, log, bounds = rec["events"], rec["log"], rec["groups"]
    kinds = ["__init__"] + [OPNAME[op[0]] for op in rec["ops"]] + ["exit"]
    for kind_, text in rec.get("env_problems", [])[:4]:
        out.append(({"oracle": "environment", "defect": kind_},
                    "solver in environment %s%s: %s" % (rec.get("env"), "" if rec.get("companion") is None else
                                                       " with a companion solver in environment %s" % rec["companion"], text)))
    for ch in rec.get("model_changes", []):
        after = ch["after_call"]
        later = OPNAME[rec["ops"][after][0]] if after < len(rec["ops"]) else "exit"
        diff = [k for k in ch["then"] if ch["now"].get(k) != ch["then"][k]] if "exc" not in ch["now"] else ["exc"]
        out.append(({"oracle": "model", "defect": "earlier-model-changed", "later": later},
                    "the model returned by call %d (get_model) said %s; after call %d (%s) the same object says %s "
                    "(differs in %s)" % (ch["model_call"], ch["then"]["items"], after, later,
                                         ch["now"].get("items", ch["now"]), ",".join(diff))))

    def call_of(event_index):
        for gi in range(len(bounds) - 1):
            if bounds[gi] <= event_index < bounds[gi + 1]:
                return gi
        return len(bounds) - 2

    # user-level view of the assertion stack (independent of the wrapper's bookkeeping)
    stack = [[]]
    pending = None
    history = ""
    flagged = set()     # call indices already explained by a strict / sync report

    def sig_(d):
        if history:
            d = dict(d, history=history)
        return d

    # ---- sync: sends and receives alternate; i-th read reply is the i-th produced reply; sends = log commands
    nsend = nrecv = 0
    sync_bad = None
    for idx, e in enumerate(ev):
        if e[0] == "send":
            if nsend != nrecv:
                sync_bad = (idx, "command written while the reply to the previous command is unread")
                break
            if nsend < len(log):
                sent_tok = canon_cmd(e[1])[0]
                got_tok = canon_cmd(log[nsend][0])[0]
                if sent_tok != got_tok:
                    sync_bad = (idx, "process received %s, wrapper wrote %s" % (log[nsend][0], e[1]))
                    break
            nsend += 1
        else:
            if nrecv != nsend - 1:
                sync_bad = (idx, "reply read although no command is outstanding")
                break
            produced = log[nrecv][1] if nrecv < len(log) else None
            if e[0] == "recv":
                if produced is None or e[1] != produced:
                    sync_bad = (idx, "reply read %r, reply produced for this command %r" % (e[1], produced))
                    break
            elif e[0] == "recvv":
                if produced is None or produced.startswith("(error") or not produced.startswith("(("):
                    sync_bad = (idx, "assignment read, reply produced for this command %r" % (produced,))
                    break
            nrecv += 1
    if sync_bad is None:
        # every command except exit must have had its reply read before the next API call
        for gi in range(len(bounds) - 2):
            seg = ev[bounds[gi]:bounds[gi + 1]]
            if sum(1 for e in seg if e[0] == "send") != sum(1 for e in seg if e[0] != "send") \
                    and not (rec["outs"] and gi == len(rec["ops"]) and rec["outs"][-1].startswith("exc:")):
                sync_bad = (bounds[gi], "a reply is still unread when the call returns")
                break
    if sync_bad is not None:
        gi = call_of(sync_bad[0])
        prev = kinds[gi - 1] if gi >= 1 else "-"
        flagged.add(gi)
        out.append((sig_({"oracle": "sync", "call": kinds[gi], "prev": prev}),
                    "desynchronised: %s (call %d = %s)" % (sync_bad[1], gi - 1, kinds[gi])))

    # ---- strict: commands the reference solver rejected (the first one of each call)
    send_call = []
    for idx, e in enumerate(ev):
        if e[0] == "send":
            send_call.append(call_of(idx))
    err_of_call = {}        # call group -> index of the first command of that call the solver rejected
    for k, (c, r) in enumerate(log):
        if r.startswith("(error") and k < len(send_call):
            err_of_call.setdefault(send_call[k], k)

    # walk through the calls to build the user-level view, checking verdicts / models on the way
    for oi, (op, res) in enumerate(zip(rec["ops"], rec["outs"])):
        kind = op[0]
        gi = oi + 1
        live_before = [f for lvl in stack for f in lvl]
        if gi in err_of_call:
            first_err = err_of_call[gi]
            c, r = log[first_err]
            shape = ""
            if kind == "getv":
                live_syms = set()
                for fid in live_before + ([pending] if pending else []):
                    node = P.formulas[fid.lstrip("N")][0]
                    node = (P.not_(node) if fid.startswith("N") else node).simplify()
                    live_syms.update(P.names_of(node))
                if any(n not in live_syms for n in P.names_of(P.terms[op[1]])):
                    shape = "symbol-not-in-live-assertions"
            flagged.add(gi)
            out.append((sig_({"oracle": "strict", "call": OPNAME[kind], "error": classify_error(r), "shape": shape}),
                        "strict solver rejected command #%d of the stream, %s, sent by call %d (%s): %s"
                        % (first_err, c, oi, OPNAME[kind], r)))
        # clear_pending_pop semantics at user level: the temporary formula of is_sat is gone for everything
        # but get_value/get_model
        if kind not in ("getv", "model"):
            pending = None
        live = [f for lvl in stack for f in lvl]
        if kind == "add":
            stack[-1].append(op[1])
        elif kind == "push":
            stack.extend([] for _ in range(op[1]))
        elif kind == "pop":
            del stack[len(stack) - op[1]:]
        elif kind == "reset":
            stack = [[]]
        if kind in VERDICT_OPS:
            asked = list(live)
            if kind in ("is_sat", "is_unsat"):
                asked.append(op[1])
            elif kind == "is_valid":
                asked.append("N" + op[1])
            unknown = any("UNKNOWN_k" in P.formulas[f.lstrip("N")][2] for f in asked)
            if res in ("true", "false"):
                if kind != "solve":
                    pending = asked[-1]
                sat = models_of(asked)
                expect = sat if kind in ("solve", "is_sat") else (not sat)
                # what the process itself answered to this call's check-sat
                told = [log[k][1] for k in range(len(log)) if k < len(send_call) and send_call[k] == gi
                        and log[k][0] == "(check-sat)"]
                if unknown:
                    if gi not in flagged:
                        out.append((sig_({"oracle": "verdict", "call": OPNAME[kind], "expected": "unknown", "got": res}),
                                    "call %d (%s) returned %s although the solver cannot decide" % (oi, OPNAME[kind], res)))
                elif (res == "true") != expect and gi not in flagged:
                    out.append((sig_({"oracle": "verdict", "call": OPNAME[kind], "expected": str(expect).lower(), "got": res}),
                                "call %d (%s) returned %s; brute-force truth over %s is %s; solver said %s"
                                % (oi, OPNAME[kind], res, asked, str(expect).lower(), told)))
                elif told and gi not in flagged:
                    relayed = (told[-1] == "sat") if kind in ("solve", "is_sat") else (told[-1] != "sat")
                    if relayed != (res == "true"):
                        out.append((sig_({"oracle": "verdict-relay", "call": OPNAME[kind]}),
                                    "call %d (%s) returned %s but the solver said %s" % (oi, OPNAME[kind], res, told[-1])))
            elif res == "exc:SolverReturnedUnknownResultError" and unknown:
                continue        # the documented outcome of an undecided check
        if kind in ("getv", "model") and not res.startswith("exc:") and gi not in flagged:
            # values the process reported during this call
            reported = {}
            for k in range(len(log)):
                if k < len(send_call) and send_call[k] == gi and log[k][1].startswith("(("):
                    try:
                        pr = refsolver.parse(refsolver.tokenize(log[k][1]))[0][0][0]
                        tt = refsolver.render(pr[0])
                        reported[P.term_by_text.get(tt, tt)] = norm_value(refsolver.render(pr[1]))
                    except Exception:   # noqa
                        pass
            lv = live + ([pending] if pending else [])
            if kind == "getv":
                tid = op[1]
                term_text = P.text(P.terms[tid])
                term_text = P.term_by_text.get(term_text, term_text)
                custom = any(P.symbols[n]["custom"] for n in P.names_of(P.terms[tid]))
                if reported.get(term_text) != rec["values"][oi]:
                    out.append((sig_({"oracle": "value", "call": "get_value",
                                      "defect": "custom-sort-value" if custom else "wrong-value"}),
                                "get_value(%s) returned %s, the solver reported %s"
                                % (tid, rec["values"][oi], reported.get(term_text))))
            else:
                got = dict((k, v) for k, v in rec["values"][oi])
                live_syms = []
                for fid in lv:
                    node = P.formulas[fid.lstrip("N")][0]
                    node = (P.not_(node) if fid.startswith("N") else node).simplify()
                    for n in P.names_of(node):
                        if n not in live_syms:
                            live_syms.append(n)
                missing = [n for n in live_syms if n not in got]
                if missing:
                    out.append((sig_({"oracle": "model", "defect": "missing-symbol"}),
                                "get_model (call %d) has no value for %s, symbols of the live assertions %s"
                                % (oi, missing, lv)))
                bad_custom = [n for n in got if P.symbols[n]["custom"] and reported.get(n) != got[n]]
                bad = [n for n in got if not P.symbols[n]["custom"] and reported.get(n) != got[n]]
                if bad:
                    out.append((sig_({"oracle": "model", "defect": "wrong-value"}),
                                "get_model (call %d): %s differ from what the solver reported: model %s solver %s"
                                % (oi, bad, got, reported)))
                if bad_custom:
                    out.append((sig_({"oracle": "model", "defect": "custom-sort-value"}),
                                "get_model (call %d): values of custom-sort symbols %s are not what the solver reported: "
                                "model %s solver %s" % (oi, bad_custom, got, reported)))
                if not missing and not bad:
                    env = {}
                    for n, d in P.symbols.items():
                        env[n] = d["dom"][0]
                    usable = True
                    for n, txt in got.items():
                        if P.symbols[n]["custom"]:
                            t = reported.get(n, "")
                            try:
                                env[n] = int(t.rsplit("!", 1)[1]) if "!" in t else 0
                            except ValueError:      # an array over a custom sort
                                usable = False
                        elif txt in ("true", "false"):
                            env[n] = txt == "true"
                        elif txt.startswith("#b"):
                            env[n] = int(txt[2:], 2)
                        elif "/" in txt and not txt.startswith("?"):
                            env[n] = Fraction(txt)
                        else:
                            try:
                                env[n] = int(txt.replace("(- ", "-").replace(")", ""))
                            except ValueError:
                                usable = False
                    if usable:
                        for fid in lv:
                            val = bool(P.formulas[fid.lstrip("N")][1](env))
                            if val == fid.startswith("N"):
                                out.append((sig_({"oracle": "model", "defect": "falsifies-assertion"}),
                                            "get_model (call %d) = %s falsifies the live assertion %s" % (oi, got, fid)))
                                break
        if res.startswith("exc:") and gi not in flagged:
            custom = False
            if kind == "getv":
                custom = any(P.symbols[n]["custom"] for n in P.names_of(P.terms[op[1]]))
            elif kind == "model":
                custom = any(P.symbols[n]["custom"] for lvl in rec["states"][oi][0] for n in lvl if n in P.symbols)
            d = {"oracle": "exception", "call": OPNAME[kind], "exc": res[4:]}
            if custom:
                d["defect"] = "custom-sort-value"
            out.append((sig_(d), "call %d (%s) raised %s: %s" % (oi, OPNAME[kind], res[4:], rec.get("exc_text", ""))))
    return out


# ------------------------------------------------------------------------------ second tie: refsolver vs StrictSolver
def random_stream(rng):
    """a random command stream (legal and illegal commands mixed) as (smtlib text, driver token) pairs"""
    P = pool()
    names = ["a", "b", "v", "x", "p", "r"]
    sorts = [("U", 0), ("Pair", 2)]
    cmds = []
    n = rng.randint(3, 18)
    if rng.random() < 0.9:
        cmds.append(("(set-option :produce-models true)", "so::produce-models:true"))
    if rng.random() < 0.97:
        cmds.append(("(set-logic QF_UF)", "sl:QF_UF"))

    def symtok(nm):
        d = P.symbols[nm]
        return "%s:%s:%s" % (nm, d["sort"].replace(" ", "~"), "+".join(d["uses"]))

    def expr(ns):
        ns = list(ns)
        used = sorted(set(u for nm in ns for u in P.symbols[nm]["uses"]))
        if len(ns) == 1:
            txt = "(= %s %s)" % (ns[0], ns[0])
        else:
            grp = {}
            for nm in ns:
                grp.setdefault(P.symbols[nm]["sort"], []).append(nm)
            txt = "(and %s true)" % " ".join("(= %s)" % " ".join(g + [g[0]]) for g in grp.values())
        return txt, "e/%s/%s" % (",".join(symtok(nm) for nm in ns),
                                 ",".join("%s:%d" % (u, P.sort_arity[u]) for u in used))

    # shadow of the scope, used to aim at legal commands most of the time
    levels = [[set(), set()]]       # [symbols, sorts] per level

    def in_scope(i, x):
        return any(x in l[i] for l in levels)

    for _ in range(n):
        k = rng.random()
        aim = rng.random() < 0.94
        if k < 0.25:
            cand = [nm for nm in names if not in_scope(0, nm) and all(in_scope(1, u) for u in P.symbols[nm]["uses"])]
            if aim and not cand:
                continue
            nm = rng.choice(cand) if aim else rng.choice(names)
            cmds.append(("(declare-fun %s () %s)" % (nm, P.symbols[nm]["sort"]), "df:" + symtok(nm)))
            if not in_scope(0, nm) and all(in_scope(1, u) for u in P.symbols[nm]["uses"]):
                levels[-1][0].add(nm)
        elif k < 0.37:
            cand = [x for x in sorts if not in_scope(1, x[0])]
            if aim and not cand:
                continue
            s, ar = rng.choice(cand) if aim else rng.choice(sorts)
            cmds.append(("(declare-sort %s %d)" % (s, ar), "ds:%s:%d" % (s, ar)))
            if not in_scope(1, s):
                levels[-1][1].add(s)
        elif k < 0.57:
            cand = [nm for nm in names if in_scope(0, nm)]
            if aim and not cand:
                continue
            if aim:
                ns = rng.sample(cand, rng.randint(1, min(3, len(cand))))
            else:
                ns = rng.sample(names, rng.randint(1, 3))
            t, tok = expr(ns)
            cmds.append(("(assert %s)" % t, "as:" + tok))
        elif k < 0.67:
            m = rng.randint(0, 2)
            cmds.append(("(push %d)" % m, "pu:%d" % m))
            levels.extend([set(), set()] for _ in range(m))
        elif k < 0.77:
            m = rng.randint(0, len(levels) - 1) if aim else rng.randint(0, 3)
            cmds.append(("(pop %d)" % m, "po:%d" % m))
            if m < len(levels) and m:
                del levels[-m:]
        elif k < 0.82:
            cmds.append(("(reset-assertions)", "ra"))
            levels = [[set(), set()]]
        elif k < 0.92:
            cmds.append(("(check-sat)", "cs"))
        elif k < 0.99:
            cand = [nm for nm in names if in_scope(0, nm)]
            if aim and not cand:
                continue
            ns = [rng.choice(cand)] if aim else rng.sample(names, 1)
            if aim and cmds and cmds[-1][1] != "cs":
                cmds.append(("(check-sat)", "cs"))
            t, tok = expr(ns)
            cmds.append(("(get-value (%s))" % t, "gv:" + tok))
        else:
            cmds.append(("(exit)", "ex"))
    return cmds


def static_oracles(ctx):
    """S on helpers the wrapper relies on, without a solver process:
    (a) `get_types(f, custom_only=True)` names every custom sort the signatures of the symbols of `f` mention (the
        hand-written table of the pool is the reference) -- else a `declare-sort` is missing from the stream;
    (b) `EagerModel(assignment=d)` does not change when `d` is changed afterwards."""
    P = pool()
    cases = [(fid, f, sorted(set(u for n in names for u in P.symbols[n]["uses"])))
             for fid, (f, _, names) in P.formulas.items()]
    cases += [(fid, f, sorted(exp)) for fid, (f, exp) in P.static_only.items()]
    for fid, f, expected in cases:
        for label, node in ((fid, f), (fid + ".simplify()", f.simplify()), ("Not(%s).simplify()" % fid, P.not_(f).simplify())):
            ctx.case(None)
            got = sorted(set(P.sort_key.get(t.basename, t.basename) for t in P.env.typeso.get_types(node, custom_only=True)))
            if label == fid and [u for u in expected if u not in got]:
                ctx.report_s({"oracle": "types", "defect": "get_types-misses-sort"},
                             "get_types(%s, custom_only=True) = %s lacks %s, mentioned by the sorts of its symbols: "
                             "add_assertion would not declare it" % (label, got, [u for u in expected if u not in got]),
                             {"kind": "static", "formula": fid})
            elif [u for u in got if u not in expected]:
                ctx.report_s({"oracle": "types", "defect": "get_types-invents-sort"},
                             "get_types(%s, custom_only=True) = %s, the symbols only mention %s" % (label, got, expected),
                             {"kind": "static", "formula": fid})
    from pysmt.solvers.eager import EagerModel
    mgr = P.env.formula_manager
    a, b, v = (P.symbols[n]["node"] for n in ("a", "b", "v"))
    d = {a: mgr.Bool(True), v: mgr.BV(2, 2)}
    mdl = EagerModel(assignment=d, environment=P.env)
    then = probe_model(mdl, ["a", "b", "v"])
    d[a] = mgr.Bool(False)
    d[b] = mgr.Bool(True)
    del d[v]
    now = probe_model(mdl, ["a", "b", "v"])
    ctx.case(None)
    if now != then:
        ctx.report_s({"oracle": "model", "defect": "eager-model-aliases-assignment"},
                     "EagerModel(assignment=d) said %s; after d was modified it says %s" % (then, now),
                     {"kind": "static", "formula": "EagerModel"})


def strict_tie(ctx, count):
    """D: refsolver.Strict and lean StrictSolver accept / reject the same streams at the same command"""
    reqs, expect, streams = [], [], []
    for _ in range(count):
        cmds = random_stream(ctx.rng)
        st = refsolver.Strict(INT_RANGE, USIZE)
        toks, first = [], None
        for k, (text, tok) in enumerate(cmds):
            if st.exited:
                cmds = cmds[:k]
                break
            r = st.command(refsolver.parse(refsolver.tokenize(text))[0][0])
            if tok == "cs":
                tok = "cs=" + (r if r in ("sat", "unsat", "unknown") else "unknown")
            toks.append(tok)
            if r.startswith("(error") and first is None:
                first = k
                cmds = cmds[:k + 1]
                break
        reqs.append("strict " + " ".join(toks))
        expect.append("accept" if first is None else "reject %d" % first)
        streams.append([c for c, _ in cmds])
    try:
        answers = ctx.lean_run("C17", reqs)
    except common.LeanError as e:
        ctx.report_l("driver C17 does not run", str(e))
        return
    for req, exp, ans, stream in zip(reqs, expect, answers, streams):
        ctx.count("strict_tie_" + exp.split(" ")[0])
        if ans != exp:
            ctx.report_k("refsolver.py and Spec/StrictSolver.lean disagree: refsolver %s, Lean %s" % (exp, ans),
                         {"kind": "strict-tie", "stream": stream, "request": req})
    ctx.extra["strict_tie_streams"] = count


# ------------------------------------------------------------------------------ generation
ADD_FULL = ["Fa", "Fnb", "Fu", "Fvi"]


def alphabet(full):
    if full:
        return ([["add", f] for f in ADD_FULL] + [["push", 1], ["push", 2], ["pop", 1], ["pop", 2], ["solve"],
                ["getv", "a"], ["model"], ["reset"], ["is_sat", "Fab"], ["is_valid", "Fa"]])
    return [["add", "Fa"], ["add", "Far"], ["push", 2], ["pop", 1], ["solve"], ["model"], ["reset"], ["is_sat", "Fnb"]]


def enumerate_sequences(alpha, length):
    """all statically user-legal sequences of exactly `length` ops (pop within the stack; value queries only after a
    verdict or another value query)"""
    out = []

    def rec(seq, depth, after_verdict):
        if len(seq) == length:
            out.append(list(seq))
            return
        for op in alpha:
            k = op[0]
            if k == "pop" and op[1] > depth:
                continue
            if k in ("getv", "model") and not after_verdict:
                continue
            d = depth + (op[1] if k == "push" else -op[1] if k == "pop" else 0)
            if k == "reset":
                d = 0
            seq.append(op)
            rec(seq, d, k in VERDICT_OPS or k in ("getv", "model"))
            seq.pop()
    rec([], 0, False)
    return out


def random_sequence(rng, length):
    P = pool()
    fids = [f for f in P.formulas if f != "Fk"]
    seq, depth, after = [], 0, False
    while len(seq) < length:
        k = rng.random()
        if k < 0.30:
            op = ["add", rng.choice(fids if rng.random() < 0.97 else ["Fk"])]
        elif k < 0.42:
            op = ["push", rng.choice([1, 1, 2, 3, 0])]
        elif k < 0.54:
            if rng.random() < 0.1:
                op = ["pop", 0]
            elif depth == 0:
                continue
            else:
                op = ["pop", rng.randint(1, min(depth, 3))]
        elif k < 0.64:
            op = ["solve"]
        elif k < 0.72:
            if not after:
                continue
            op = ["getv", rng.choice(["a", "b", "v", "i", "Tv", "Ti", "x"] if rng.random() < 0.97 else ["c"])]
        elif k < 0.80:
            if not after:
                continue
            op = ["model"]
        elif k < 0.84:
            op = ["reset"]
        else:
            op = [rng.choice(["is_sat", "is_sat", "is_valid", "is_unsat"]),
                  rng.choice(fids if rng.random() < 0.97 else ["Fk"])]
        seq.append(op)
        kind = op[0]
        if kind == "push":
            depth += op[1]
        elif kind == "pop":
            depth -= op[1]
        elif kind == "reset":
            depth = 0
        after = kind in VERDICT_OPS or kind in ("getv", "model")
    return seq


SCENARIOS = [
    # Boolean constants as arguments of the shortcuts, on an inconsistent and on a consistent stack
    [["add", "Fa"], ["add", "Fna"], ["is_valid", "Ffalse"], ["is_sat", "Ftrue"], ["is_unsat", "Ffalse"], ["is_valid", "Ftrue"],
     ["is_unsat", "Ftrue"], ["solve"], ["reset"], ["is_valid", "Ffalse"], ["is_sat", "Ftrue"], ["model"]],
    [["add", "Fa"], ["is_valid", "Ffalse"], ["is_valid", "Ftrue"], ["is_sat", "Ffalse"], ["is_unsat", "Ffalse"], ["solve"],
     ["model"], ["push", 1], ["add", "Ffalse"], ["solve"], ["is_valid", "Ffalse"], ["is_valid", "Fna"], ["pop", 1],
     ["add", "Ftrue"], ["solve"], ["model"]],
    # exact rationals: the values reported (`(/ 1 3)`, `(- (/ 22 7))`, a big numerator) come back exactly
    [["add", "Fq"], ["solve"], ["getv", "q1"], ["model"], ["push", 1], ["add", "Fq2"], ["solve"], ["model"], ["getv", "Tq"],
     ["pop", 1], ["add", "Fq3"], ["solve"], ["model"], ["getv", "q2"]],
    [["add", "Fq"], ["solve"], ["getv", "q1"], ["model"], ["push", 1], ["add", "Fq2"], ["solve"], ["model"], ["getv", "Tq"],
     ["pop", 1], ["add", "Fq3"], ["solve"], ["model"], ["getv", "q2"]],
    # names that need quoting, for sorts and for symbols, in declare-sort / declare-fun / assert / get-value
    [["add", "Fw"], ["solve"], ["push", 1], ["add", "Fw2"], ["solve"], ["pop", 1], ["is_sat", "Fw2"], ["reset"],
     ["add", "Fw2"], ["add", "Fw"], ["solve"], ["getv", "wa"]],
    # user symbols named like the binders the DAG printer generates
    [["add", "Fd"], ["solve"], ["model"], ["getv", ".def_0"], ["push", 1], ["add", "Fd2"], ["solve"], ["model"],
     ["is_valid", "Fd"], ["pop", 1], ["is_unsat", "Fd2"]],
    # models returned earlier keep their values while the solver goes on (push / assert / solve / get_model / pop)
    [["add", "Fab"], ["solve"], ["model"], ["push", 1], ["add", "Fa"], ["add", "Fvi"], ["solve"], ["model"], ["pop", 1],
     ["add", "Fiv"], ["solve"], ["model"], ["reset"], ["add", "Fna"], ["solve"], ["model"]],
    [["is_sat", "Fab"], ["model"], ["is_sat", "Fa"], ["model"], ["is_valid", "Fnb"], ["model"], ["solve"], ["model"]],
    # a custom sort that occurs only inside array types
    [["add", "Far"], ["solve"], ["push", 1], ["add", "Fjj"], ["solve"], ["pop", 1], ["solve"]],
    [["push", 2], ["add", "Fa2"], ["solve"], ["pop", 1], ["add", "Far"], ["is_sat", "Fjj"], ["reset"], ["add", "Far"],
     ["solve"]],
    # the witnesses of F23 / F34 / F35 / F36 / F37 / F38 and friends
    [["add", "Fa"], ["push", 1], ["add", "Fab"], ["solve"], ["model"]],
    [["push", 2], ["add", "Fa"], ["pop", 1], ["add", "Fab"], ["pop", 1], ["add", "Fa"], ["solve"]],
    [["add", "Fa"], ["reset"], ["add", "Fab"], ["solve"], ["model"]],
    [["push", 2], ["reset"], ["add", "Fu"], ["push", 1], ["add", "Fnu"], ["solve"], ["pop", 1], ["solve"]],
    [["add", "Fp"], ["solve"], ["push", 1], ["add", "Fu"], ["solve"], ["pop", 1], ["add", "Fnu"], ["solve"]],
    [["add", "Fvi"], ["solve"], ["getv", "v"], ["getv", "Ti"], ["solve"], ["model"], ["add", "Fiv"], ["solve"]],
    [["add", "Fa"], ["solve"], ["getv", "c"]],
    [["add", "Ft"], ["solve"], ["getv", "b"]],
    [["add", "Fu"], ["solve"], ["getv", "x"]],
    [["add", "Fu"], ["solve"], ["model"]],
    [["add", "Fk"], ["solve"]],
    [["add", "Fa"], ["is_sat", "Fk"], ["solve"], ["is_sat", "Fna"]],
    [["is_sat", "Fab"], ["model"], ["is_valid", "Fab"], ["is_unsat", "Fna"], ["getv", "a"], ["solve"], ["model"]],
    [["add", "Fa"], ["is_sat", "Fnb"], ["is_valid", "Fab"], ["getv", "a"], ["push", 0], ["pop", 0], ["solve"], ["model"]],
    # push(0) / pop(0) are legal and change nothing
    [["add", "Fa"], ["push", 0], ["pop", 0], ["add", "Fab"], ["solve"], ["model"]],
    [["push", 1], ["add", "Fu"], ["pop", 0], ["add", "Fab"], ["is_sat", "Fa"], ["pop", 0], ["add", "Fab"], ["pop", 1],
     ["push", 0], ["add", "Fu"], ["solve"]],
    [["push", 1], ["add", "Fu"], ["is_sat", "Fp"], ["model"], ["pop", 1], ["is_sat", "Fnu"], ["push", 2], ["add", "Fp"],
     ["pop", 2], ["solve"]],
]


# K only: pops beyond the user's stack on a solver that tolerates them (`list.pop()` on the emptied declaration stack,
# `declared_vars[-1]` after the declaration was sent) -- the unconditional theorems quantify over every solver process
OVERPOP = [
    [["add", "Fa"], ["pop", 1], ["add", "Fab"], ["solve"]],
    [["push", 1], ["add", "Fa"], ["pop", 2], ["add", "Fab"], ["push", 1], ["add", "Fa"], ["solve"], ["model"]],
    [["pop", 3], ["add", "Fu"], ["push", 2], ["add", "Fu"], ["pop", 5], ["solve"], ["reset"], ["add", "Fu"], ["solve"]],
    [["push", 2], ["pop", 4], ["is_sat", "Fa"], ["model"], ["push", 1], ["is_sat", "Fab"]],
    [["push", 2], ["add", "Fvi"], ["pop", 3], ["push", 1], ["add", "Fvi"], ["pop", 1], ["pop", 1], ["add", "Fa"]],
    [["is_sat", "Fa"], ["pop", 1], ["pop", 1], ["add", "Fab"], ["reset"], ["add", "Fab"], ["solve"], ["model"]],
]


def random_overpop(rng):
    seq = random_sequence(rng, rng.randint(4, 9))
    for _ in range(rng.randint(1, 2)):
        seq.insert(rng.randint(0, len(seq)), ["pop", rng.randint(1, 4)])
    return seq


def nontrivial_key(rec):
    toks = [t for g in real_answer(rec)[0] for t in g]
    if any(t.startswith("df:") or t.startswith("ds:") for t in toks) and \
            any(t.startswith("po:") or t == "ra" or t.startswith("pu:") for t in toks):
        return json.dumps(rec["ops"])
    return None


# ------------------------------------------------------------------------------ driving
def as_case(case):
    if isinstance(case, dict):
        return case
    return {"ops": case}


def case_of(rec):
    """the self-contained description of a case (what a replay needs)"""
    return {"ops": rec["ops"], "lenient": bool(rec.get("lenient")), "layout": rec.get("layout", 0),
            "env": rec.get("env", 0), "companion": rec.get("companion"), "factory": bool(rec.get("factory"))}


def _work_factory(case):
    """S only: the same functionality reached through the factory shortcuts `Factory.is_sat / is_valid / is_unsat /
    get_model(formula, solver_name=<the reference solver>)` (factory.py: they build a non-incremental solver, make the
    calls, exit).  Verdict vs brute-force truth, model nodes of the right environment, model satisfies the formula, no
    command rejected by the strict solver."""
    global _CUR
    from pysmt.logics import QF_AUFBVLIRA
    _CUR = case.get("env", 0) or 0
    layout = case.get("layout", 0) or 0
    kind, fid = case["ops"][0]
    rec = {"ops": [[kind, fid]], "outs": [], "cut": None, "log": [], "factory": True, "env": _CUR, "layout": layout,
           "states": [], "values": [], "companion": case.get("companion")}
    viol = []
    comp = None
    old = signal.signal(signal.SIGALRM, _alarm)
    signal.setitimer(signal.ITIMER_REAL, CASE_TIMEOUT)
    try:
        P = pool()
        if case.get("companion") is not None and case["companion"] != _CUR:
            acc0 = []
            comp = Companion(case["companion"], layout, acc0)
            comp.session("before the shortcut", "Fab")
            for k_, t_ in acc0[:2]:
                viol.append(({"oracle": "environment", "defect": k_, "call": "companion"}, t_))
        name, logp = solver_name(False, layout)
        open(logp, "w").close()
        f, pred, names = P.formulas[fid]
        fac = P.env.factory
        unknown = "UNKNOWN_k" in names
        try:
            if kind == "model":
                mdl = fac.get_model(f, solver_name=name, logic=QF_AUFBVLIRA)
                out = "none" if mdl is None else "model:" + ",".join(sorted(_key(k) for k, _ in mdl))
            else:
                r = {"is_sat": fac.is_sat, "is_valid": fac.is_valid, "is_unsat": fac.is_unsat}[kind](
                    f, solver_name=name, logic=QF_AUFBVLIRA)
                out = "true" if r else "false"
        except CaseTimeout:
            out = "exc:CaseTimeout"
            if _children_busy():
                rec["ref_slow"] = True
        except Exception as e:      # noqa
            out = "exc:" + type(e).__name__ + ": " + str(e)[:100]
        rec["outs"].append(out)
        try:
            lines = open(logp).read().split("\n")
        except OSError:
            lines = []
        for k in range(0, len(lines) - 1, 2):
            if lines[k].startswith("> ") and lines[k + 1].startswith("< "):
                rec["log"].append([lines[k][2:], lines[k + 1][2:]])
        call = "Factory." + ("get_model" if kind == "model" else kind)
        for c, r in rec["log"]:
            if r.startswith("(error"):
                viol.append(({"oracle": "strict", "call": call, "error": classify_error(r), "shape": ""},
                             "%s(%s): the strict solver rejected %s: %s" % (call, fid, c, r)))
                break
        sat = models_of([fid]) if kind in ("is_sat", "is_unsat", "model") else models_of(["N" + fid])
        if out.startswith("exc:"):
            custom = any(P.symbols[n]["custom"] for n in names)
            if not (unknown and "SolverReturnedUnknownResultError" in out) and not viol:
                d = {"oracle": "exception", "call": call, "exc": out[4:].split(":")[0]}
                if custom and kind == "model":
                    d["defect"] = "custom-sort-value"
                viol.append((d, "%s(%s) raised %s" % (call, fid, out[4:])))
        elif unknown:
            viol.append(({"oracle": "verdict", "call": call, "expected": "unknown", "got": out},
                         "%s(%s) returned %s although the solver cannot decide" % (call, fid, out)))
        elif kind == "model":
            if (mdl is not None) != sat:
                viol.append(({"oracle": "verdict", "call": call, "expected": str(sat).lower(), "got": out},
                             "%s(%s) returned %s, brute-force satisfiability is %s" % (call, fid, out, sat)))
            elif mdl is not None and not any(P.symbols[n]["custom"] for n in names):
                acc = []
                model_env_check(P, call, mdl, acc)
                got = dict((_key(k), v.constant_value()) for k, v in mdl if v.is_constant())
                if not all(n in got for n in P.names_of(f.simplify())):
                    acc.append(["missing-symbol", "%s(%s) has no value for some symbol of the formula: %s" % (call, fid, got)])
                elif all(n in got for n in names) and not pred(got):
                    acc.append(["falsifies-assertion", "%s(%s) = %s falsifies the formula" % (call, fid, got)])
                for k_, t_ in acc[:3]:
                    viol.append(({"oracle": "model" if k_ in ("missing-symbol", "falsifies-assertion") else "environment",
                                  "defect": k_, "call": call}, t_))
        else:
            expect = sat if kind == "is_sat" else (not sat)
            if (out == "true") != expect:
                viol.append(({"oracle": "verdict", "call": call, "expected": str(expect).lower(), "got": out},
                             "%s(%s) returned %s, brute-force truth is %s" % (call, fid, out, str(expect).lower())))
        return {"rec": rec, "viol": viol, "req": None, "key": None, "crash": None}
    except BaseException as e:      # noqa
        import traceback
        return {"rec": rec, "viol": [], "req": None, "key": None, "crash": "%r\n%s" % (e, traceback.format_exc()[-1500:])}
    finally:
        signal.setitimer(signal.ITIMER_REAL, 0)
        signal.signal(signal.SIGALRM, old)
        if comp is not None:
            comp.close()
        _CUR = 0


def _work(case):
    global _CUR
    case = as_case(case)
    lenient = bool(case.get("lenient"))
    ops = case["ops"]
    if case.get("factory"):
        res = _work_factory(case)
        if (res.get("rec") or {}).get("ref_slow"):
            return {"rec": {"ops": ops, "ref_slow": True}, "viol": [], "req": None, "key": None, "crash": None,
                    "ref_slow": True}
        return res
    _CUR = case.get("env", 0) or 0
    try:
        rec = run_real(ops, lenient, case.get("layout", 0) or 0, case.get("companion"))
        if rec.get("ref_slow"):
            # the reference solver was still enumerating when the per-case limit expired: the harness's oracle is too
            # slow for this case (counted), nothing can be concluded about the library
            return {"rec": {"ops": ops, "ref_slow": True}, "viol": [], "req": None, "key": None, "crash": None,
                    "ref_slow": True}
        rec["real_answer"] = real_answer(rec)      # canonical form, computed in the environment of the case
        viol = analyse(rec)
        return {"rec": rec, "viol": viol, "req": model_request(rec), "key": nontrivial_key(rec), "crash": None}
    except BaseException as e:      # noqa
        import traceback
        return {"rec": {"ops": ops}, "viol": [], "req": None, "key": None,
                "crash": "%r\n%s" % (e, traceback.format_exc()[-1500:])}
    finally:
        _CUR = 0


_SHRUNK = {}
_KNOWN = None


def _known():
    global _KNOWN
    if _KNOWN is None:
        _KNOWN = [e for e in common.load_known() if e.get("property") == "C17"]
    return _KNOWN


def shrink(case, sig, max_runs=60):
    """delete calls one at a time while the same defect (same signature) is still observed"""
    cur = [list(o) for o in case["ops"]]
    runs = 0
    changed = True
    while changed and runs < max_runs:
        changed = False
        for i in range(len(cur) - 1, -1, -1):
            cand = cur[:i] + cur[i + 1:]
            if not cand:
                continue
            r = _work(dict(case, ops=cand))
            runs += 1
            if not r["crash"] and any(s == sig for s, _ in r["viol"]):
                cur = cand
                changed = True
                break
            if runs >= max_runs:
                break
    return cur


def process_results(ctx, results):
    """S reports, then one batched Lean run for K"""
    reqs, recs = [], []
    for r in results:
        if r["crash"]:
            ctx.infra("C17 case crashed in the harness: %s on %s" % (r["crash"], r["rec"]["ops"]))
            continue
        if r.get("ref_slow"):
            ctx.count("case skipped: the reference solver was still enumerating at the per-case limit")
            continue
        rec = r["rec"]
        ctx.case(r["key"])
        ctx.count("ops_executed", len(rec["ops"]))
        for op in rec["ops"]:
            ctx.count("op_" + op[0])
        for o in rec["outs"]:
            ctx.count("out_" + o.split(":")[0])
        if rec["cut"]:
            ctx.count("cut: " + rec["cut"])
        if len(ctx.samples) < 5 and r["key"]:
            ctx.sample({"ops": rec["ops"], "outs": rec["outs"], "stream": [c for c, _ in rec["log"]]})
        for sig, what in list(r["viol"]):
            skey = "env-selfcontained-%s" % bool(rec.get("factory"))
            if sig.get("oracle") == "environment" and rec.get("companion") is None and skey not in _SHRUNK:
                # the defect needed an earlier solver of this process in another environment: a companion provides it
                _SHRUNK[skey] = True
                r3 = _work(dict(case_of(rec), companion=(rec.get("env", 0) + 1) % N_ENVS))
                for sig3, what3 in r3["viol"]:
                    if sig3 == sig:
                        ctx.report_s(sig, what3, dict(case_of(r3["rec"]), outs=r3["rec"]["outs"], log=r3["rec"]["log"]))
                        break
        for sig, what in r["viol"]:
            key = json.dumps(sig, sort_keys=True)
            if key not in _SHRUNK and common.match_known(sig, _known()) is None and len(_SHRUNK) < 5:
                _SHRUNK[key] = True
                small = shrink(case_of(rec), sig) if not rec.get("factory") else rec["ops"]
                if len(small) < len(rec["ops"]):
                    r2 = _work(dict(case_of(rec), ops=small))
                    for sig2, what2 in r2["viol"]:
                        if sig2 == sig:
                            ctx.report_s(sig, what2 + " [shrunk from %d calls]" % len(rec["ops"]),
                                         dict(case_of(r2["rec"]), outs=r2["rec"]["outs"], log=r2["rec"]["log"]))
                            break
            ctx.report_s(sig, what, dict(case_of(rec), outs=rec["outs"], log=rec["log"]))
        if r["req"] is not None:
            reqs.append(r["req"])
            recs.append(rec)
    if not reqs:
        return
    try:
        answers = ctx.lean_run_sharded("C17", reqs)
    except common.LeanError as e:
        if not any(b["what"] == "driver C17 does not run" for b in ctx.l_breaks):
            ctx.report_l("driver C17 does not run", str(e))
        return
    nk = 0
    for rec, req, ans in zip(recs, reqs, answers):
        diffs = compare_with_model(rec, ans)
        if diffs:
            nk += 1
            if nk <= 20:
                ctx.report_k("SmtLibSolver differs from Impl/SmtSolver.lean: " + diffs[0],
                             dict(case_of(rec), request=req, model=ans, real_outs=rec["outs"],
                                  real_stream=[c for c, _ in rec["log"]]))
    ctx.count("k_divergent_cases", nk)


def run_cases(ctx, cases, deadline):
    """run cases on ctx.workers processes until `deadline` (absolute time); returns number of cases run"""
    if not cases:
        return 0
    import multiprocessing as mp
    results = []
    workers = max(1, min(ctx.workers, len(cases)))
    if workers == 1:
        for ops in cases:
            if time.time() > deadline:
                break
            results.append(_work(ops))
    else:
        mpc = mp.get_context("fork")
        with mpc.Pool(workers) as pool_:
            it = pool_.imap(_work, cases, chunksize=1)
            for _ in range(len(cases)):
                try:
                    results.append(it.next(timeout=max(1.0, deadline - time.time()) + CASE_TIMEOUT + 5))
                except mp.TimeoutError:
                    break
                if time.time() > deadline:
                    break
            pool_.terminate()
    process_results(ctx, results)
    return len(results)


def run(ctx):
    try:
        _tmp_root()
        _run(ctx)
    finally:
        _cleanup()


def dress(rng, ops, lenient=False):
    env = rng.choice([0, 0, 1, 2])
    comp = None
    if rng.random() < 0.1:
        comp = rng.choice([k for k in range(N_ENVS) if k != env])
    return {"ops": ops, "lenient": lenient, "layout": rng.randrange(4), "env": env, "companion": comp}


def _run(ctx):
    pool()
    quick = ctx.tier == "quick"
    # the budget counts from the start of the check, but building / auditing the proofs may have had to wait for other
    # users of the Lean tree: K and S always get a minimum of their own
    t_end = max(ctx.t0 + (80 if quick else 840), time.time() + (40 if quick else 300))
    # second tie first (cheap)
    strict_tie(ctx, 300 if quick else 3000)
    static_oracles(ctx)
    # 1. witnesses
    # every case gets an environment (0 = the global one, 1, 2 = others living in the same process), a layout of the
    # solver's replies, and sometimes a companion solver alive in another environment
    scen = []
    for i, ops in enumerate(SCENARIOS):
        env = i % N_ENVS
        scen.append({"ops": ops, "layout": i % 4, "env": env, "companion": (env + 1) % N_ENVS if i % 4 == 1 else None})
    run_cases(ctx, scen, time.time() + 120)       # the witnesses always run, all of them
    P = pool()
    fact = [dict(dress(ctx.rng, [[k, fid]]), factory=True, companion=None)
            for fid in P.formulas for k in ("is_sat", "is_valid", "is_unsat", "model")]
    ctx.extra["factory_shortcut_cases"] = run_cases(ctx, fact, time.time() + 60)
    over = [dress(ctx.rng, o, lenient=True)
            for o in OVERPOP + [random_overpop(ctx.rng) for _ in range(40 if quick else 400)]]
    ctx.extra["overpop_cases"] = run_cases(ctx, over, time.time() + 60)
    # 2. exhaustive enumeration (every prefix of a maximal sequence is checked while it runs)
    plan = [(True, 3), (False, 4)] if quick else [(True, 4), (False, 5), (False, 6)]
    exhaustive = []
    for full, length in plan:
        cases = [dress(ctx.rng, o) for o in enumerate_sequences(alphabet(full), length)]
        budget = (t_end - time.time()) * ((0.55 if (full, length) == plan[0] else 0.75) if quick else 0.45)
        n = run_cases(ctx, cases, time.time() + max(budget, 5))
        exhaustive.append({"alphabet": len(alphabet(full)), "length": length, "sequences": len(cases), "run": n,
                           "complete": n == len(cases)})
    ctx.extra["exhaustive"] = all(e["complete"] for e in exhaustive)
    ctx.extra["enumerations"] = exhaustive
    # 3. sampled long sequences until the budget is used
    nlong = 0
    while time.time() < t_end - 4:
        batch = [dress(ctx.rng, random_sequence(ctx.rng, ctx.rng.randint(6, 14))) for _ in range(40 * ctx.workers)]
        nlong += run_cases(ctx, batch, t_end)
    ctx.extra["sampled_long_sequences"] = nlong


def replay(ctx, rep):
    r = rep.get("replay", {})
    if r.get("kind") == "strict-tie":
        reqs = [r["request"]]
        try:
            ans = ctx.lean_run("C17", reqs)[0]
        except common.LeanError as e:
            ctx.report_l("driver C17 does not run", str(e))
            return
        st = refsolver.Strict(INT_RANGE, USIZE)
        first = None
        for k, text in enumerate(r["stream"]):
            if st.command(refsolver.parse(refsolver.tokenize(text))[0][0]).startswith("(error"):
                first = k
                break
        exp = "accept" if first is None else "reject %d" % first
        ctx.case(None)
        if ans != exp:
            ctx.report_k("refsolver.py and Spec/StrictSolver.lean disagree: refsolver %s, Lean %s" % (exp, ans), r)
        return
    if r.get("kind") == "static":
        pool()
        static_oracles(ctx)
        return
    ops = r.get("ops")
    if not ops:
        ctx.infra("replay file has no ops")
        return
    pool()
    try:
        _tmp_root()
        case = {"ops": [list(o) for o in ops], "lenient": bool(r.get("lenient")), "layout": r.get("layout", 0) or 0,
                "env": r.get("env", 0) or 0, "companion": r.get("companion"), "factory": bool(r.get("factory"))}
        process_results(ctx, [_work(case)])
    finally:
        _cleanup()
