"""C16 -- scripts and incremental solvers track exactly the live assertions.

K (correspondence)
  * script : real `SmtLibScript.get_last_formula(return_optimizations=True)` and `get_strict_formula()` on
             generated command lists  vs  Lean model `PySMT.Script.lastFormula / strictFormula` (driver C16).
  * track  : a minimal concrete solver class defined here on top of the real `IncrementalTrackingSolver`
             (or directly on `Solver`), with `@clear_pending_pop` applied exactly where the extracted table
             (tools/gen_pendingpop.py) says a real class has it, driven through the real `Solver.is_sat /
             is_valid / is_unsat`; the raw state (native stack, `_assertion_stack`, `_backtrack_points`,
             `pending_pop`, what the last native check ran on) after EVERY step  vs  Lean model
             `PySMT.SolverTrack`.  Also for random (deliberately incomplete) placements.
  * table  : the placement the harness computes from the regenerated table  vs  `configOf` in Lean, and (when the
             class is importable) the real `__mro__`.
S (search): the implementation's own answers against an independent Python transcription of the SMT-LIB
  assertion stack (`Oracle` below; cross-checked against the Lean `Spec` through the driver):
  scripts: reported formula = conjunction of the live assertions, reported goals = live goals, no exception on a
  legal script; solvers: every read of `assertions` = live assertions, every native check ran on exactly the live
  assertions (+ the one-shot formula), no exception on a legal sequence -- for the placement of every concrete
  class of the tree.
"""
import hashlib
import os
import subprocess
import sys
import time

import common

LEAN_MODULES = ["PySMT.Props.C16"]
RULE = ("ALL command sequences up to a length bound over {assert fresh|repeated, assert-soft id ''|'x', push 0|1|2, "
        "pop 0|1|2, reset-assertions, check-sat, maximize} (scripts; legal ones and those whose LAST command is an "
        "illegal pop) and {add_assertion, push 0|1|2, pop 0|1|2, reset_assertions, solve, is_sat, is_valid, is_unsat, "
        "solve([f]), read assertions, is_sat / is_valid / solve whose native check raises unknown, is_sat whose add_assertion "
        "raises, solve([non-literal]) through a temporary level and the same with add_assertion raising (classes that have that path)} "
        "(solvers), all interleavings of two live solver instances up to length 4 (thorough 5) over {add, push 1, pop 1, "
        "is_sat, read, exit}, soft clauses drawn from two clauses only so that the same clause recurs under the same id, the "
        "other id and after a pop; scripts executed on a tracking solver through SmtLibScript.evaluate / InterpreterOMT (all of length "
        "<= 4 over assert/push/pop/reset/check-sat/other, and over assert/push 1/pop 1/check-sat/maximize/get-objectives); the TEXT "
        "route (scripts written as SMT-LIB text by the harness -- (push 0), (pop), :id/:weight -- read back by SmtLibParser, then "
        "get_last_formula / evaluate: all of length <= 3, seeded longer ones); extreme but legal sizes (300 [thorough 2000] MaxSMT goals "
        "with distinct ids, 300 [2000] nested levels, 1500 [10000] assertions with push/pop of that many levels, 300 [2000] "
        "objectives; a solver driven to 300 [600] levels), plus seeded random sequences of length 8-60 with all four objective "
        "kinds, :signed, weights, three soft ids.  Non-trivial = a pop/reset actually removed an item, a soft id was "
        "reused, or (solvers) a one-shot query was followed by another call.")
ASSUMPTIONS = [
    "solver option incremental=True (the non-incremental branch of Solver.is_sat makes the solver single-use by design and is not modelled)",
    "the native solver behind the proxies is an ideal SMT-LIB assertion stack (played by a strict stack object in the harness)",
    "formulas, weights, objectives are opaque to the bookkeeping (the harness uses Boolean symbols and their negations; is_valid is given atoms, because FormulaManager.Not collapses double negation)",
    "_last_command/_last_result of IncrementalTrackingSolver are not part of the property",
    "the assumption path of BddSolver/YicesSolver/MathSAT5Solver/PicosatSolver/Z3Solver (push; add_assertion(And(..)); pending_pop = True inside solve) is exercised through harness classes that copy the shape of that body, with the guard where tools/gen_pendingpop.py finds one: repycudd, yices, mathsat, picosat are not installed (Z3Solver itself runs in the thorough tier's secondary run)",
    "exceptions of the native solver are modelled for the check (SolverReturnedUnknownResultError) and for asserting the formula of a one-shot query; the client catches them and goes on using the solver",
]

# --------------------------------------------------------------------------------------------- spec oracle
class Oracle(object):
    """SMT-LIB assertion stack, transcribed from the standard (independent of pySMT and of the Lean files)."""

    def __init__(self):
        self.levels = [[]]          # outermost first here
        self.removed = False        # a pop / reset removed at least one item
        self.reused = False         # a soft id was used twice

    def legal(self, tok):
        return not (tok[0] == "p" and int(tok[1:]) >= len(self.levels))

    def step(self, tok):
        k = tok[0]
        if k == "a":
            self.levels[-1].append(("a", int(tok[1:])))
        elif k == "o":
            self.levels[-1].append(("o", int(tok[1:])))
        elif k == "s" and len(tok) > 1:
            i, f, w = (int(x) for x in tok[1:].split("."))
            if any(it[0] == "s" and it[1] == i for it in self.items()):
                self.reused = True
            self.levels[-1].append(("s", i, f, w))
        elif k == "u":
            for _ in range(int(tok[1:])):
                self.levels.append([])
        elif k == "p":
            for _ in range(int(tok[1:])):
                if self.levels.pop():
                    self.removed = True
        elif k == "r":
            if any(self.levels):
                self.removed = True
            self.levels = [[]]
        # c, x, s(olve), q*, g: nothing

    def items(self):
        return [it for lv in self.levels for it in lv]

    def live(self):
        return [it[1] for it in self.items() if it[0] == "a"]

    def goals(self):
        its = self.items()
        out, seen = [], set()
        for it in its:
            if it[0] == "o":
                out.append("o%d" % it[1])
            elif it[0] == "s" and it[1] not in seen:
                seen.add(it[1])
                out.append("m" + ",".join("%d.%d" % (j[2], j[3]) for j in its if j[0] == "s" and j[1] == it[1]))
        return out


def ids(l):
    return ",".join(str(x) for x in l) if l else "-"


def goals_str(gs):
    return ";".join(gs) if gs else "-"


# --------------------------------------------------------------------------------------------- pySMT side
class PySide(object):
    """Everything that touches pysmt; built lazily so that an import failure is reported once."""

    NSYM = 80

    def __init__(self):
        from pysmt.environment import reset_env
        env = reset_env()
        self.env = env
        mgr = env.formula_manager
        self.mgr = mgr
        from pysmt.typing import BOOL, INT
        import pysmt.smtlib.commands as smtcmd
        from pysmt.smtlib.script import SmtLibScript, SmtLibCommand
        from pysmt.optimization.goal import (MaximizationGoal, MinimizationGoal, MinMaxGoal, MaxMinGoal, MaxSMTGoal)
        self.smtcmd, self.SmtLibScript, self.SmtLibCommand = smtcmd, SmtLibScript, SmtLibCommand
        self.MaxSMTGoal = MaxSMTGoal
        self.form = {}                       # id -> FNode ; even: symbol, odd: its negation
        self.fid = {}
        for i in range(self.NSYM):
            s = mgr.Symbol("v%d" % i, BOOL)
            self.form[2 * i], self.form[2 * i + 1] = s, mgr.Not(s)
        for i in range(self.NSYM):
            # ids >= 1000: formulas that are not literals (assumptions the wrappers cannot pass natively)
            self.form[1000 + 2 * i] = mgr.Or(self.form[2 * i], self.form[2 * ((i + 1) % self.NSYM)])
        for k, v in self.form.items():
            self.fid[v] = k
        P = self

        class Forms(dict):
            # ids >= 10000: as many further literals as a large script needs (even: symbol w<k>, odd: its negation)
            def __missing__(d, k):
                if k < 10000:
                    raise KeyError(k)
                sym = mgr.Symbol("w%d" % ((k - 10000) // 2), BOOL)
                for kk, v in ((k - k % 2, sym), (k - k % 2 + 1, mgr.Not(sym))):
                    dict.__setitem__(d, kk, v)
                    P.fid[v] = kk
                return dict.__getitem__(d, k)
        self.form = Forms(self.form)

        class Terms(list):
            def __getitem__(l, i):
                while isinstance(i, int) and i >= len(l):
                    l.append(mgr.Symbol("t%d" % len(l), INT))
                    P.termid[l[-1]] = len(l) - 1
                return list.__getitem__(l, i)
        self.termid = {}
        self.terms = Terms()
        self.terms[self.NSYM - 1]
        self.kinds = [(smtcmd.MAXIMIZE, MaximizationGoal, False), (smtcmd.MINIMIZE, MinimizationGoal, False),
                      (smtcmd.MINMAX, MinMaxGoal, True), (smtcmd.MAXMIN, MaxMinGoal, True)]
        class Ids(dict):
            def __missing__(d, k):
                return "g%d" % k
        self.idname = Ids({0: "", 1: "x", 2: "goal two"})
        self._cmd_cache = {}
        self.getobj = SmtLibCommand(smtcmd.GET_OBJECTIVES, [])

        self._goal_key = {}                  # (class, term, signed) -> g
        self.others = [SmtLibCommand(smtcmd.SET_LOGIC, ["QF_LIA"]), SmtLibCommand(smtcmd.GET_MODEL, []),
                       SmtLibCommand(smtcmd.DECLARE_FUN, [self.form[0]]), SmtLibCommand(smtcmd.EXIT, [])]
        self.route_others = [self.others[0], self.others[2]]      # set-logic, declare-fun: harmless on any solver

    # objective g encodes: kind = g % 4, signed = (g // 4) % 2, term index = g // 8
    def command(self, tok):
        c = self._cmd_cache.get(tok)
        if c is not None:
            return c
        smtcmd, C = self.smtcmd, self.SmtLibCommand
        k = tok[0]
        if k == "a":
            c = C(smtcmd.ASSERT, [self.form[int(tok[1:])]])
        elif k == "o":
            g = int(tok[1:])
            name, cls, is_list = self.kinds[g % 4]
            signed = bool((g // 4) % 2)
            t = self.terms[g // 8]
            arg = [t, self.terms[g // 8 + 1]] if is_list else t
            # `:signed` present only when true half of the time it is false: both spellings are legal
            args = [arg, [(":signed", signed)]] if (signed or g % 3 == 0) else [arg]
            c = C(name, args)
            exp = cls(arg, signed)
            self._goal_key[(cls, exp.term(), signed)] = g
        elif k == "s":
            i, f, w = (int(x) for x in tok[1:].split("."))
            ann = []
            if i != 0 or f % 4 == 0:
                ann.append((":id", self.idname[i]))
            if w != 1 or f % 3 == 0:
                ann.append((":weight", self.mgr.Int(w)))
            c = C(smtcmd.ASSERT_SOFT, [self.form[f], ann])
        elif k == "u":
            c = C(smtcmd.PUSH, [int(tok[1:])])
        elif k == "p":
            c = C(smtcmd.POP, [int(tok[1:])])
        elif k == "r":
            c = C(smtcmd.RESET_ASSERTIONS, [])
        elif k == "c":
            c = C(smtcmd.CHECK_SAT, [])
        elif k == "x":
            return self.others[0]
        else:
            raise ValueError(tok)
        self._cmd_cache[tok] = c
        return c

    def script(self, toks):
        s = self.SmtLibScript()
        for i, t in enumerate(toks):
            s.add_command(self.others[i % len(self.others)] if t == "x" else self.command(t))
        return s

    def text_of(self, toks):
        """The script as SMT-LIB text, written by the harness itself (not by pySMT's printer): declarations of the
        symbols used, then one command per token.  The optional numeral of push/pop is sometimes left out for 1."""
        decl, body = {}, []
        def lit(i):
            k = i - i % 2
            name = ("w%d" % ((k - 10000) // 2)) if k >= 10000 else ("v%d" % (k // 2))
            decl[name] = "Bool"
            return name if i % 2 == 0 else "(not %s)" % name
        for n, t in enumerate(toks):
            k = t[0]
            if k == "a":
                body.append("(assert %s)" % lit(int(t[1:])))
            elif k == "s":
                i, f, w = (int(x) for x in t[1:].split("."))
                body.append("(assert-soft %s%s%s)" % (lit(f), "" if i == 0 else " :id %s" % self.idname[i],
                                                       "" if (w == 1 and f % 3 == 0) else " :weight %d" % w))
            elif k == "o":
                g = int(t[1:])
                decl["t%d" % (g // 8)] = "Int"
                self.command(t)                      # registers the expected goal
                body.append("(%s t%d%s)" % ("maximize" if g % 4 == 0 else "minimize", g // 8, " :signed" if (g // 4) % 2 else ""))
            elif k in "up":
                num = int(t[1:])
                body.append("(%s%s)" % ("push" if k == "u" else "pop", "" if (num == 1 and n % 2 == 0) else " %d" % num))
            elif k == "r":
                body.append("(reset-assertions)")
            elif k == "c":
                body.append("(check-sat)")
            elif k == "x":
                body.append("(set-option :produce-models true)")
            elif k == "G":
                body.append("(get-objectives)")
            else:
                raise ValueError(t)
        return "".join("(declare-fun %s () %s)\n" % (nm, ty) for nm, ty in sorted(decl.items())), "\n".join(body) + "\n"

    def parsed_script(self, toks):
        """text -> SmtLibParser -> SmtLibScript, without the declarations"""
        from io import StringIO
        from pysmt.smtlib.parser import SmtLibParser
        decl, body = self.text_of(toks)
        scr = SmtLibParser(environment=self.env).get_script(StringIO(decl + body))
        ndecl = decl.count("\n")
        out = self.SmtLibScript()
        for c in scr.commands[ndecl:]:
            out.add_command(c)
        return out

    def formula_ids(self, f, expect_len=None):
        """Arguments of the reported conjunction, as ids.  And([]) = TRUE, And([x]) = x."""
        if f.is_true():
            return []
        if f in self.fid and not f.is_and():
            return [self.fid[f]]
        if f.is_and():
            return [self.fid.get(a, -1) for a in f.args()]
        return [-1]

    def goal_str(self, g):
        if isinstance(g, self.MaxSMTGoal):
            out = []
            for (c, w) in g.soft:
                wv = w.constant_value()
                out.append("%d.%s" % (self.fid.get(c, -1), int(wv) if wv == int(wv) else wv))
            return "m" + ",".join(out)
        key = (type(g), g.term(), g.signed)
        return "o%s" % self._goal_key.get(key, "?")

    def last_formula(self, toks, text=False):
        try:
            scr = self.parsed_script(toks) if text else self.script(toks)
            if text and len(scr.commands) != len(toks):
                return "err parsed %d commands out of %d" % (len(scr.commands), len(toks))
            f, goals = scr.get_last_formula(mgr=self.mgr, return_optimizations=True)
        except IndexError:
            return "err index-error"
        except Exception as e:              # any other exception class is an outcome of its own
            return "err " + type(e).__name__
        # the mgr.And of the ids must be the very same node (no information lost by reading args back)
        l = self.formula_ids(f)
        if self.mgr.And([self.form[i] for i in l if i in self.form]) is not f:
            return "ok ?%s | %s" % (f.serialize(), goals_str([self.goal_str(g) for g in goals]))
        return "ok %s | %s" % (ids(l), goals_str([self.goal_str(g) for g in goals]))

    def strict_formula(self, toks, text=False):
        from pysmt.exceptions import PysmtValueError
        try:
            f = (self.parsed_script(toks) if text else self.script(toks)).get_strict_formula(mgr=self.mgr)
        except PysmtValueError:
            return "err value-error"
        except Exception as e:
            return "err " + type(e).__name__
        l = self.formula_ids(f)
        if self.mgr.And([self.form[i] for i in l if i in self.form]) is not f:
            return "ok ?%s" % f.serialize()
        return "ok %s" % ids(l)

    # ------------------------------------------------------------------------------------- toy solvers
    def solver_class(self, cfg):
        """A minimal concrete solver with @clear_pending_pop placed as `cfg` says.
        cfg = 11 chars 0/1: dAdd dPush dPop dReset dSolve dRead tracking native pushSupported assumePush
        assumeGuarded.  With assumePush the body of solve/_solve has the shape of the wrappers' (z3.py:211-228,
        yices.py:205-210, bdd.py:179-184; none of bdd/yices/msat/pico can be imported here, their native modules are
        missing): assumptions that are not literals are asserted in a pushed level and `pending_pop` is set -- inside
        `try/finally` when assumeGuarded (Z3Solver), in straight-line code otherwise (the others)."""
        cache = self.__dict__.setdefault("_classes", {})
        if cfg in cache:
            return cache[cfg]
        from pysmt.solvers.solver import Solver, IncrementalTrackingSolver
        from pysmt.solvers.options import SolverOptions
        from pysmt.decorators import clear_pending_pop
        from pysmt.logics import QF_BOOL
        from pysmt.exceptions import SolverReturnedUnknownResultError, ConvertExpressionError
        self.expected_exc = (SolverReturnedUnknownResultError, ConvertExpressionError)
        dAdd, dPush, dPop, dReset, dSolve, dRead, tracking, native, pushsup, apush, aguard = (ch == "1" for ch in cfg)
        mgr = self.mgr
        fid = self.fid
        fidof = self.fidof

        class Options(SolverOptions):
            def __call__(self, solver):
                pass

        def deco(flag, f, name):
            # the function carries the NAME the real wrappers give it (`_pop`, `solve`, …): code that looks at
            # `f.__name__` (decorators, logging) must see what it sees on a real solver class
            import types
            g = types.FunctionType(f.__code__, f.__globals__, name, f.__defaults__, f.__closure__)
            g.__qualname__ = "Toy." + name
            g.__doc__ = f.__doc__
            return clear_pending_pop(g) if flag else g

        # the native solver: an SMT-LIB assertion stack that refuses to pop its base level
        def n_add(self, formula, named=None):
            if self.fail_add:
                self.fail_add = False
                raise ConvertExpressionError(message="harness: this formula cannot be asserted", expression=formula)
            if native:
                self.nat[-1].append(fid[formula])
            return formula

        def n_push(self, levels=1):
            if not pushsup:
                raise NotImplementedError
            if native:
                for _ in range(levels):
                    self.nat.append([])

        def n_pop(self, levels=1):
            if native:
                if levels >= len(self.nat):
                    raise NativeError("pop below the base level")
                for _ in range(levels):
                    self.nat.pop()

        def n_reset(self):
            if native:
                self.nat = [[]]

        def n_solve(self, assumptions=None):
            if apush and assumptions is not None:
                # the wrappers' assumption path (copied shape): literals go to the native check, the rest is asserted
                # in a level of its own that the next command removes
                bool_ass = [x for x in assumptions if x.is_literal()]
                other_ass = [x for x in assumptions if not x.is_literal()]
                if len(other_ass) > 0:
                    self.push()
                    if aguard:
                        try:
                            self.add_assertion(mgr.And(other_ass))
                        finally:
                            self.pending_pop = True
                    else:
                        self.add_assertion(mgr.And(other_ass))
                        self.pending_pop = True
                assumptions = bool_ass
            if native:
                seen = [x for lv in self.nat for x in lv]
            else:
                seen = [fidof(x) for x in self._assertion_stack]
            self.log.append(seen + [fid[x] for x in (assumptions or [])])
            if self.fail_solve:
                self.fail_solve = False
                raise SolverReturnedUnknownResultError()
            # the verdict: the formulas are literals (id ^ 1 = the negation) or disjunctions (ids >= 1000, ignored)
            lits = set(x for x in self.log[-1] if isinstance(x, int) and (x < 1000 or x >= 10000))
            return not any((x ^ 1) in lits for x in lits)

        if tracking:
            class Toy(IncrementalTrackingSolver):
                LOGICS = [QF_BOOL]
                OptionsClass = Options

                def __init__(self, env):
                    IncrementalTrackingSolver.__init__(self, env, QF_BOOL)
                    self.nat = [[]]
                    self.log = []
                    self.fail_add = self.fail_solve = False
                _add_assertion = deco(dAdd, n_add, "_add_assertion")
                _push = deco(dPush, n_push, "_push")
                _pop = deco(dPop, n_pop, "_pop")
                _reset_assertions = deco(dReset, n_reset, "_reset_assertions")
                _solve = deco(dSolve, n_solve, "_solve")

                def _exit(self):
                    pass
            if not dRead:
                # placement without the decorator on the property: shadow it with an undecorated copy
                Toy.assertions = property(lambda self: self._assertion_stack)
            else:
                # make sure the real property really is decorated (else the table lies)
                assert hasattr(IncrementalTrackingSolver.assertions.fget, "__wrapped__")
        else:
            class Toy(Solver):
                LOGICS = [QF_BOOL]
                OptionsClass = Options

                def __init__(self, env):
                    Solver.__init__(self, env, QF_BOOL)
                    self.nat = [[]]
                    self.log = []
                    self.fail_add = self.fail_solve = False
                add_assertion = deco(dAdd, n_add, "add_assertion")
                push = deco(dPush, n_push, "push")
                pop = deco(dPop, n_pop, "pop")
                reset_assertions = deco(dReset, n_reset, "reset_assertions")
                solve = deco(dSolve, n_solve, "solve")

                def _exit(self):
                    pass
        cache[cfg] = Toy
        return Toy

    def route_class(self, cfg):
        """The toy tracking solver of `cfg`, usable where the library expects an SMT-LIB front end and an optimizer:
        `SmtLibScript.evaluate(solver)` calls assert_/check_sat/push/pop/reset_assertions (SmtLibBasicSolver forwards
        them to the solver API) and, once objectives exist, `optimize(goal)`.  `optimize` runs one native check and
        answers with a value that identifies the call (number of the call, number of live assertions)."""
        cache = self.__dict__.setdefault("_route_classes", {})
        if cfg in cache:
            return cache[cfg]
        from pysmt.solvers.smtlib import SmtLibBasicSolver
        from pysmt.optimization.optimizer import Optimizer
        Toy = self.solver_class(cfg)
        mgr = self.mgr

        class Route(Toy, SmtLibBasicSolver, Optimizer):
            def __init__(self, env):
                Toy.__init__(self, env)
                self.opt_calls = 0

            def optimize(self, goal, **kwargs):
                self.opt_calls += 1
                if not self.solve():
                    return None
                return None, mgr.Int(self.opt_calls * 1000 + len(self.log[-1]))

            def pareto_optimize(self, goals):
                raise NotImplementedError

            def lexicographic_optimize(self, goals):
                raise NotImplementedError

            def boxed_optimize(self, goals):
                raise NotImplementedError

            def can_diverge_for_unbounded_cases(self):
                return False
        cache[cfg] = Route
        return Route

    def route(self, cfg, toks, text=False):
        """Execute the script through the interpreter that `SmtLibScript.evaluate` uses, command by command.
        Returns per command: (snapshot or 'err …', ids of the raw assertion list, returned value rendered)."""
        from pysmt.smtlib.script import InterpreterOMT
        s = self.route_class(cfg)(self.env)
        inter = InterpreterOMT()
        steps = []
        parsed = self.parsed_script(toks).commands if text else None
        for i, t in enumerate(toks):
            cmd = self.getobj if t == "G" else (self.route_others[i % 2] if t == "x" else self.command(t))
            if parsed is not None:
                cmd = parsed[i]
            try:
                r = inter.evaluate(cmd, s)
            except Exception as e:
                steps.append((self.error_outcome(e), None, None))
                break
            if t == "c":
                rv = "sat" if r is True else ("unsat" if r is False else repr(r))
            elif t == "G":
                rv = ",".join("%s=%s" % (self.termid.get(tm, "?"), v.constant_value()) for (tm, v) in r)
            else:
                rv = None
            steps.append((self.snapshot(s, True), [self.fidof(x) for x in s._assertion_stack], rv))
        return steps, s

    def route_whole(self, cfg, toks):
        """the public entry point itself: SmtLibScript.evaluate(solver) on the whole script"""
        s = self.route_class(cfg)(self.env)
        scr = self.SmtLibScript()
        for i, t in enumerate(toks):
            scr.add_command(self.getobj if t == "G" else (self.route_others[i % 2] if t == "x" else self.command(t)))
        try:
            log = scr.evaluate(s)
        except Exception as e:
            return self.error_outcome(e), None
        return self.snapshot(s, True), [("sat" if r is True else "unsat") for (n, r) in log if n == self.smtcmd.CHECK_SAT and isinstance(r, bool)]

    def fidof(self, x):
        """id of an element of an assertion list; anything that is not one of the harness' formulas is shown as it is
        (never an exception: a foreign element IS the finding)"""
        try:
            return self.fid[x]
        except (KeyError, TypeError):
            return "?%s" % (str(x)[:20],)

    def snapshot(self, s, tracking):
        nat = "|".join(ids(lv) for lv in reversed(s.nat))
        if tracking:
            tr = ids([self.fidof(x) for x in s._assertion_stack])
            bp = s._backtrack_points
            # never print an unbounded list (state leaking between instances would make it grow for ever)
            # (a history of <= 60 calls cannot legitimately create more than 180 points)
            pts = ids([x if isinstance(x, int) else "?%s" % (str(x)[:20],) for x in reversed(bp[-POINTS_SHOWN:])]) + \
                ("..(%d)" % len(bp) if len(bp) > POINTS_SHOWN else "")
        else:
            tr = pts = "-"
        return "%s/%s/%s/%d/%s" % (nat, tr, pts, 1 if s.pending_pop else 0, ids(s.log[-1]) if s.log else "-")

    def final_observation(self, solver, tracking):
        """the property is about what is observed next: read the list / solve once more"""
        final = {}
        try:
            if tracking:
                final["read"] = [self.fidof(x) for x in solver.assertions]
            solver.solve()
            final["check"] = list(solver.log[-1])
        except Exception as e:
            final["exc"] = type(e).__name__
        return final

    def apply_op(self, s, t):
        """One API call on toy solver `s`.  Returns (raised, read value or None); harness-visible errors propagate."""
        form = self.form
        raised, val = False, None
        k = t[0]
        if k == "a":
            s.add_assertion(form[int(t[1:])])
        elif k == "u":
            s.push(int(t[1:]))
        elif k == "p":
            s.pop(int(t[1:]))
        elif k == "r":
            s.reset_assertions()
        elif k == "s":
            s.solve()
        elif k == "g":
            val = [self.fidof(x) for x in s.assertions]
        elif k == "e":
            s.exit()
        elif k in "qxy":
            f = form[int(t[2:])]
            q = t[1]
            # x: the native check of this call raises "unknown"; y: asserting its formula raises
            s.fail_solve, s.fail_add = (k == "x"), (k == "y")
            try:
                if q == "s":
                    s.is_sat(f)
                elif q == "v":
                    s.is_valid(f)
                elif q == "u":
                    s.is_unsat(f)
                else:
                    s.solve([f])
            except self.expected_exc:
                if k == "q":
                    raise
                raised = True
            finally:
                s.fail_solve = s.fail_add = False
        elif k == "w":
            s.solve([form[int(t[1:])]])
        elif k == "W":
            s.fail_add = True
            try:
                s.solve([form[int(t[1:])]])
            except self.expected_exc:
                raised = True
            finally:
                s.fail_add = False
        elif k == "S":
            s.fail_solve = True
            try:
                s.solve()
            except self.expected_exc:
                raised = True
            finally:
                s.fail_solve = False
        else:
            raise ValueError(t)
        return raised, val

    @staticmethod
    def error_outcome(e):
        if isinstance(e, NativeError):
            return "err native-error"
        if isinstance(e, IndexError):
            return "err index-error"
        if isinstance(e, NotImplementedError):
            return "err not-implemented"
        return "err " + type(e).__name__      # anything else is an outcome of its own (never swallowed)

    def track(self, cfg, toks, out=None, reads=None):
        """Run the ops on a fresh toy solver.  Returns (list of per-step snapshots / final 'err …',
        list of (step index, value) for every `g` read).  `out` / `reads` may be passed in so that the caller still
        has the steps done so far when the watchdog interrupts the run."""
        tracking = cfg[6] == "1"
        s = self.solver_class(cfg)(self.env)
        out = [] if out is None else out
        reads = [] if reads is None else reads
        for i, t in enumerate(toks):
            try:
                raised, val = self.apply_op(s, t)
            except Exception as e:
                out.append(self.error_outcome(e))
                break
            if val is not None:
                reads.append((i, val))
            out.append(self.snapshot(s, tracking) + ("!" if raised else ""))
        return out, reads, s

    def duo(self, cfgs, steps):
        """Two solver instances alive at the same time, used in the interleaving `steps` = [(inst, token)…].
        Returns per instance (out, reads, solver, exited) like `track`, and `cross`: the first step at which the
        raw state of the instance that was NOT called changed."""
        solvers = [self.solver_class(c)(self.env) for c in cfgs]
        tr = [c[6] == "1" for c in cfgs]
        outs, reads, exited = ([], []), ([], []), [False, False]
        last = [self.snapshot(solvers[k], tr[k]) for k in (0, 1)]
        fresh = list(last)
        cross = None
        dead = [False, False]
        for gi, (k, t) in enumerate(steps):
            if dead[k]:
                continue
            try:
                raised, val = self.apply_op(solvers[k], t)
            except Exception as e:
                outs[k].append(self.error_outcome(e))
                dead[k] = True
                continue
            if t == "e":
                exited[k] = True
                dead[k] = True
                continue
            if val is not None:
                reads[k].append((len(outs[k]), val))
            snap = self.snapshot(solvers[k], tr[k])
            outs[k].append(snap + ("!" if raised else ""))
            last[k] = snap
            o = 1 - k
            if cross is None and not exited[o] and self.snapshot(solvers[o], tr[o]) != last[o]:
                cross = (gi, "AB"[o], last[o], self.snapshot(solvers[o], tr[o]))
        return outs, reads, solvers, exited, cross, fresh


class NativeError(Exception):
    pass


POINTS_SHOWN = 400           # raised by the large families


CFG_CLASSES = {}             # placement bits -> "+".join(classes of the tree that have it); filled by run()/replay()


class CaseTimeout(BaseException):
    """raised by the SIGALRM watchdog: one case ran longer than CASE_DEADLINE_S"""


CASE_DEADLINE_S = 2.5        # CPU seconds; a single history never needs more than milliseconds
CASE_WALL_S = 60.0           # wall-clock backstop (blocked, not spinning); generous: the machine may be overloaded
BUNDLE_BUDGET_S = 110.0      # set by run() from the tier's budget before the workers are forked


def _on_alarm(signum, frame):
    raise CaseTimeout()


def watchdog_install():
    import signal
    import threading
    if threading.current_thread() is threading.main_thread():
        signal.signal(signal.SIGALRM, _on_alarm)
        signal.signal(signal.SIGPROF, _on_alarm)
        return True
    return False


class deadline(object):
    """`with deadline():` -- the body is interrupted by CaseTimeout after CASE_DEADLINE_S seconds of CPU time of this
    process (a spinning case; CPU time so that an overloaded machine cannot fake a hang) or CASE_WALL_S seconds of
    wall-clock time (a blocked case)."""
    armed = False

    def __init__(self, factor=1.0):
        self.factor = factor

    def __enter__(self):
        import signal
        if deadline.armed:
            signal.setitimer(signal.ITIMER_PROF, CASE_DEADLINE_S * self.factor)
            signal.setitimer(signal.ITIMER_REAL, CASE_WALL_S * self.factor)

    def __exit__(self, *a):
        import signal
        if deadline.armed:
            signal.setitimer(signal.ITIMER_PROF, 0)
            signal.setitimer(signal.ITIMER_REAL, 0)
        return False


def guarded(fn):
    """Run `fn()` under the per-case deadline; a timeout is believed only when it happens again with twice the time."""
    try:
        with deadline():
            return fn()
    except CaseTimeout:
        pass
    with deadline(2.0):
        return fn()


class OutOfTime(Exception):
    pass


class TooManyHangs(Exception):
    """several cases of this bundle hit the per-case deadline: stop generating, report what was found"""


_HANGS = [0]


def note_hang():
    _HANGS[0] += 1
    if _BUNDLE_T0[0] is not None and _HANGS[0] >= 3:
        raise TooManyHangs()


_BUNDLE_T0 = [None]         # set by work(); None (replay, shrinking: bounded by construction) = no bundle budget


def check_bundle_time():
    if _BUNDLE_T0[0] is not None and time.time() - _BUNDLE_T0[0] > BUNDLE_BUDGET_S:
        raise OutOfTime()


_PY = None


def py():
    global _PY
    if _PY is None:
        _PY = PySide()
    return _PY


# --------------------------------------------------------------------------------------------- enumeration
SCRIPT_ALPHA = ["A", "B", "S0", "S1", "u0", "u1", "u2", "p0", "p1", "p2", "r", "c", "O"]
TRACK_ALPHA = ["A", "u0", "u1", "u2", "p0", "p1", "p2", "r", "s", "QS", "QV", "QU", "QA", "g",
               "XS", "XV", "YS", "SX",      # queries that raise
               "WP", "WF"]                  # solve([non-literal]): through a temporary level; … asserting it raises: check of is_sat / is_valid, assertion of is_sat's formula, solve()
FAILING = ["XS", "XV", "YS", "SX", "WP", "WF"]


def track_alpha(cfg):
    """no `g` for classes without an assertion list; no explicit push/pop when push is not implemented"""
    return [a for a in TRACK_ALPHA if (a != "g" or cfg[6] == "1") and (a[0] not in "up" or cfg[8] == "1")
            and (a[0] != "W" or (cfg[9] == "1" and cfg[8] == "1"))]


def instantiate(sym, pos):
    """Template symbol at position `pos` -> concrete token (fresh formulas are numbered by position)."""
    if sym == "A":
        return "a%d" % (2 * (pos + 1))
    if sym == "B":
        return "a0"
    # soft clauses: only two distinct clauses (by parity of the position) so that the SAME clause comes back under
    # the same id, under the other id, and after a pop; the weight (= position + 1) tells the entries apart
    if sym == "S0":
        return "s0.%d.%d" % (2 * (1 + pos % 2), pos + 1)
    if sym == "S1":
        return "s1.%d.%d" % (2 * (1 + pos % 2), pos + 1)
    if sym == "O":
        return "o%d" % (8 * pos)
    if sym in ("QS", "QV", "QU", "QA"):
        return "q%s%d" % (sym[1].lower(), 2 * (pos + 1))
    if sym in ("XS", "XV"):
        return "x%s%d" % (sym[1].lower(), 2 * (pos + 1))
    if sym == "YS":
        return "ys%d" % (2 * (pos + 1))
    if sym == "SX":
        return "S"
    if sym == "WP":
        return "w%d" % (1000 + 2 * (pos + 1))
    if sym == "WF":
        return "W%d" % (1000 + 2 * (pos + 1))
    return sym


def enum_sequences(alpha, depth, prefix, leaves_only, allow_illegal_last=True):
    """All token sequences extending `prefix` (a list of template symbols, assumed legal) up to total length
    `depth`: every legal one, and every one whose last command is an illegal pop.  With `leaves_only` only
    sequences that cannot be extended (length = depth, or illegal) are produced."""
    toks0 = [instantiate(s, i) for i, s in enumerate(prefix)]
    o0 = Oracle()
    for t in toks0:
        if not o0.legal(t):
            return
        o0.step(t)
    depth0 = len(prefix)

    def rec(toks, nlev):
        n = len(toks)
        if n > depth0 or n == 0:
            if not leaves_only or n == depth:
                if n > 0:
                    yield toks, True
        if n == depth:
            return
        for sym in alpha:
            t = instantiate(sym, n)
            if t[0] == "p" and int(t[1:]) >= nlev:
                if allow_illegal_last:
                    yield toks + [t], False
                continue
            nl = nlev
            if t[0] == "u":
                nl += int(t[1:])
            elif t[0] == "p":
                nl -= int(t[1:])
            elif t == "r":
                nl = 1
            yield from rec(toks + [t], nl)
    if depth0 == 0:
        # the empty sequence is a case too (scripts only)
        if not leaves_only:
            yield [], True
    yield from rec(toks0, len(o0.levels))


def random_script(rng, n, illegal_end):
    toks, nlev = [], 1
    for i in range(n):
        r = rng.random()
        if r < 0.25:
            toks.append("a%d" % rng.choice([0, 2 * (1 + i % 70), 2 * rng.randrange(70) + rng.randrange(2)]))
        elif r < 0.42:
            # half of the soft clauses come from a pool of three clauses: repeated clauses under one id, under
            # several ids, before and after pops
            f = rng.choice([2, 4, 6]) if rng.random() < 0.5 else 2 * (1 + i % 70)
            toks.append("s%d.%d.%d" % (rng.randrange(3), f, rng.choice([1, 1, 2, 3, 7])))
        elif r < 0.52:
            toks.append("o%d" % (8 * (i % 70) + rng.randrange(8)))
        elif r < 0.68:
            k = rng.randrange(3)
            toks.append("u%d" % k)
            nlev += k
        elif r < 0.86:
            k = rng.randrange(min(3, nlev))
            toks.append("p%d" % k)
            nlev -= k
        elif r < 0.90:
            toks.append("r")
            nlev = 1
        elif r < 0.96:
            toks.append("c")
        else:
            toks.append("x")
    legal = True
    if illegal_end:
        toks.append("p%d" % (nlev + rng.randrange(2)))
        legal = False
    return toks, legal


def random_ops(rng, n, tracking, pushsup, illegal_end, apush=False):
    toks, nlev = [], 1
    for i in range(n):
        r = rng.random()
        f = 2 * (1 + i % 70)
        if r < 0.22:
            toks.append("a%d" % f)
        elif r < 0.38 and pushsup:
            k = rng.randrange(3)
            toks.append("u%d" % k)
            nlev += k
        elif r < 0.56 and pushsup:
            k = rng.randrange(min(3, nlev))
            toks.append("p%d" % k)
            nlev -= k
        elif r < 0.61:
            toks.append("r")
            nlev = 1
        elif r < 0.70:
            toks.append("s")
        elif r < 0.82:
            toks.append("q%s%d" % (rng.choice("svua"), f))
        elif r < 0.90:
            more = ["w%d" % (1000 + f), "w%d" % (1000 + f), "W%d" % (1000 + f)] if (apush and pushsup) else []
            toks.append(rng.choice(["x%s%d" % (rng.choice("svua"), f), "y%s%d" % (rng.choice("svua"), f), "S"] + more))
        elif tracking:
            toks.append("g")
        else:
            toks.append("s")
    legal = True
    if illegal_end and pushsup:
        toks.append("p%d" % (nlev + rng.randrange(2)))
        legal = False
    return toks, legal


# --------------------------------------------------------------------------------------------- driver
_LEAN_ENV = [None]
_DRIVERS = set()             # pids of the driver processes of THIS process that are still running
DRIVER_TIMEOUT_S = 75.0      # hard limit for one driver process (set by run() per tier)


def _lean_env():
    """the environment `lake env` would give, computed once: the driver is then ONE process (`lean --run`) that this
    process starts, owns and can kill -- `lake env lean …` is two, and killing `lake` leaves `lean` running"""
    if _LEAN_ENV[0] is None:
        p = subprocess.run(["lake", "env", "env", "-0"], cwd=common.LEAN_DIR, capture_output=True, timeout=120)
        env = {}
        for item in p.stdout.split(b"\0"):
            if b"=" in item:
                k, v = item.split(b"=", 1)
                env[k.decode()] = v.decode()
        if p.returncode != 0 or "LEAN_PATH" not in env:
            raise common.LeanError("lake env failed: %s" % p.stderr[-500:])
        _LEAN_ENV[0] = env
    return _LEAN_ENV[0]


def _die_with_parent():
    # child side, before exec: own process group, and SIGKILL as soon as the process that started it is gone
    import ctypes
    import signal
    os.setsid()
    try:
        ctypes.CDLL("libc.so.6", use_errno=True).prctl(1, signal.SIGKILL)      # PR_SET_PDEATHSIG
    except Exception:
        pass


def kill_drivers():
    import signal
    for pid in list(_DRIVERS):
        try:
            os.killpg(pid, signal.SIGKILL)
        except Exception:
            pass
        _DRIVERS.discard(pid)


def lean_run(lines, timeout=None):
    """One driver process answers `lines`.  It can never outlive this process or its time limit: own process group,
    killed (whole group) on timeout and on any exception -- including the watchdog's --, PDEATHSIG for the case that
    this process is killed itself."""
    if not lines:
        return []
    timeout = min(timeout or DRIVER_TIMEOUT_S, DRIVER_TIMEOUT_S)
    env = _lean_env()
    proc = subprocess.Popen([env.get("LEAN", "lean"), "--run", "Drivers/C16.lean"], cwd=common.LEAN_DIR, env=env,
                            stdin=subprocess.PIPE, stdout=subprocess.PIPE, stderr=subprocess.PIPE, text=True,
                            preexec_fn=_die_with_parent)
    _DRIVERS.add(proc.pid)
    try:
        try:
            stdout, stderr = proc.communicate("\n".join(lines) + "\n", timeout=timeout)
        except subprocess.TimeoutExpired:
            raise common.LeanError("driver C16 did not answer %d requests within %d s (killed)" % (len(lines), timeout))
    finally:
        if proc.poll() is None:
            import signal
            try:
                os.killpg(proc.pid, signal.SIGKILL)
            except Exception:
                proc.kill()
            try:
                proc.wait(timeout=10)
            except Exception:
                pass
        _DRIVERS.discard(proc.pid)
    out = stdout.split("\n")
    if out and out[-1] == "":
        out.pop()
    if proc.returncode != 0 or len(out) != len(lines):
        raise common.LeanError("driver C16: rc=%s, %d answers for %d requests\n%s" % (
            proc.returncode, len(out), len(lines), stderr[-2000:]))
    return out


def digest(s):
    return hashlib.blake2b(s.encode(), digest_size=8).digest()


class Result(object):
    """What a chunk of work reports back (picklable)."""

    def __init__(self):
        self.cases = 0
        self.nontrivial = []        # digests
        self.counters = {}
        self.k = []
        self.s = []
        self.l = []
        self.samples = []
        self.steps = 0
        self.states = set()

    def count(self, k, n=1):
        self.counters[k] = self.counters.get(k, 0) + n


def last_stack_cmd(toks):
    for t in reversed(toks):
        if t[0] in "upr" and t not in ("u0", "p0"):
            return {"u": "push", "p": "pop", "r": "reset"}[t[0]] + (t[1:] if t[0] != "r" else "")
    return "none"


class Batch(object):
    """Collects driver requests of several sub-checks so that ONE driver process answers them all."""

    def __init__(self, res):
        self.res = res
        self.lines = []
        self.pending = []           # (start, count, callback)

    def add(self, lines, callback):
        self.pending.append((len(self.lines), len(lines), callback))
        self.lines.extend(lines)

    def flush(self, use_lean=True):
        model = None
        if use_lean and self.lines:
            try:
                model = lean_run(self.lines)
            except (common.LeanError, subprocess.TimeoutExpired) as e:
                self.res.l.append(("driver C16 does not run", str(e)))
        for (start, n, cb) in self.pending:
            cb(model[start:start + n] if model is not None else None)
        self.lines, self.pending = [], []


def check_scripts(cases, res, use_lean=True, batch=None, text=False, model_script=True):
    """cases: list of (toks, legal).  K: model vs get_last_formula / get_strict_formula.  S: vs Oracle."""
    own = batch is None
    if own:
        batch = Batch(res)
    P = py()
    lines, impl = [], []
    for n, (toks, legal) in enumerate(cases):
        body = " ".join(toks)
        if n % 512 == 0:
            check_bundle_time()
        try:
            a1, a2 = guarded(lambda: (P.last_formula(toks, text), P.strict_formula(toks, text)))
        except CaseTimeout:
            a1 = a2 = "err hang"
            impl.append((a1, a2))
            lines.extend([("script " + body).rstrip(), ("strict " + body).rstrip(), ("spec " + body).rstrip()])
            try:
                note_hang()
            except TooManyHangs:
                batch.add(lines, lambda model, c=cases[:len(impl)], i=impl: _compare_scripts(c, i, model, res, text))
                raise
            continue
        impl.append((a1, a2))
        # model_script=False (very large scripts): the Lean MODEL of the replay loop is interpreted and far too slow
        # there (function-update chains); the Lean SPEC still answers, and S compares with it
        lines.append(("script " + body).rstrip() if model_script else "skip")
        lines.append(("strict " + body).rstrip() if model_script else "skip")
        lines.append(("spec " + body).rstrip())
    batch.add(lines, lambda model: _compare_scripts(cases, impl, model, res, text))
    if own:
        batch.flush(use_lean)


def _compare_scripts(cases, impl, model, res, text=False):
    P = py()
    via = " (script written as SMT-LIB text and read back by SmtLibParser)" if text else ""
    tx = {"text": True} if text else {}
    for n, (toks, legal) in enumerate(cases):
        a1, a2 = impl[n]
        body = " ".join(toks)
        if text:
            res.count("script_text")
        o = Oracle()
        for t in toks:
            if not o.legal(t):
                break
            o.step(t)
        res.cases += 1
        res.steps += len(toks)
        res.states.add(repr(o.levels))
        if legal and (o.removed or o.reused):
            res.nontrivial.append(digest("script " + body))
        res.count("script_len_%d" % len(toks) if len(toks) <= 7 else "script_len_8+")
        res.count("script_legal" if legal else "script_illegal_last")
        if len(res.samples) < 2 and legal and o.removed and o.reused and o.live() and len(o.goals()) > 1:
            res.samples.append({"kind": "script", "cmds": body, "implementation": a1, "spec": "ok %s | %s" % (ids(o.live()), goals_str(o.goals()))})
        spec_line = "ok %s | %s" % (ids(o.live()), goals_str(o.goals())) if legal else "illegal"
        if model is not None:
            m1, m2, m3 = model[3 * n], model[3 * n + 1], model[3 * n + 2]
            if m3 != spec_line:
                res.l.append(("python oracle and Lean Spec disagree", "%s: %s vs %s" % (body, spec_line, m3)))
            if m1 != a1 and m1 != "bad-op":
                res.k.append(("get_last_formula%s: model %s, implementation %s" % (via, m1, a1),
                              dict({"kind": "script", "cmds": body, "model": m1, "implementation": a1}, **tx)))
            if m2 != a2 and m2 != "bad-op":
                res.k.append(("get_strict_formula%s: model %s, implementation %s" % (via, m2, a2),
                              dict({"kind": "strict", "cmds": body, "model": m2, "implementation": a2}, **tx)))
        # S
        if legal:
            if a1 != spec_line:
                if a1.startswith("err"):
                    shape = a1[4:]
                elif a1.split(" | ")[0] != spec_line.split(" | ")[0]:
                    shape = "assertions"
                else:
                    shape = "goals"
                if len(a1) > 400:
                    a1s, sps = first_difference(a1, spec_line)
                else:
                    a1s, sps = a1, spec_line
                res.s.append(({"oracle": "assert-stack", "part": "script" + ("-text" if text else ""), "shape": shape,
                               "after": last_stack_cmd(toks)},
                              "get_last_formula%s reports %s, the live assertions/goals are %s" % (via, a1s, sps),
                              dict({"kind": "script", "cmds": body, "implementation": a1s, "spec": sps}, **tx)))
            if a2.startswith("ok") and a2 != "ok " + ids(o.live()):
                res.s.append(({"oracle": "assert-stack", "part": "strict", "shape": "assertions", "after": last_stack_cmd(toks)},
                              "get_strict_formula reports %s, the live assertions are %s" % (a2, ids(o.live())),
                              {"kind": "strict", "cmds": body, "implementation": a2, "spec": ids(o.live())}))
            strict_expected = (not any(t[0] in "upr" for t in toks)) and sum(1 for t in toks if t == "c") == 1
            if strict_expected and not a2.startswith("ok"):
                res.s.append(({"oracle": "assert-stack", "part": "strict", "shape": "refused", "after": "none"},
                              "get_strict_formula refuses a script without push/pop/reset and with one check-sat: %s" % a2,
                              {"kind": "strict", "cmds": body, "implementation": a2, "spec": ids(o.live())}))


def first_difference(a, b):
    """large answers: show the neighbourhood of the first difference only"""
    i = next((k for k in range(min(len(a), len(b))) if a[k] != b[k]), min(len(a), len(b)))
    lo = max(0, i - 60)
    return "…%s… (%d chars, first difference at %d)" % (a[lo:i + 100], len(a), i), "…%s… (%d chars)" % (b[lo:i + 100], len(b))


def op_kind(t):
    q = {"s": "is_sat", "v": "is_valid", "u": "is_unsat", "a": "solve_assumptions"}.get(t[1:2], "?")
    return {"a": "add_assertion", "u": "push", "p": "pop", "r": "reset_assertions", "s": "solve", "g": "assertions",
            "q": q, "x": q + "!unknown", "y": q + "!assert", "S": "solve!unknown",
            "w": "solve_assumptions_push", "W": "solve_assumptions_push!assert"}[t[0]]


def is_oneshot(t):
    return (t[0] in "qxy" and t[1] != "a") or t[0] in "wW"


def check_tracks(cfg, who, cases, res, search, use_lean=True, batch=None):
    """cases: list of (toks, legal).  K: raw state after every step vs model.  S (when `search`): reads and
    native checks vs Oracle."""
    own = batch is None
    if own:
        batch = Batch(res)
    P = py()
    tracking = cfg[6] == "1"
    lines, impl = [], []
    for n, (toks, legal) in enumerate(cases):
        if n % 512 == 0:
            check_bundle_time()
        out, reads = [], []

        def one_case():
            del out[:], reads[:]
            o, r, solver = P.track(cfg, toks, out, reads)
            fin = None
            if search and legal and not (o and o[-1].startswith("err")):
                fin = P.final_observation(solver, tracking)
            return o, r, fin
        try:
            out, reads, final = guarded(one_case)
        except CaseTimeout:
            out, reads, final = out[:len(toks) - 1] + ["err hang"], reads, None
            hung = True
        else:
            hung = False
        impl.append((out, reads, final))
        lines.append(("track %s %s" % (cfg, " ".join(toks))).rstrip())
        lines.append(("specops " + " ".join(toks)).rstrip())
        if hung:
            try:
                note_hang()
            except TooManyHangs:
                batch.add(lines, lambda model, c=cases[:len(impl)]: _compare_tracks(cfg, who, c, impl, model, res, search))
                raise
    batch.add(lines, lambda model: _compare_tracks(cfg, who, cases, impl, model, res, search))
    if own:
        batch.flush(use_lean)


def _compare_tracks(cfg, who, cases, impl, model, res, search):
    for n, (toks, legal) in enumerate(cases):
        out, reads, final = impl[n]
        m, sp = (model[2 * n], model[2 * n + 1]) if model is not None else (None, None)
        _judge_track(cfg, who, toks, legal, out, reads, final, m, sp, res, search)


def _judge_track(cfg, who, toks, legal, out, reads, final, m, sp, res, search, extra=None, label=""):
    """One history of one solver instance: K against the model's line `m`, S against the oracle."""
    body = " ".join(toks)
    res.cases += 1
    res.steps += len(toks)
    # spec
    o = Oracle()
    lives = []
    oneshot_followed = False
    for i, t in enumerate(toks):
        tt = t if t[0] in "aupr" else "c"
        if not o.legal(tt):
            lives.append("illegal")
            break
        o.step(tt)
        lives.append(ids(o.live()))
        if is_oneshot(t) and i + 1 < len(toks):
            oneshot_followed = True
    res.states.add(repr(o.levels))
    if legal and (o.removed or oneshot_followed):
        res.nontrivial.append(digest("track %s %s" % (cfg, body)))
    res.count("track_%s_%s" % (who, "legal" if legal else "illegal_last"))
    if len(res.samples) < 4 and legal and o.removed and oneshot_followed and o.live() and len(toks) > 3:
        res.samples.append({"kind": "track", "placement": cfg, "ops": body, "states": ";".join(out), "spec_live": ";".join(lives)})
    if m is not None:
        if sp != ";".join(lives):
            res.l.append(("python oracle and Lean Spec disagree", "%s: %s vs %s" % (body, ";".join(lives), sp)))
        if m != ";".join(out):
            res.k.append(("solver bookkeeping (placement %s%s): model %s, implementation %s" % (cfg, label, m, ";".join(out)),
                          dict({"kind": "track", "cfg": cfg, "ops": body, "model": m, "implementation": ";".join(out)},
                               **(extra or {}))))
    if not (search and legal):
        return
    # S: the implementation's own observations against the oracle
    bad = None
    if out and out[-1].startswith("err"):
        i = len(out) - 1
        bad = (i, "raises %s on a legal sequence" % out[-1][4:])
    if bad is None:
        for (i, val) in reads:
            if ids(val) != lives[i]:
                bad = (i, "assertions = [%s], live = [%s]" % (ids(val), lives[i]))
                break
    if bad is None:
        # native checks: parse the last-check field of each snapshot where the op ran a check
        for i, t in enumerate(toks):
            if t[0] in "xyS" and not out[i].endswith("!") and not (t[0] == "y" and (t[1] == "a" or cfg[8] == "0")):
                bad = (i, "the exception of the native call did not reach the caller")
                break
            if t[0] == "W" and cfg[9] == "1" and not out[i].endswith("!"):
                bad = (i, "the exception of add_assertion did not reach the caller")
                break
            if t[0] in "sSqxw" or (t[0] == "y" and (t[1] == "a" or cfg[8] == "0")) or (t[0] == "W" and cfg[9] == "0"):
                seen = out[i].rstrip("!").rsplit("/", 1)[1]
                exp_l = [int(x) for x in lives[i].split(",")] if lives[i] != "-" else []
                if t[0] in "qxy":
                    f = int(t[2:])
                    exp_l = exp_l + [f + 1 if t[1] == "v" else f]
                elif t[0] in "wW":
                    exp_l = exp_l + [int(t[1:])]
                if seen != ids(exp_l):
                    bad = (i, "the check ran on [%s], expected [%s]" % (seen, ids(exp_l)))
                    break
    if bad is None and final is not None:
        i = len(toks)
        if "exc" in final:
            bad = (i - 1, "a following read/solve raises %s" % final["exc"])
        elif "read" in final and ids(final["read"]) != (lives[-1] if lives else "-"):
            bad = (i - 1, "afterwards assertions = [%s], live = [%s]" % (ids(final["read"]), lives[-1] if lives else "-"))
        elif ids(final.get("check", [])) != (lives[-1] if lives else "-"):
            bad = (i - 1, "a following solve() runs on [%s], live = [%s]" % (ids(final.get("check", [])), lives[-1] if lives else "-"))
    if bad is not None:
        i, msg = bad
        prev = next((op_kind(t) for t in reversed(toks[:i + 1]) if is_oneshot(t)), "none")
        sig = {"oracle": "assert-stack", "part": "solver", "placement": cfg,
               "call": op_kind(toks[i]) if i < len(toks) else "end", "pending_from": prev}
        if extra:
            sig["shape"] = "two-instances"
        if cfg[9] == "1" and cfg[10] == "0" and any(t[0] == "W" for t in toks[:i + 1]):
            # the history contains a solve(assumptions) whose add_assertion raised, on a placement that does not
            # protect that path (finding F44): the level it pushed is still open
            sig["leak_from"] = "solve_assumptions_push!assert"
            sig["assume_guarded"] = "0"
            sig["classes"] = CFG_CLASSES.get(cfg, "synthetic")     # the known finding names the classes it is about
        res.s.append((sig,
                      "%s (placement of %s%s): step %d `%s`: %s" % ("solver", who, label, i, toks[i] if i < len(toks) else "end", msg),
                      dict({"kind": "track", "cfg": cfg, "who": who, "ops": body, "implementation": ";".join(out),
                            "spec_live": ";".join(lives), "step": i}, **(extra or {}))))




DUO_OPS = ["A", "u1", "p1", "QS", "g", "e"]


def enum_duos(depth, tracking):
    """All interleavings of length `depth` of two instances over DUO_OPS (first call on instance A; every
    instance's own history legal; nothing after `exit`)."""
    ops = [o for o in DUO_OPS if o != "g" or tracking]

    def rec(steps, lev, gone):
        if len(steps) == depth:
            yield list(steps)
            return
        for k in ((0,) if not steps else (0, 1)):
            if gone[k]:
                continue
            for sym in ops:
                t = instantiate(sym, len(steps))
                if t[0] == "p" and int(t[1:]) >= lev[k]:
                    continue
                lev2, gone2 = list(lev), list(gone)
                if t[0] == "u":
                    lev2[k] += int(t[1:])
                elif t[0] == "p":
                    lev2[k] -= int(t[1:])
                elif t == "e":
                    gone2[k] = True
                yield from rec(steps + [(k, t)], lev2, gone2)
    yield from rec([], [1, 1], [False, False])


def random_duo(rng, cfgs):
    parts = []
    for c in cfgs:
        toks, _ = random_ops(rng, rng.randrange(2, 14), c[6] == "1", c[8] == "1", False, c[9] == "1")
        if rng.random() < 0.3:
            toks.append("e")
        parts.append(toks)
    steps, idx = [], [0, 0]
    while idx[0] < len(parts[0]) or idx[1] < len(parts[1]):
        k = rng.randrange(2)
        if idx[k] >= len(parts[k]):
            k = 1 - k
        # formulas numbered by global position so that the two instances never share one by accident
        t = parts[k][idx[k]]
        if t[0] in "aqxy" and t != "a0":
            head = t[0] if t[0] == "a" else t[:2]
            t = head + str(2 * (1 + len(steps) % 70))
        elif t[0] in "wW":
            t = t[0] + str(1000 + 2 * (1 + len(steps) % 70))
        steps.append((k, t))
        idx[k] += 1
    return steps


def duo_str(steps):
    return " ".join("%s:%s" % ("AB"[k], t) for k, t in steps)


def parse_duo(text):
    return [("AB".index(x[0]), x[2:]) for x in text.split()]


def check_duos(cfgs, who, cases, res, use_lean=True, batch=None):
    """cases: list of interleaved histories [(instance, token)…] of TWO live solver instances (placements `cfgs`).
    Each instance is judged on its own history exactly like a single solver (K: model of its projection, S: oracle
    of its projection); in addition a call on one instance must not change the raw state of the other."""
    own = batch is None
    if own:
        batch = Batch(res)
    P = py()
    lines, impl = [], []
    for n, steps in enumerate(cases):
        if n % 256 == 0:
            check_bundle_time()
        def one_duo():
            outs, reads, solvers, exited, cross, fresh = P.duo(cfgs, steps)
            finals = []
            for k in (0, 1):
                ok = not exited[k] and not (outs[k] and outs[k][-1].startswith("err"))
                finals.append(P.final_observation(solvers[k], cfgs[k][6] == "1") if ok else None)
            return outs, reads, finals, cross, fresh
        try:
            outs, reads, finals, cross, fresh = guarded(one_duo)
            hung = False
        except CaseTimeout:
            outs, reads, finals, cross, fresh = (["err hang"], ["err hang"]), ([], []), [None, None], None, None
            hung = True
        impl.append((outs, reads, finals, cross, fresh))
        for k in (0, 1):
            proj = " ".join(t for kk, t in steps if kk == k and t != "e")
            lines.append(("track %s %s" % (cfgs[k], proj)).rstrip())
            lines.append(("specops " + proj).rstrip())
        if hung:
            try:
                note_hang()
            except TooManyHangs:
                batch.add(lines, lambda model, c=cases[:len(impl)]: _compare_duos(cfgs, who, c, impl, model, res))
                raise
    batch.add(lines, lambda model: _compare_duos(cfgs, who, cases, impl, model, res))
    if own:
        batch.flush(use_lean)


INIT_SNAPSHOT = "-/-/-/0/-"


def _compare_duos(cfgs, who, cases, impl, model, res):
    for n, steps in enumerate(cases):
        outs, reads, finals, cross, fresh = impl[n]
        hist = duo_str(steps)
        res.count("duo_%s" % who)
        extra0 = {"kind": "duo", "cfgs": list(cfgs), "history": hist, "who": who}
        if fresh is not None and (fresh[0] != INIT_SNAPSHOT or fresh[1] != INIT_SNAPSHOT):
            res.k.append(("a new solver instance does not start empty: %s / %s (state leaks between instances)" % (fresh[0], fresh[1]),
                          dict(extra0, model=INIT_SNAPSHOT, implementation="%s / %s" % (fresh[0], fresh[1]))))
        if cross is not None:
            gi, inst, before, after = cross
            res.s.append(({"oracle": "assert-stack", "part": "solver", "shape": "two-instances",
                           "call": "any", "pending_from": "other-instance"},
                          "two live solver instances (placements of %s): step %d `%s:%s` changed the state of instance %s from %s to %s"
                          % (who, gi, "AB"[steps[gi][0]], steps[gi][1], inst, before, after),
                          dict(extra0, step=gi, instance=inst)))
        for k in (0, 1):
            toks = [t for kk, t in steps if kk == k and t != "e"]
            m, sp = (model[4 * n + 2 * k], model[4 * n + 2 * k + 1]) if model is not None else (None, None)
            _judge_track(cfgs[k], who, toks, True, outs[k], reads[k], finals[k], m, sp, res, True,
                         extra=dict(extra0, instance="AB"[k]), label=", instance %s of `%s`" % ("AB"[k], hist))



# --------------------------------------------------------------------------------------------- glue route
ROUTE_ALPHA = ["A", "B", "u0", "u1", "u2", "p0", "p1", "p2", "r", "c", "x"]
ROUTE_OMT_ALPHA = ["A", "u1", "p1", "c", "O", "G"]


def check_routes(cfg, who, cases, res, use_lean=True, batch=None, text=False):
    """The functionality reached through its public glue: scripts executed on a tracking solver by
    `InterpreterOMT.evaluate` command by command and by `SmtLibScript.evaluate(solver)` as a whole.
    K (scripts without optimisation commands): raw solver state after every command vs the Lean model run on
    `interp cmds` (driver `evaltrack`).  S: after EVERY command the solver's assertion list = live assertions of the
    prefix = what get_last_formula reports for the prefix; every check-sat answers the truth for the live assertions;
    every get-objectives lists exactly one value per objective, computed by the LAST check-sat."""
    own = batch is None
    if own:
        batch = Batch(res)
    P = py()
    lines, impl = [], []
    for n, (toks, legal) in enumerate(cases):
        if n % 256 == 0:
            check_bundle_time()
        plain = not any(t[0] in "osG" for t in toks)

        def one():
            steps, solver = P.route(cfg, toks, text)
            whole = P.route_whole(cfg, toks)
            prefixes = []
            if legal:
                for i in range(1, len(toks) + 1):
                    prefixes.append(P.last_formula([t for t in toks[:i] if t != "G"]))
            return steps, whole, prefixes
        try:
            steps, whole, prefixes = guarded(one)
        except CaseTimeout:
            steps, whole, prefixes = [("err hang", None, None)], ("err hang", None), []
            try:
                note_hang()
            except TooManyHangs:
                impl.append((steps, whole, prefixes, plain))
                lines.append("evaltrack %s %s" % (cfg, " ".join(toks)) if plain else "classes")
                batch.add(lines, lambda model, c=cases[:len(impl)]: _compare_routes(cfg, who, c, impl, model, res, text))
                raise
        impl.append((steps, whole, prefixes, plain))
        lines.append(("evaltrack %s %s" % (cfg, " ".join(toks))).rstrip() if plain else "classes")
    batch.add(lines, lambda model: _compare_routes(cfg, who, cases, impl, model, res, text))
    if own:
        batch.flush(use_lean)


def _compare_routes(cfg, who, cases, impl, model, res, text=False):
    for n, (toks, legal) in enumerate(cases):
        steps, whole, prefixes, plain = impl[n]
        body = " ".join(toks)
        res.cases += 1
        res.steps += len(toks)
        res.count("route_%s" % ("plain" if plain else "omt"))
        rep = {"kind": "route", "cfg": cfg, "who": who, "cmds": body}
        if text:
            rep["text"] = True
            res.count("route_text")
        # K: the calls the interpreter made, as seen in the solver's raw state
        calls = [st[0] for st, t in zip(steps, toks) if t[0] in "aupr" or t == "c" or st[0].startswith("err")]
        if plain and model is not None:
            if model[n] != ";".join(calls):
                res.k.append(("script executed on a solver (placement %s): model %s, implementation %s" % (cfg, model[n], ";".join(calls)),
                              dict(rep, model=model[n], implementation=";".join(calls))))
        if not legal:
            continue
        # S
        o = Oracle()
        bad = None
        ngoals, optcalls, last_values = 0, 0, []
        for i, t in enumerate(toks):
            if i >= len(steps):
                break
            snap, raw, rv = steps[i]
            if t == "G":
                if rv != ",".join(last_values):
                    bad = (i, "get-objectives lists [%s], the last check-sat computed [%s]" % (rv, ",".join(last_values)))
                    break
                continue
            o.step(t)
            if t[0] == "o":
                ngoals += 1
            if snap.startswith("err"):
                bad = (i, "raises %s on a legal script" % snap[4:])
                break
            live = o.live()
            if raw != live:
                bad = (i, "the solver's assertion list is [%s], the live assertions are [%s]" % (ids(raw), ids(live)))
                break
            exp_prefix = "ok %s | " % ids(live)
            if not prefixes[i].startswith(exp_prefix):
                bad = (i, "get_last_formula of the prefix reports %s, the solver holds [%s]" % (prefixes[i], ids(raw)))
                break
            if t == "c":
                truth = consistent(live)
                if ngoals == 0:
                    if rv != ("sat" if truth else "unsat"):
                        bad = (i, "check-sat answers %s, the live assertions [%s] are %s" % (rv, ids(live), "sat" if truth else "unsat"))
                        break
                else:
                    # single-obj priority: one optimize() per objective declared so far, stop at the first None
                    last_values = []
                    for gi in objective_terms(toks[:i]):
                        optcalls += 1
                        if not truth:
                            break
                        last_values.append("%d=%d" % (gi, optcalls * 1000 + len(live)))
        if bad is None and legal and not any(t[0] in "oG" for t in toks):
            final = steps[-1][0] if steps else INIT_SNAPSHOT
            if whole[0] != final and not (not steps and whole[0] == INIT_SNAPSHOT):
                bad = (len(toks) - 1, "SmtLibScript.evaluate(solver) leaves the solver in %s, command by command it is %s" % (whole[0], final))
        if bad is not None:
            i, msg = bad
            res.s.append(({"oracle": "assert-stack", "part": "evaluate", "placement": cfg, "call": toks[i][0] if i < len(toks) else "end",
                           "after": last_stack_cmd(toks[:i + 1])},
                          "script %sexecuted on a solver through SmtLibScript.evaluate / InterpreterOMT (placement of %s): command %d `%s`: %s"
                          % ("(written as text, read by SmtLibParser) " if text else "", who, i, toks[i] if i < len(toks) else "end", msg), dict(rep, step=i)))


def objective_terms(toks):
    return [int(t[1:]) // 8 for t in toks if t[0] == "o"]


def random_route(rng, n, omt):
    toks, nlev = [], 1
    for i in range(n):
        r = rng.random()
        if r < 0.30:
            toks.append("a%d" % rng.choice([0, 2 * (1 + i % 70), 2 * rng.randrange(6) + rng.randrange(2)]))
        elif r < 0.48:
            k = rng.randrange(3)
            toks.append("u%d" % k)
            nlev += k
        elif r < 0.68:
            k = rng.randrange(min(3, nlev))
            toks.append("p%d" % k)
            nlev -= k
        elif r < 0.72:
            toks.append("r")
            nlev = 1
        elif r < 0.86:
            toks.append("c")
        elif omt and r < 0.92:
            toks.append("o%d" % (8 * (i % 70) + rng.randrange(2)))
        elif omt:
            toks.append("G")
        else:
            toks.append("x")
    return toks, True



# --------------------------------------------------------------------------------------------- text and size
def textable(toks):
    """the same script restricted to what the harness' text printer writes: maximize/minimize only, ids without blanks"""
    out = []
    for t in toks:
        if t[0] == "o":
            g = int(t[1:])
            t = "o%d" % (g - g % 4 + g % 2)
        elif t[0] == "s" and len(t) > 1 and t.startswith("s2."):
            t = "s3." + t[3:]
        out.append(t)
    return out


def large_script(rng, n, family):
    """Extreme but legal sizes (the specification does not care about size; CPython and the bookkeeping might).
    Formulas ids >= 10000 (symbols w<k>), soft ids and objective terms in the hundreds/thousands."""
    toks = []
    f = lambda k: 10000 + 2 * k + rng.randrange(2)
    if family == "goals":
        # n MaxSMT goals with distinct ids (a new id must get its goal also beyond 256 goals), objectives in between,
        # then more inside levels that are popped, and soft clauses added to old ids afterwards
        for i in range(n):
            toks.append("s%d.%d.%d" % (3 + i, f(i), 1 + i % 5))
            if i % 37 == 0:
                toks.append("o%d" % (8 * (i // 37)))
        toks.append("u2")
        for i in range(n, n + 30):
            toks.append("s%d.%d.2" % (3 + i, f(i)))
        toks.append("s%d.%d.4" % (3 + rng.randrange(n), f(n + 40)))
        toks.append("p1")
        for i in range(5):
            toks.append("s%d.%d.3" % (3 + rng.randrange(n), f(n + 50 + i)))
        toks.append("s%d.%d.3" % (3 + n + 100, f(n + 60)))
        toks.append("p1")
        toks.append("s%d.%d.3" % (3 + n + 101, f(n + 61)))
    elif family == "levels":
        # n levels opened one by one and in bulk, assertions at every level, closed in irregular chunks
        lev = 0
        for i in range(n):
            toks.append("a%d" % f(i))
            if i % 3 == 0:
                toks.append("s%d.%d.1" % (rng.randrange(4), f(i)))
            k = 1 if i % 11 else 7
            toks.append("u%d" % k)
            lev += k
        while lev > 0:
            k = min(lev, rng.choice([1, 2, 3, 5, 60]))
            toks.append("p%d" % k)
            lev -= k
            if rng.random() < 0.3:
                toks.append("a%d" % f(n + lev))
                toks.append("u1")
                lev += 1
        toks.append("a%d" % f(2 * n + 5))
    elif family == "asserts":
        # thousands of assertions, one huge push and pop
        for i in range(n):
            toks.append("a%d" % f(i % (n // 2 + 1)))
            if i == n // 3:
                toks.append("u%d" % n)
            if i == 2 * n // 3:
                toks.append("p%d" % (n - 1))
        toks.append("c")
    elif family == "objectives":
        for i in range(n):
            toks.append("o%d" % (8 * i + rng.randrange(8)))
            if i % 50 == 49:
                toks.append("u1")
        toks.append("p%d" % (n // 50))
        toks.append("o%d" % (8 * (n + 1)))
    return toks, True


def large_ops(rng, n, tracking=True):
    """a solver driven to n levels, with one-shot queries at depth"""
    toks, lev = [], 0
    for i in range(n):
        toks.append("a%d" % (10000 + 2 * i))
        k = 1 if i % 13 else 5
        toks.append("u%d" % k)
        lev += k
        if i % 17 == 0:
            toks.append("q%s%d" % (rng.choice("svu"), 10000 + 2 * (n + i)))
        if i % 41 == 0 and tracking:
            toks.append("g")
    while lev > 0:
        k = min(lev, rng.choice([1, 2, 4, 50]))
        toks.append("p%d" % k)
        lev -= k
        if rng.random() < 0.2:
            toks.append("qs%d" % (10000 + 2 * (3 * n + lev)))
    toks.append("g" if tracking else "s")
    return toks, True


# --------------------------------------------------------------------------------------------- shrinking
def legal_of(toks, solver_ops):
    o = Oracle()
    for t in toks:
        tt = (t if t[0] in "aupr" else "c") if solver_ops else t
        if not o.legal(tt):
            return False
        o.step(tt)
    return True


def shrink(sig, rep):
    """Delete commands while the implementation still fails with the same signature (≤ 200 attempts; the
    implementation and the Python oracle only, no driver)."""
    kind = rep.get("kind")
    if kind not in ("script", "strict", "track", "duo", "route"):
        return rep, None
    key = {"track": "ops", "duo": "history"}.get(kind, "cmds")
    toks = rep[key].split()
    what = None
    attempts = 0
    global CASE_DEADLINE_S
    saved_deadline, CASE_DEADLINE_S = CASE_DEADLINE_S, 1.0      # a hanging candidate costs its whole deadline
    t_stop = time.time() + 8.0
    try:
        return _shrink_loop(sig, rep, kind, key, toks, t_stop)
    finally:
        CASE_DEADLINE_S = saved_deadline


def _shrink_loop(sig, rep, kind, key, toks, t_stop):
    what = None
    attempts = 0

    def fails(ts):
        r = Result()
        if kind == "duo":
            steps = parse_duo(" ".join(ts))
            for k in (0, 1):
                if not legal_of([t for kk, t in steps if kk == k and t != "e"], True):
                    return None
                own = [t for kk, t in steps if kk == k]
                if "e" in own[:-1]:
                    return None
            check_duos(tuple(rep["cfgs"]), rep.get("who", "?"), [steps], r, use_lean=False)
        elif kind == "route":
            if not legal_of([t for t in ts if t != "G"], False):
                return None
            check_routes(rep["cfg"], rep.get("who", "?"), [(ts, True)], r, use_lean=False, text=rep.get("text", False))
        elif kind == "track":
            check_tracks(rep["cfg"], rep.get("who", "?"), [(ts, legal_of(ts, True))], r, True, use_lean=False)
        else:
            check_scripts([(ts, legal_of(ts, False))], r, use_lean=False, text=rep.get("text", False))
        for (sg, wh, rp) in r.s:
            if all(sg.get(k) == v for k, v in sig.items() if k != "after"):
                return wh, rp
        return None
    changed = True
    while changed and attempts < 200 and time.time() < t_stop:
        changed = False
        for i in range(len(toks)):
            if time.time() > t_stop:
                break
            cand = toks[:i] + toks[i + 1:]
            attempts += 1
            got = fails(cand)
            if got is not None:
                toks, (what, newrep) = cand, got
                rep = dict(newrep, shrunk_from=rep.get("shrunk_from", rep[key]))
                changed = True
                break
            if attempts >= 200:
                break
    return rep, what

# --------------------------------------------------------------------------------------------- work units
def weight(task):
    k = task["kind"]
    if k == "script_enum":
        return 3 * 13 ** (task["depth"] - len(task["prefix"]))
    if k == "track_enum":
        return 2 * (12 if task.get("drop") else 20) ** (task["depth"] - len(task["prefix"]))
    if k == "duo_enum":
        return 4 * 10 ** task["depth"]
    if k == "script_text_enum":
        return 12 * 13 ** task["depth"]
    if k in ("script_large", "track_large"):
        return 40 * task["n"] * (task["n"] // 20 if k == "track_large" else 8)
    if k == "route_enum":
        return 6 * (6 if task["omt"] else 11) ** task["depth"]
    return 25 * task["n"]


def work(bundle):
    """One bundle of sub-tasks (runs in-process or in a pool worker); one driver process answers all of it."""
    sys.setrecursionlimit(10000)
    import random
    res = Result()
    batch = Batch(res)
    deadline.armed = watchdog_install()
    _BUNDLE_T0[0] = time.time()
    _HANGS[0] = 0
    for task in bundle:
        kind = task["kind"]
        if len(res.k) + len(res.s) > 400:
            # the tree is broken wholesale: the reports collected so far are plenty, do not grind through the rest
            res.count("subtasks_skipped_after_400_reports")
            continue
        try:
            if kind == "route_enum":
                alpha = ROUTE_OMT_ALPHA if task["omt"] else ROUTE_ALPHA
                cases = [(list(t), l) for (t, l) in enum_sequences(alpha, task["depth"], [], False)]
                check_routes(task["cfg"], task["who"], cases, res, batch=batch, text=task.get("text", False))
            elif kind == "route_random":
                rng = random.Random(task["seed"])
                cases = [random_route(rng, rng.randrange(6, 41), task["omt"]) for _ in range(task["n"])]
                check_routes(task["cfg"], task["who"], cases, res, batch=batch, text=task.get("text", False))
            elif kind == "script_text_enum":
                cases = [(list(t), l) for (t, l) in enum_sequences(SCRIPT_ALPHA, task["depth"], [], False)]
                check_scripts(cases, res, batch=batch, text=True)
            elif kind == "script_text_random":
                rng = random.Random(task["seed"])
                cases = []
                for _ in range(task["n"]):
                    t, l = random_script(rng, rng.randrange(8, 41), rng.random() < 0.05)
                    cases.append((textable(t), l))
                check_scripts(cases, res, batch=batch, text=True)
            elif kind == "script_large":
                rng = random.Random(task["seed"])
                cases = [large_script(rng, task["n"], task["family"])]
                fast = True     # the driver answers 2000-goal / 2000-level scripts in seconds (tables, not closures)
                check_scripts(cases, res, batch=batch, model_script=fast)
                if task.get("text"):
                    check_scripts([(textable(t), l) for t, l in cases], res, batch=batch, text=True, model_script=fast)
                res.count("large_%s_%d" % (task["family"], task["n"]))
            elif kind == "track_large":
                global POINTS_SHOWN
                POINTS_SHOWN = max(POINTS_SHOWN, 3 * task["n"])
                rng = random.Random(task["seed"])
                check_tracks(task["cfg"], task["who"], [large_ops(rng, task["n"], task["cfg"][6] == "1")], res, True, batch=batch)
            elif kind == "duo_enum":
                cases = list(enum_duos(task["depth"], task["cfg"][6] == "1"))
                check_duos((task["cfg"], task["cfg"]), task["who"], cases, res, batch=batch)
            elif kind == "duo_random":
                rng = random.Random(task["seed"])
                cases = [random_duo(rng, task["cfgs"]) for _ in range(task["n"])]
                check_duos(tuple(task["cfgs"]), task["who"], cases, res, batch=batch)
            elif kind == "script_enum":
                cases = [(list(t), l) for (t, l) in enum_sequences(SCRIPT_ALPHA, task["depth"], task["prefix"], False)]
                check_scripts(cases, res, batch=batch)
            elif kind == "track_enum":
                alpha = [a for a in track_alpha(task["cfg"]) if a not in task.get("drop", ())]
                if any(a not in alpha for a in task["prefix"]):
                    continue
                cases = [(list(t), l) for (t, l) in enum_sequences(alpha, task["depth"], task["prefix"], True)]
                check_tracks(task["cfg"], task["who"], cases, res, task["search"], batch=batch)
            elif kind == "script_random":
                rng = random.Random(task["seed"])
                cases = [random_script(rng, rng.randrange(8, 61), rng.random() < 0.08) for _ in range(task["n"])]
                check_scripts(cases, res, batch=batch)
            elif kind == "track_random":
                rng = random.Random(task["seed"])
                cfg = task["cfg"]
                cases = [random_ops(rng, rng.randrange(8, 61), cfg[6] == "1", cfg[8] == "1", rng.random() < 0.08, cfg[9] == "1")
                         for _ in range(task["n"])]
                check_tracks(cfg, task["who"], cases, res, task["search"], batch=batch)
            else:
                raise ValueError(kind)
        except OutOfTime:
            res.l.append(("harness bundle ran out of time (%d s)" % BUNDLE_BUDGET_S, "unfinished: %r" % (task,)))
            break
        except TooManyHangs:
            res.count("bundles_stopped_after_3_hanging_cases")
            break
        except CaseTimeout:
            res.l.append(("harness bundle ran out of time (%d s)" % BUNDLE_BUDGET_S, "watchdog outside a case: %r" % (task,)))
        except Exception:
            import traceback
            res.l.append(("harness chunk crashed: %r" % (task,), traceback.format_exc()))
    try:
        batch.flush()
    except CaseTimeout:
        pass
    except Exception:
        import traceback
        res.l.append(("harness chunk crashed in comparison", traceback.format_exc()))
    res.states = set(hashlib.blake2b(s.encode(), digest_size=8).digest() for s in res.states)
    # a broken tree yields a report per case: send back the first ones only (they are all alike), count the rest
    for name in ("k", "s"):
        lst = getattr(res, name)
        if len(lst) > 120:
            res.count("%s_reports_not_sent" % name, len(lst) - 120)
            # keep a spread of signatures for S
            if name == "s":
                seen, keep = set(), []
                for item in lst:
                    key = repr(sorted(item[0].items()))
                    if key not in seen or len(keep) < 60:
                        keep.append(item)
                        seen.add(key)
                    if len(keep) >= 120:
                        break
                lst[:] = keep
            else:
                del lst[120:]
    return res


def pack(tasks, nbundles):
    """Greedy balancing of the sub-tasks over `nbundles` bundles."""
    bundles = [[0, []] for _ in range(max(1, nbundles))]
    for t in sorted(tasks, key=weight, reverse=True):
        b = min(bundles, key=lambda x: x[0])
        b[0] += weight(t)
        b[1].append(t)
    return [b[1] for b in bundles if b[1]]


def merge(ctx, res, agg):
    ctx.evaluations += res.cases
    for d in res.nontrivial:
        if len(ctx.nontrivial) < 3000000:
            ctx.nontrivial.add(d)
        else:
            agg["nontrivial_not_stored"] = agg.get("nontrivial_not_stored", 0) + 1
    for k, v in res.counters.items():
        ctx.count(k, v)
    for what, rep in res.k:
        if len(ctx.k_divergences) < 50:
            ctx.report_k(what, rep)
    shrunk = agg.setdefault("shrunk_sigs", set())
    for sig, what, rep in res.s:
        if len(ctx.s_violations) < 200:
            key = repr(sorted(sig.items()))
            if key not in shrunk and len(shrunk) < 8 and time.time() < agg.setdefault("shrink_until", time.time() + 40.0):
                shrunk.add(key)
                try:
                    rep2, what2 = shrink(sig, rep)
                    if what2 is not None:
                        rep, what = rep2, what2
                except Exception:
                    pass
            ctx.report_s(sig, what, rep)
    seen_l = agg.setdefault("l_seen", set())
    for what, detail in res.l:
        if what not in seen_l:
            seen_l.add(what)
            if what.startswith("harness chunk crashed") or what.startswith("harness bundle ran out of time"):
                ctx.infra(what + "\n" + detail)
            else:
                ctx.report_l(what, detail)
    for s in res.samples:
        ctx.sample(s)
    agg["steps"] = agg.get("steps", 0) + res.steps
    agg.setdefault("states", set()).update(res.states)


# --------------------------------------------------------------------------------------------- table
def load_table(ctx):
    sys.path.insert(0, os.path.join(common.VERIF, "tools"))
    import gen_pendingpop
    tbl = gen_pendingpop.table(common.REPO)
    return gen_pendingpop, tbl


def cfg_bits(p):
    return "".join("1" if p[k] else "0" for k in
                   ("dAdd", "dPush", "dPop", "dReset", "dSolve", "dRead", "tracking", "native", "pushSupported",
                    "assumePush", "assumeGuarded"))


def check_table(ctx, gen, tbl):
    """The harness' reading of the table vs Lean's (`configOf`), the table's MRO vs Python's where importable."""
    names = [c["name"] for c in tbl]
    try:
        ans = lean_run(["classes"] + ["placement " + n for n in names])
    except (common.LeanError, subprocess.TimeoutExpired) as e:
        ctx.report_l("driver C16 does not run", str(e))
        ans = None
    placements = {}
    for i, n in enumerate(names):
        p = gen.placement(tbl, n)
        placements[n] = p
        mine = "%s %d %d %d" % (cfg_bits(p), p["concrete"], p["usesBaseIsSat"], p["extrasCovered"])
        if ans is not None and ans[i + 1] != mine:
            ctx.report_k("placement of %s: Lean configOf says %s, harness says %s" % (n, ans[i + 1], mine),
                         {"kind": "placement", "class": n})
        ctx.count("table_classes")
    if ans is not None and ans[0].split(" ") != names:
        ctx.report_k("Gen/PendingPop.lean lists %s, translator lists %s (stale generated file?)" % (ans[0], names),
                     {"kind": "placement", "class": "*"})
    # linearisation and decorator flags against the live classes (only those whose module imports here)
    import importlib
    checked = 0
    for c in tbl:
        mod, cls = c["name"].rsplit(".", 1)
        try:
            k = getattr(importlib.import_module(mod), cls)
        except Exception:
            continue
        real = ["%s.%s" % (b.__module__, b.__name__) for b in k.__mro__ if b is not object]
        real = [r for r in real if r in set(names)]
        if real != c["mro"]:
            ctx.report_k("linearisation of %s: translator %s, Python %s" % (c["name"], c["mro"], real),
                         {"kind": "placement", "class": c["name"]})
        for m in c["defines"]:
            f = k.__dict__.get(m)
            if isinstance(f, property):
                f = f.fget
            wrapped = False
            g = f
            while g is not None:
                if getattr(getattr(g, "__code__", None), "co_name", "") == "clear_pending_pop_wrap":
                    wrapped = True
                g = getattr(g, "__wrapped__", None)
            if bool(wrapped) != (m in c["decorated"]):
                ctx.report_k("decorator on %s.%s: translator %s, live class %s" % (c["name"], m, m in c["decorated"], bool(wrapped)),
                             {"kind": "placement", "class": c["name"]})
        checked += 1
    ctx.count("table_classes_checked_live", checked)
    return placements



# --------------------------------------------------------------------------------------------- real wrappers
NATIVE_CHILD = r"""
import sys, json, warnings
warnings.simplefilter("ignore")
from pysmt.shortcuts import Symbol, Not, Solver, Or, Plus, Int
from pysmt.typing import INT
syms = [Symbol("v%d" % i) for i in range(80)]
form = {}
for i, s in enumerate(syms):
    form[2 * i] = s
    form[2 * i + 1] = Not(s)
fid = {v: k for k, v in form.items()}
job = json.load(sys.stdin)
out = {}
# linearisation and decorators of the live native wrapper classes (compared with the translator's table)
cls_info = {}
for mod, cls in job.get("classes", []):
    try:
        import importlib
        k = getattr(importlib.import_module(mod), cls)
    except Exception as e:
        continue
    deco = []
    for m, f in k.__dict__.items():
        if isinstance(f, property):
            f = f.fget
        g = f
        while g is not None:
            if getattr(getattr(g, "__code__", None), "co_name", "") == "clear_pending_pop_wrap":
                deco.append(m)
                break
            g = getattr(g, "__wrapped__", None)
    cls_info[mod + "." + cls] = {"mro": ["%s.%s" % (b.__module__, b.__name__) for b in k.__mro__ if b is not object],
                                 "decorated": sorted(deco)}
out["_classes"] = cls_info
for name in job["solvers"]:
    res = []
    try:
        for toks in job["seqs"]:
            obs = []
            with Solver(name=name, logic="QF_LRA") as s:
                for t in toks:
                    try:
                        k = t[0]
                        if k == "a": s.add_assertion(form[int(t[1:])]); obs.append(None)
                        elif k == "u": s.push(int(t[1:])); obs.append(None)
                        elif k == "p": s.pop(int(t[1:])); obs.append(None)
                        elif k == "r": s.reset_assertions(); obs.append(None)
                        elif k == "s": obs.append(bool(s.solve()))
                        elif k == "g":
                            obs.append([fid.get(x, -1) for x in s.assertions] if hasattr(s, "assertions") else None)
                        elif k == "w":
                            i = int(t[1:])
                            obs.append(bool(s.solve([Or(form[i], form[i + 2])])))
                        elif k == "W":
                            try:
                                s.solve([Plus(Symbol("ix", INT), Int(1))])
                                obs.append("no exception")
                            except Exception as e:
                                obs.append("raised")
                        elif k == "q":
                            f = form[int(t[2:])]
                            q = t[1]
                            if q == "s": obs.append(bool(s.is_sat(f)))
                            elif q == "v": obs.append(bool(s.is_valid(f)))
                            elif q == "u": obs.append(bool(s.is_unsat(f)))
                            else: obs.append(bool(s.solve([f])))
                    except Exception as e:
                        obs.append("exc " + type(e).__name__)
                        break
            res.append(obs)
        out[name] = res
    except Exception as e:
        out[name] = "unavailable: %s %s" % (type(e).__name__, str(e)[:200])
json.dump(out, sys.stdout)
"""


def consistent(lits):
    s = set(lits)
    return not any((x ^ 1) in s for x in s)


def native_check(ctx, seqs=None, solvers=("z3", "cvc5")):
    """Secondary run (thorough tier): the same kind of sequences on the REAL Z3Solver and CVC5Solver, under the
    tooling interpreter that has the native modules.  Formulas are literals, so the truth of every query is known:
    sat iff no atom occurs with both polarities among the live assertions (+ the query's formula)."""
    import json
    import shutil
    exe = shutil.which("python3-vt")
    if exe is None:
        ctx.extra["native_wrappers"] = "python3-vt not available; skipped"
        return
    rng = ctx.rng
    given = seqs is not None
    seqs = list(seqs or [])
    for _ in range(0 if given else 400):
        seqs.append(native_sequence(rng))
    _native_compare(ctx, exe, seqs, list(solvers))


def native_sequence(rng):
    n = rng.randrange(4, 25)
    toks, nlev = [], 1
    for i in range(n):
        r = rng.random()
        lit = 2 * rng.randrange(4) + rng.randrange(2)
        if r < 0.25:
            toks.append("a%d" % lit)
        elif r < 0.37:
            k = rng.randrange(3)
            toks.append("u%d" % k)
            nlev += k
        elif r < 0.50:
            k = rng.randrange(min(3, nlev))
            toks.append("p%d" % k)
            nlev -= k
        elif r < 0.55:
            toks.append("r")
            nlev = 1
        elif r < 0.70:
            toks.append("s")
        elif r < 0.86:
            q = rng.choice("svua")
            toks.append("q%s%d" % (q, 2 * rng.randrange(4) + (0 if q == "v" else rng.randrange(2))))
        elif r < 0.92:
            # non-literal assumption Or(l, l') (Z3Solver: temporary level), or one that cannot be asserted
            toks.append(rng.choice(["w%d" % (2 * rng.randrange(3) + rng.randrange(2)), "W"]))
        else:
            toks.append("g")
    return toks


def _native_compare(ctx, exe, seqs, solvers):
    import json
    env = dict(os.environ, PYTHONPATH=common.REPO)
    try:
        sys.path.insert(0, os.path.join(common.VERIF, "tools"))
        import gen_pendingpop
        tbl = gen_pendingpop.table(common.REPO)
        wanted = [c["name"].rsplit(".", 1) for c in tbl]
        p = subprocess.run([exe, "-c", NATIVE_CHILD], input=json.dumps({"solvers": solvers, "seqs": seqs, "classes": wanted}),
                           capture_output=True, text=True, timeout=600, env=env, cwd="/tmp")
        out = json.loads(p.stdout)
    except Exception as e:
        ctx.extra["native_wrappers"] = "child failed: %r" % (e,)
        return
    summary = {}
    live = out.pop("_classes", {})
    names = set(c["name"] for c in tbl)
    for c in tbl:
        lv = live.get(c["name"])
        if lv is None:
            continue
        real = [m for m in lv["mro"] if m in names]
        if real != c["mro"]:
            ctx.report_k("linearisation of %s: translator %s, Python %s" % (c["name"], c["mro"], real),
                         {"kind": "placement", "class": c["name"]})
        if sorted(c["decorated"]) != sorted(m for m in lv["decorated"]):
            ctx.report_k("decorated methods of %s: translator %s, live class %s" % (c["name"], sorted(c["decorated"]), lv["decorated"]),
                         {"kind": "placement", "class": c["name"]})
    summary["classes_checked_live"] = sorted(n.rsplit(".", 1)[1] for n in live)
    for name, res in out.items():
        if isinstance(res, str):
            summary[name] = res
            continue
        nq = 0
        for toks, obs in zip(seqs, res):
            o = Oracle()
            for i, t in enumerate(toks):
                tt = t if t[0] in "aupr" else "c"
                o.step(tt)
                if i >= len(obs):
                    break
                live = o.live()
                exp = None
                if t[0] == "w":
                    a, b = int(t[1:]), int(t[1:]) + 2
                    exp = consistent(live) and not ((a ^ 1) in live and (b ^ 1) in live)
                elif t == "W":
                    exp = "raised" if name == "z3" else obs[i]      # only Z3Solver asserts such assumptions itself
                elif t == "s":
                    exp = consistent(live)
                elif t == "g":
                    exp = live if obs[i] is not None else None
                elif t[0] == "q":
                    f = int(t[2:])
                    exp = {"s": consistent(live + [f]), "a": consistent(live + [f]), "u": not consistent(live + [f]),
                           "v": not consistent(live + [f + 1])}[t[1]]
                if t[0] in "sqgwW":
                    nq += 1
                ctx.evaluations += 1
                if obs[i] != exp:
                    prev = next((op_kind(x) for x in reversed(toks[:i]) if is_oneshot(x)), "none")
                    ctx.report_s({"oracle": "assert-stack", "part": "native", "solver": name, "call": op_kind(t),
                                  "pending_from": prev},
                                 "real %s wrapper: step %d `%s` of `%s` answers %r, expected %r (live assertions %s)"
                                 % (name, i, t, " ".join(toks), obs[i], exp, ids(live)),
                                 {"kind": "native", "solver": name, "ops": " ".join(toks), "step": i})
                    break
        summary[name] = "%d sequences, %d answers compared" % (len(res), nq)
    ctx.extra["native_wrappers"] = summary

# --------------------------------------------------------------------------------------------- run
def plan(ctx, placements):
    quick = ctx.tier == "quick"
    tasks = []
    sd = ctx.rng.randrange(1 << 30)
    # scripts: exhaustive
    sdepth = 5 if quick else 6
    for a in SCRIPT_ALPHA:
        if quick:
            tasks.append({"kind": "script_enum", "depth": sdepth, "prefix": [a]})
        else:
            for b in SCRIPT_ALPHA:
                tasks.append({"kind": "script_enum", "depth": sdepth, "prefix": [a, b]})
    tasks.append({"kind": "script_enum", "depth": 1 if quick else 2, "prefix": []})
    nrand = 1500 if quick else 40000
    for j in range(4 if quick else 28):
        tasks.append({"kind": "script_random", "seed": sd + j, "n": nrand // (4 if quick else 28)})
    # solvers: the placements of the concrete classes of the tree (S + K) ...
    by_cfg = {}
    for n, p in sorted(placements.items()):
        if p["concrete"] and p["usesBaseIsSat"]:
            by_cfg.setdefault(cfg_bits(p), []).append(n.rsplit(".", 1)[1])
    tdepth = 4 if quick else 5
    info_depths = {}
    zdepth = 4 if quick else 6          # thorough: the placement of Z3Solver / MathSAT5Solver / BoolectorSolver goes one deeper
    for cfg, who in sorted(by_cfg.items()):
        w = "+".join(who)
        alpha = track_alpha(cfg)
        deep = "Z3Solver" in who and zdepth > tdepth
        # Portfolio's placement differs from Z3Solver's only in `_reset_assertions` / no native stack: one level less
        d = tdepth if (quick or "Portfolio" not in who) else tdepth - 1
        # a class without the assumption path behaves, on every history of the alphabet, like the class with the
        # same decorators that has it (the path is only entered by `w`/`W`): one level less is enough there
        twin = cfg[:9] + "10" in by_cfg or cfg[:9] + "11" in by_cfg
        if cfg[9] == "0" and twin:
            d -= 1
        elif cfg[10] == "0" and cfg[:10] + "1" in by_cfg and cfg[6] == "1":
            # MathSAT5Solver = Z3Solver's placement without the guard: histories without `W` behave identically, the
            # unguarded path is enumerated to full depth on the direct classes (BddSolver, …) and sampled here
            d -= 1
        info_depths[cfg] = d
        for a in alpha:
            if d >= 5:
                for b in alpha:
                    tasks.append({"kind": "track_enum", "cfg": cfg, "who": w, "depth": d, "prefix": [a, b], "search": True})
            else:
                tasks.append({"kind": "track_enum", "cfg": cfg, "who": w, "depth": d, "prefix": [a], "search": True})
            if deep:
                # one level deeper without the no-op symbols push 0 / pop 0 (they are covered up to `tdepth`)
                for b in alpha:
                    tasks.append({"kind": "track_enum", "cfg": cfg, "who": w, "depth": zdepth, "prefix": [a, b],
                                  "search": True, "drop": ["u0", "p0"] + FAILING})
        # sequences of length 1 (and, for 2-symbol prefixes, those whose second call is already illegal)
        tasks.append({"kind": "track_enum", "cfg": cfg, "who": w, "depth": 2 if d >= 5 else 1, "prefix": [], "search": True})
        for j in range(2 if quick else 8):
            tasks.append({"kind": "track_random", "cfg": cfg, "who": w, "seed": sd + 100 + j,
                          "n": 600 if quick else 2500, "search": True})
    # two solver instances alive at the same time (state must not leak from one to the other)
    cfgs_real = sorted(by_cfg)
    for cfg, who in sorted(by_cfg.items()):
        w = "+".join(who)
        if cfg[6] == "1":
            tasks.append({"kind": "duo_enum", "cfg": cfg, "who": w, "depth": 4 if quick else 5})
        for j in range(1 if quick else 4):
            for other in cfgs_real:
                tasks.append({"kind": "duo_random", "cfgs": [cfg, other], "who": w + "|" + "+".join(by_cfg[other]),
                              "seed": sd + 300 + j, "n": 150 if quick else 1500})
    # the text route: the same scripts written as SMT-LIB text and read back by SmtLibParser ((push 0), (pop), …)
    tasks.append({"kind": "script_text_enum", "depth": 3 if quick else 4})
    tasks.append({"kind": "script_text_random", "seed": sd + 600, "n": 300 if quick else 4000})
    # extreme but legal sizes
    big = 300 if quick else 2000
    for j, fam in enumerate(["goals", "levels", "asserts", "objectives"]):
        tasks.append({"kind": "script_large", "family": fam, "n": big if fam != "asserts" else 5 * big, "seed": sd + 700 + j,
                      "text": quick or fam != "asserts"})
    for j, fam in enumerate(["goals", "levels"]):
        for k in range(2 if quick else 6):
            tasks.append({"kind": "script_large", "family": fam, "n": 25 + 5 * k, "seed": sd + 750 + 10 * j + k, "text": True})
    for cfg, who in sorted(by_cfg.items()):
        if "Z3Solver" in who or "Portfolio" in who or "BddSolver" in who:
            tasks.append({"kind": "track_large", "cfg": cfg, "who": "+".join(who), "n": 300 if quick else 600, "seed": sd + 800})
    # the glue route: scripts executed on a tracking solver through SmtLibScript.evaluate / InterpreterOMT
    for cfg, who in sorted(by_cfg.items()):
        if cfg[6] != "1" or cfg[7] != "1":
            continue
        w = "+".join(who)
        if "Z3Solver" in who:
            tasks.append({"kind": "route_enum", "cfg": cfg, "who": w, "depth": 4 if quick else 5, "omt": False})
            tasks.append({"kind": "route_enum", "cfg": cfg, "who": w, "depth": 4 if quick else 6, "omt": True})
        tasks.append({"kind": "route_random", "cfg": cfg, "who": w, "seed": sd + 500, "n": 200 if quick else 2000, "omt": False})
        tasks.append({"kind": "route_random", "cfg": cfg, "who": w, "seed": sd + 501, "n": 150 if quick else 1500, "omt": True})
        if "Z3Solver" in who:
            tasks.append({"kind": "route_enum", "cfg": cfg, "who": w, "depth": 3 if quick else 4, "omt": False, "text": True})
            tasks.append({"kind": "route_random", "cfg": cfg, "who": w, "seed": sd + 502, "n": 100 if quick else 1000, "omt": True, "text": True})
    # ... and deliberately different placements (K only: the model must follow the code there too)
    others = [o + sfx for o, sfx in zip(
        ["111110110", "111111011", "000000011", "000000111", "110111111", "111011111", "101111111",
         "011111111", "111101111", "111111110", "111110111", "111111111", "111110011"],
        ["00", "10", "00", "11", "10", "11", "00", "10", "11", "00", "10", "00", "11"])]
    for _ in range(3 if quick else 12):
        bits = "".join(ctx.rng.choice("01") for _ in range(6))
        tr = ctx.rng.choice("01")
        ap = ctx.rng.choice("01")
        others.append(bits + tr + ("1" if tr == "0" else ctx.rng.choice("01")) + "1" + ap + (ctx.rng.choice("01") if ap == "1" else "0"))
    for cfg in others:
        if cfg in by_cfg:
            continue
        tasks.append({"kind": "track_random", "cfg": cfg, "who": "synthetic", "seed": sd + 7, "n": 250 if quick else 2000,
                      "search": False})
        if not quick:
            for a in track_alpha(cfg):
                tasks.append({"kind": "track_enum", "cfg": cfg, "who": "synthetic", "depth": 3, "prefix": [a], "search": False})
    return tasks, {"script_depth": sdepth, "track_depth": tdepth, "z3_depth": zdepth, "depths": info_depths, "placements_searched": {c: w for c, w in by_cfg.items()}}


class _LastResort(object):
    """If everything else fails (a hang in a place no deadline covers), end the check instead of waiting: kill the
    workers and exit with the infrastructure-error code.  Never triggered on a healthy run."""

    def __init__(self, seconds):
        import threading
        self.pool = None
        self.timer = threading.Timer(seconds, self.fire)
        self.timer.daemon = True
        self.timer.start()
        self.seconds = seconds

    def fire(self):
        try:
            sys.stderr.write("INFRA-ERROR: C16 harness still running after %d s; workers killed, giving up\n" % self.seconds)
            sys.stderr.flush()
            kill_drivers()
            if self.pool is not None:
                self.pool.terminate()
        finally:
            os._exit(2)

    def cancel(self):
        self.timer.cancel()


def run(ctx):
    try:
        py()
    except Exception as e:
        ctx.infra("cannot import pysmt from %s: %r" % (common.REPO, e))
        return
    gen, tbl = load_table(ctx)
    placements = check_table(ctx, gen, tbl)
    tasks, info = plan(ctx, placements)
    CFG_CLASSES.update({c: "+".join(w) for c, w in info["placements_searched"].items()})
    agg = {}
    t0 = time.time()
    bundles = pack(tasks, ctx.workers * (2 if ctx.tier == "quick" else 12))
    global BUNDLE_BUDGET_S
    # nothing may wait unbounded: every bundle has its own budget, every case its own deadline (SIGALRM), and the
    # pool as a whole is abandoned at the tier's deadline
    BUNDLE_BUDGET_S = 100.0 if ctx.tier == "quick" else 800.0
    global DRIVER_TIMEOUT_S
    DRIVER_TIMEOUT_S = 75.0 if ctx.tier == "quick" else 600.0
    try:
        _lean_env()
    except Exception as e:
        ctx.report_l("driver C16 does not run", str(e))
    overall = max(30.0, min(ctx.time_left() - 10, 130.0 if ctx.tier == "quick" else 1100.0))
    t_end = time.time() + overall
    done = 0
    deadline.armed = watchdog_install()     # shrinking re-runs failing cases in this process: same per-case deadline
    last_resort = _LastResort(overall + 60.0)
    if ctx.workers > 1:
        import multiprocessing
        pool = multiprocessing.get_context("fork").Pool(ctx.workers)
        last_resort.pool = pool
        try:
            it = pool.imap_unordered(work, bundles, chunksize=1)
            for _ in range(len(bundles)):
                try:
                    res = it.next(timeout=max(1.0, t_end - time.time()))
                except multiprocessing.TimeoutError:
                    ctx.infra("C16 harness: %d of %d bundles did not finish within %d s; abandoned (no case may hang the check)"
                              % (len(bundles) - done, len(bundles), overall))
                    break
                t1 = time.time()
                merge(ctx, res, agg)
                done += 1
                if os.environ.get("VERIF_DEBUG"):
                    sys.stderr.write("bundle %d/%d at %.1fs (merge %.1fs) %r\n" % (done, len(bundles), time.time() - t0, time.time() - t1,
                                                                                {k: v for k, v in res.counters.items() if "stopped" in k or "skipped" in k}))
        finally:
            pool.terminate()
            pool.join()
    else:
        for b in bundles:
            if time.time() > t_end:
                ctx.infra("C16 harness: %d of %d bundles not run within %d s" % (len(bundles) - done, len(bundles), overall))
                break
            merge(ctx, work(b), agg)
            done += 1
    last_resort.cancel()
    ctx.extra["driver_processes"] = len(bundles) + 1
    if ctx.tier == "thorough":
        native_check(ctx)
    ctx.extra["exhaustive"] = True
    ctx.extra["exhaustive_scope"] = ("scripts: every sequence over the 13-symbol alphabet up to length %d; solvers: every sequence "
                                     "over the 18/20-symbol alphabet up to length %d (see `exhaustive_depth_per_placement`) for each placement in `placements_searched`"
                                     % (info["script_depth"], info["track_depth"])) + (
        "; Z3Solver placement: additionally length %d over the 12 symbols without push 0 / pop 0 / raising queries" % info["z3_depth"]
        if info["z3_depth"] > info["track_depth"] else "")
    ctx.extra["placements_searched"] = info["placements_searched"]
    ctx.extra["assumption_path_unprotected"] = sorted(n.rsplit(".", 1)[1] for n, p in placements.items()
                                                       if p["concrete"] and p["assumePush"] and not p["assumeGuarded"])
    ctx.extra["exhaustive_depth_per_placement"] = info["depths"]
    ctx.extra["transitions"] = agg.get("steps", 0)
    ctx.extra["states"] = len(agg.get("states", ()))
    ctx.extra["work_units"] = len(tasks)
    ctx.extra["ks_wall_s"] = round(time.time() - t0, 1)
    if agg.get("nontrivial_not_stored"):
        ctx.extra["nontrivial_not_stored"] = agg["nontrivial_not_stored"]


def replay(ctx, rep):
    r = rep.get("replay", rep)
    deadline.armed = watchdog_install()
    try:
        gen, tbl = load_table(ctx)
        for n in [c["name"] for c in tbl]:
            p = gen.placement(tbl, n)
            if p["concrete"] and p["usesBaseIsSat"]:
                b = cfg_bits(p)
                CFG_CLASSES[b] = (CFG_CLASSES[b] + "+" if b in CFG_CLASSES else "") + n.rsplit(".", 1)[1]
    except Exception:
        pass
    res = Result()
    kind = r.get("kind")
    if kind in ("script", "strict"):
        toks = r["cmds"].split()
        o = Oracle()
        legal = True
        for t in toks:
            if not o.legal(t):
                legal = False
                break
            o.step(t)
        check_scripts([(toks, legal)], res, text=r.get("text", False))
    elif kind == "track":
        toks = r["ops"].split()
        o = Oracle()
        legal = True
        for t in toks:
            tt = t if t[0] in "aupr" else "c"
            if not o.legal(tt):
                legal = False
                break
            o.step(tt)
        check_tracks(r["cfg"], r.get("who", "replay"), [(toks, legal)], res, True)
    elif kind == "route":
        toks = r["cmds"].split()
        check_routes(r["cfg"], r.get("who", "replay"), [(toks, legal_of([t for t in toks if t != "G"], False))], res,
                     text=r.get("text", False))
    elif kind == "duo":
        check_duos(tuple(r["cfgs"]), r.get("who", "replay"), [parse_duo(r["history"])], res)
    elif kind == "placement":
        gen, tbl = load_table(ctx)
        check_table(ctx, gen, tbl)
    elif kind == "native":
        n0 = len(ctx.s_violations)
        native_check(ctx, seqs=[r["ops"].split()], solvers=(r["solver"],))
        for v in ctx.s_violations[n0:]:
            print("replay: still failing: %s" % v["what"])
        if len(ctx.s_violations) == n0:
            print("replay: the case passes on the current tree (%s)" % (ctx.extra.get("native_wrappers"),))
        return
    merge(ctx, res, {})
    for (sig, what, rp) in res.s:
        print("replay: still failing: %s" % what)
    for (what, rp) in res.k:
        print("replay: model/implementation differ: %s" % what)
    if not res.s and not res.k:
        print("replay: the case passes on the current tree")
