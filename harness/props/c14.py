"""C14 -- results do not depend on the environment's history.

A history (random prefix of 5-60 API calls over a pool of formulas sharing sub-DAGs with the probe) followed by a
probe call is compared with the same probe in a fresh twin Environment (same seeded pool, no other call): by
AC-canonical structural key (arguments of commutative operators sorted, fresh symbols anonymised), and by `is` when
the probe is repeated.  The walker-level part (which callbacks the probe still runs after the history, memo keys)
is compared exactly with the Lean model.
"""
import io
import random
import sys
import warnings

warnings.simplefilter("ignore")

import common
from props import c20 as W
from props import c15 as P15

import pysmt.operators as op
import pysmt.typing as types
from pysmt.environment import Environment, push_env, pop_env
from pysmt.fnode import FNode
from pysmt.oracles import get_logic
import pysmt.rewritings as rewritings
from pysmt.smtlib.parser import SmtLibParser
from pysmt.smtlib.script import smtlibscript_from_formula

LEAN_MODULES = ["PySMT.Props.C14"]
RULE = ("history = 5..60 random API calls (construction, get_type, simplify, substitute with different maps, free "
        "variables / atoms / qf / types / theory, get_logic, size with all six measures, DAG and tree printing, HR "
        "serialisation, re-parsing, nnf / aig / prenex) over a seeded pool whose formulas share sub-DAGs with the probe, "
        "then one probe call of any of these kinds; plus the listed adversarial orders, constants with look-alike arguments "
        "in bare environments, options changed in OTHER environments vs the defaults of a new one, declared sorts named "
        "like built-in ones next to same-shaped types over the built-in ones; non-trivial = at least one "
        "history call walked a node of the probe's DAG with the walker the probe uses")
ASSUMPTIONS = [
    "comparison with the twin is modulo the order of commutative arguments and the names of fresh symbols, as the "
    "property states; repeated calls are compared by object identity when the result is a formula",
    "the twin builds the same seeded pool (constructions only) before the probe",
    "TheoryOracle aliasing is tested (parent/child orders, mutation of returned Theory objects is not attempted), not modelled",
]


# ----------------------------------------------------------------------------------------------
# API calls: (kind, argument indices) interpreted against (env, fam)
# ----------------------------------------------------------------------------------------------
def formulas(env, fam):
    """the indexable universe of a scenario: auxiliary formulas + all Boolean pool members + atoms over terms"""
    m = env.formula_manager
    Pl = fam.pool
    F = P15.aux_formulas(env, fam) + list(Pl["b"])
    F += [m.LE(t, Pl["i"][0]) for t in Pl["i"][-4:]]
    F += [m.BVULE(t, Pl["v"][1]) for t in Pl["v"][-4:]]
    F += [m.Equals(m.Select(t, Pl["i"][0]), Pl["i"][1]) for t in Pl["a"][-3:]]
    F += [m.LT(t, Pl["r"][1]) for t in Pl["r"][-3:]]
    return F + nf_formulas(env, fam) + uf_formulas(env, fam)


N_NF = 12     # block of formulas whose simplification is not a fixpoint of the simplifier; index -N_UF - N_NF + j


def nf_formulas(env, fam):
    m = env.formula_manager
    Pl = fam.pool
    x, y = Pl["i"][0], Pl["i"][1]
    r, q = Pl["r"][0], Pl["r"][1]
    I = m.Int
    N = [
        m.LE(m.Plus(x, m.Times(x, I(-1))), y),                          # (x - x) <= y, then 0 <= y
        m.LE(m.Plus(I(1), m.Minus(I(2), y)), x),                        # ((2 + 1) - y), then (3 - y)
        m.LE(m.Plus(x, m.Minus(I(0), x)), y),
        m.LE(m.Plus(I(1), m.Plus(I(2), m.Minus(I(3), y))), x),
        m.LE(m.Plus(m.Minus(I(2), y), m.Minus(I(3), x)), y),
        m.LT(m.Plus(r, m.Times(r, m.Real(-1))), q),
        m.Equals(m.Plus(x, m.Times(I(-1), x)), y),
        m.And(m.LE(m.Plus(x, m.Times(x, I(-1))), y), m.LE(y, x)),
        m.Or(m.LE(m.Plus(I(1), m.Minus(I(2), y)), x), Pl["b"][0]),
        m.LE(m.Plus(m.Plus(x, m.Times(x, I(-1))), m.Plus(I(1), m.Minus(I(2), y))), x),
        m.Ite(Pl["b"][0], m.LE(m.Plus(x, m.Minus(I(0), x)), y), m.LE(y, m.Plus(I(1), m.Minus(I(2), y)))),
        m.LE(m.Minus(m.Plus(x, y), x), m.Plus(y, m.Times(y, I(-1)))),
    ]
    assert len(N) == N_NF
    return N


N_UF = 24     # size of the block below; adversarial orders address it from the end: index -N_UF + j


def uf_formulas(env, fam):
    """applications of function symbols with mixed signatures (Bool-sorted later arguments, 1-/2-/3-ary, Bool and
    non-Bool results) and function-free formulas sharing their arguments (the queries)"""
    m = env.formula_manager
    Pl = fam.pool
    INT, BOOL, REAL = types.INT, types.BOOL, types.REAL
    BV8 = types.BVType(8)
    FT = types.FunctionType
    x, y = Pl["i"][0], Pl["i"][1]
    p0, p1 = Pl["b"][0], Pl["b"][1]
    v, w = Pl["v"][0], Pl["v"][1]
    r, q = Pl["r"][0], Pl["r"][1]
    a = Pl["a"][0]
    pIB = m.Symbol("pIB", FT(BOOL, [INT, BOOL]))
    pBI = m.Symbol("pBI", FT(BOOL, [BOOL, INT]))
    fIB = m.Symbol("fIB", FT(INT, [INT, BOOL]))
    f1 = m.Symbol("f1", FT(INT, [INT]))
    p1b = m.Symbol("p1b", FT(BOOL, [BOOL]))
    f2 = m.Symbol("f2", FT(INT, [INT, INT]))
    pBB = m.Symbol("pBB", FT(BOOL, [BOOL, BOOL]))
    hVB = m.Symbol("hVB", FT(BV8, [BV8, BOOL]))
    pRBB = m.Symbol("pRBB", FT(BOOL, [REAL, BOOL, BOOL]))
    pAB = m.Symbol("pAB", FT(BOOL, [types.ArrayType(INT, INT), BOOL]))
    sxy = m.Plus(x, y)
    U = [
        m.Function(pIB, [x, p0]),                                   # 0  histories
        m.And(m.Function(pIB, [x, p0]), p0),                        # 1
        m.Function(pBI, [p0, x]),                                   # 2
        m.Equals(m.Function(fIB, [x, p1]), y),                      # 3
        m.LE(m.Function(f1, [x]), y),                               # 4
        m.Function(p1b, [p0]),                                      # 5
        m.Function(pBB, [p0, p1]),                                  # 6
        m.BVULE(m.Function(hVB, [v, p0]), w),                       # 7
        m.Function(pRBB, [r, p0, m.Not(p1)]),                       # 8
        m.Function(pIB, [sxy, m.Or(p0, p1)]),                       # 9
        m.Function(pAB, [a, p1]),                                   # 10
        m.LE(m.Function(f2, [x, y]), m.Function(fIB, [y, m.TRUE()])),   # 11
        m.Or(m.Function(pIB, [m.Function(f1, [x]), p0]), m.Function(pBB, [m.Function(p1b, [p0]), p1])),  # 12
        m.Function(pIB, [m.Int(3), p0]),                            # 13
        # queries: function-free formulas sharing the first arguments
        m.LT(x, y),                                                 # 14
        m.LE(m.Plus(x, m.Int(1)), y),                               # 15
        m.BVULT(v, w),                                              # 16
        m.LT(r, q),                                                 # 17
        m.LE(sxy, x),                                               # 18
        m.Or(p0, p1),                                               # 19
        m.Equals(m.Select(a, x), y),                                # 20
        m.Equals(x, m.Int(3)),                                      # 21
        x if False else m.LE(x, x),                                 # 22
        m.And(m.LT(x, y), m.BVULT(v, w), m.LT(r, q)),               # 23
    ]
    assert len(U) == N_UF
    return U


def theory_memo_stale(env):
    """independent oracle: every cached answer of env.theoryo equals the answer of a newly made TheoryOracle"""
    fresh = env.TheoryOracleClass(env)
    for k, val in list(env.theoryo.memoization.items()):
        if str(fresh.get_theory(k)) != str(val):
            return k
    return None


def submaps(env, fam):
    m = env.formula_manager
    Pl = fam.pool
    x, y = Pl["i"][0], Pl["i"][1]
    p0, p1 = Pl["b"][0], Pl["b"][1]
    v, w = Pl["v"][0], Pl["v"][1]
    r, q = Pl["r"][0], Pl["r"][1]
    a, b = Pl["a"][0], Pl["a"][1]
    return [{x: y}, {y: x}, {x: m.Int(7)}, {p0: p1, v: w}, {r: q, a: b}, {x: m.Plus(y, m.Int(1)), p1: m.Not(p0)},
            {m.Plus(x, y): x}, {v: m.BVNot(w)}, {}]


KINDS = ["simplify", "substitute", "fv", "atoms", "qf", "types", "theory", "logic", "get_type", "size",
         "smtlib_dag", "smtlib_tree", "serialize", "reparse", "nnf", "aig", "prenex", "build", "const",
         "bad_substitute", "bad_build", "bad_simplify", "simplify_result", "simplify_around", "subst_interp",
         "theory_mutate"]

N_INTERP = 4      # interpretations of f1 / f2 used by `subst_interp`: j % N_INTERP (the last one: none)


def interpretations_of(env, fam, j):
    """the `interpretations` argument number j: f1(k) = k + 1 | k * 2 | f1 and f2 | nothing"""
    from pysmt.substituter import FunctionInterpretation
    m = env.formula_manager
    INT = types.INT
    FT = types.FunctionType
    f1 = m.Symbol("f1", FT(INT, [INT]))
    f2 = m.Symbol("f2", FT(INT, [INT, INT]))
    k, k2 = m.Symbol("fp_k", INT), m.Symbol("fp_k2", INT)
    return [
        {f1: FunctionInterpretation([k], m.Plus(k, m.Int(1)))},
        {f1: FunctionInterpretation([k], m.Times(k, m.Int(2)))},
        {f1: FunctionInterpretation([k], m.Minus(k, m.Int(3))), f2: FunctionInterpretation([k, k2], m.Plus(k, k2))},
        None,
    ][j % N_INTERP]

_SCRATCH = {}


def scratch_simplified(fam, i):
    """the simplification of formula i computed in a separate environment (kept alive with its result)"""
    seed, n = fam.seed_n
    key = (seed, n, i)
    if key not in _SCRATCH:
        env2, fam2 = P15.make_env(seed, n)
        push_env(env2)
        try:
            F2 = formulas(env2, fam2)
            _SCRATCH[key] = (env2, F2[i % len(F2)].simplify())
        finally:
            pop_env()
    return _SCRATCH[key][1]

CONSTS = [("Int", 1), ("Int", 1.0), ("Int", True), ("Real", 2), ("Real", 2.0), ("Real", True), ("Real", (4, 2)),
          ("Real", 1), ("Int", 0), ("Int", False), ("Real", 0.5), ("Real", (1, 2)), ("Int", 2 ** 70), ("Real", 1.0),
          ("Int", -1), ("Real", -1.0), ("String", "a"), ("BV", (1, 8)), ("BV", (1.0, 8)), ("Bool", True), ("Bool", 1)]


def tree_size(f):
    """size of the tree expansion, computed by the harness (no pySMT walker involved)"""
    memo = {}
    stack = [f]
    while stack:
        n = stack[-1]
        if n in memo:
            stack.pop()
            continue
        pend = [c for c in n.args() if c not in memo]
        if pend:
            stack.extend(pend)
        else:
            memo[n] = 1 + sum(memo[c] for c in n.args())
            stack.pop()
    return memo[f]


def do_call(env, fam, F, maps, call):
    """executes one API call; returns the raw result"""
    kind, i, j = call
    m = env.formula_manager
    f = F[i % len(F)]
    if kind == "simplify":
        return f.simplify()
    if kind == "substitute":
        return f.substitute(maps[j % len(maps)])
    if kind == "fv":
        return f.get_free_variables()
    if kind == "atoms":
        return f.get_atoms()
    if kind == "qf":
        return env.qfo.is_qf(f)
    if kind == "types":
        return env.typeso.get_types(f)
    if kind == "theory":
        return str(env.theoryo.get_theory(f))
    if kind == "logic":
        return str(get_logic(f, env))
    if kind == "get_type":
        return env.stc.get_type(f)
    if kind == "size":
        return f.size(j % 6)
    if kind == "smtlib_dag":
        return f.to_smtlib(daggify=True)
    if kind == "smtlib_tree":
        return f.to_smtlib(daggify=False) if tree_size(f) < 3000 else f.to_smtlib(daggify=True)
    if kind == "serialize":
        return f.serialize(threshold=40)
    if kind == "reparse":
        buf = io.StringIO()
        smtlibscript_from_formula(f).serialize(buf, daggify=bool(j % 2))
        return SmtLibParser(env).get_script(io.StringIO(buf.getvalue())).get_last_formula()
    if kind == "nnf":
        return rewritings.nnf(m.Not(f) if j % 2 else f, env)
    if kind == "aig":
        return rewritings.aig(f, env)
    if kind == "prenex":
        return rewritings.prenex_normal_form(f, env)
    if kind == "build":
        g = F[j % len(F)]
        return [m.And(f, g), m.Or(m.Not(f), g), m.Iff(f, g), m.Ite(f, g, m.Not(g)), m.Implies(g, f)][(i + j) % 5]
    if kind in ("simplify_result", "simplify_around"):
        # the node that an earlier simplify(F[i]) returned, built here by construction (no simplifier involved),
        # is simplified on its own / inside a larger formula
        g = m.normalize(scratch_simplified(fam, i))
        if kind == "simplify_result":
            return g.simplify()
        return m.Or(m.Not(g), fam.pool["b"][1], m.And(g, fam.pool["b"][0])).simplify()
    if kind == "theory_mutate":
        # a client modifies the Theory object it received (get_theory hands out a copy since fix f034130)
        th = env.theoryo.get_theory(f)
        th.strings = True
        th.uninterpreted = True
        th.linear = False
        return "mutated"
    if kind == "subst_interp":
        # substitute with map (j // N_INTERP) and interpretation (j % N_INTERP) of the function symbols
        return f.substitute(maps[(j // N_INTERP) % len(maps)], interpretations=interpretations_of(env, fam, j))
    if kind == "bad_substitute":      # ill-typed substitution: raises somewhere inside the walk
        Pl = fam.pool
        bad = [{Pl["i"][0]: m.Real(1)}, {Pl["b"][0]: Pl["i"][0]}, {Pl["v"][0]: m.BV(1, 4)}, {Pl["i"][1]: Pl["r"][0]},
               {Pl["a"][0]: Pl["i"][0]}, {Pl["r"][0]: Pl["i"][0]}]
        return f.substitute(bad[j % len(bad)])
    if kind == "bad_build":
        Pl = fam.pool
        return [lambda: m.Plus(Pl["i"][-1], Pl["r"][0]), lambda: m.And(f, Pl["i"][0]), lambda: m.BVULT(Pl["i"][0], Pl["v"][0]),
                lambda: m.BVAdd(Pl["v"][-1], m.BV(1, 4)), lambda: m.Ite(Pl["i"][0], f, f)][j % 5]()
    if kind == "bad_simplify":
        Pl = fam.pool
        return m.And(f, m.LT(m.Pow(m.Ite(Pl["b"][0], m.Real(0), m.Real(0)), m.Real(-1)), Pl["r"][0])).simplify()
    if kind == "const":
        ctor, val = CONSTS[j % len(CONSTS)]
        if ctor == "BV":
            return m.BV(val[0], val[1])
        return getattr(m, ctor)(val)
    raise ValueError(kind)


def run_history(seed, n, hist, probe, repeat=False, check_memo=True):
    """-> (outcome of the probe, identity of the repetition)"""
    env, fam = P15.make_env(seed, n)
    fam.seed_n = (seed, n)
    push_env(env)
    try:
        F = formulas(env, fam)
        maps = submaps(env, fam)
        for c in hist:
            P15.outcome(lambda: do_call(env, fam, F, maps, c))
        k, v = P15.outcome(lambda: do_call(env, fam, F, maps, probe))
        same = None
        if repeat and k == "ok":
            k2, v2 = P15.outcome(lambda: do_call(env, fam, F, maps, probe))
            if isinstance(v, FNode):
                same = (k2 == "ok" and v2 is v)
            else:
                same = (k2 == "ok" and W.result_key(v2) == W.result_key(v))
        key = (k, W.result_key(v, ac=True) if k == "ok" else v)
        exact = (k, W.result_key(v, ac=False) if k == "ok" else v)
        if check_memo:
            st = theory_memo_stale(env)
            if st is not None:
                key = (key, "stale-theory-memo")
        return key, exact, same
    finally:
        pop_env()


def random_call(rng, probe_i=None):
    kind = rng.choice(KINDS)
    i = probe_i if (probe_i is not None and rng.random() < 0.35) else rng.randrange(1000)
    return (kind, i, rng.randrange(1000))


NO_FRESH = set(KINDS) - {"prenex"}


def check_case(ctx, seed, n, hist, probe, tag, stats, repeat=True):
    key, exact, same = run_history(seed, n, hist, probe, repeat=repeat)
    ref, ref_exact, _ = run_history(seed, n, [], probe)
    ctx.count("probe:" + probe[0])
    if exact != ref_exact:
        stats["ac_needed"] += 1
    ok = True
    if key != ref:
        # shrink: delete history calls while the difference persists
        h = list(hist)
        attempts = 0
        changed = True
        stats["shrunk"] = stats.get("shrunk", 0) + 1
        while changed and attempts < (200 if stats["shrunk"] <= 6 else 0):
            changed = False
            for idx in range(len(h) - 1, -1, -1):
                attempts += 1
                h2 = h[:idx] + h[idx + 1:]
                if run_history(seed, n, h2, probe)[0] != ref:
                    h = h2
                    changed = True
                if attempts >= 200:
                    break
        culprit = h[-1][0] if h else "none"
        stale = isinstance(key, tuple) and len(key) == 2 and key[1] == "stale-theory-memo"
        ctx.report_s({"oracle": "stale-theory-memo" if stale else "history", "probe": probe[0], "hist": culprit, "tag": tag},
                     "probe %s after the history %s gives %s; in a fresh environment %s" % (
                         probe, h, str(key)[:100], str(ref)[:100]),
                     {"seed": seed, "n": n, "hist": h, "probe": list(probe), "tag": tag})
        ok = False
    if same is False and probe[0] in NO_FRESH:
        ctx.report_s({"oracle": "repeat", "probe": probe[0], "tag": tag},
                     "repeating the probe %s returns a different object" % (probe,),
                     {"seed": seed, "n": n, "hist": hist, "probe": list(probe), "tag": tag, "repeat": True})
        ok = False
    return ok


# ----------------------------------------------------------------------------------------------
# adversarial orders (DESIGN C14)
# ----------------------------------------------------------------------------------------------
def adversarial(rng):
    """[(tag, history, probe)] over the formula indices of `formulas` (0 = phi, 1..3 aux, then pool)"""
    out = []
    for a in range(6):
        for b in range(6):
            if a != b:
                out.append(("size-A-then-B", [("size", 0, a), ("size", 2, b), ("size", 1, a)], ("size", 0, b)))
    # get_logic / theory of a parent before or after its child (0 = phi is the parent of everything)
    for child in (1, 2, 3, 5, 8, 13):
        out.append(("logic-parent-then-child", [("logic", 0, 0), ("theory", 0, 0)], ("logic", child, 0)))
        out.append(("logic-child-then-parent", [("logic", child, 0), ("theory", child, 0)], ("logic", 0, 0)))
        out.append(("theory-parent-then-child", [("theory", 0, 0)], ("theory", child, 0)))
        out.append(("theory-child-then-parent", [("theory", child, 0), ("logic", child, 0)], ("theory", 0, 0)))
    # function symbols of mixed signatures: analyse an application, then a formula sharing its arguments
    H = list(range(0, 14))
    Q = list(range(14, 24))
    u = lambda j: -N_UF + j
    for h in H:
        for qq in Q:
            out.append(("uf-app-then-shared", [("logic", u(h), 0)], ("logic", u(qq), 0)))
            out.append(("uf-app-then-shared", [("theory", u(h), 0)], ("theory", u(qq), 0)))
    for h in H:
        for h2 in H:
            if h != h2 and (h + h2) % 3 == 0:
                out.append(("uf-app-then-app", [("theory", u(h), 0), ("logic", u(h), 0)], ("theory", u(h2), 0)))
    for qq in Q:
        for h in (0, 1, 3, 7, 8, 9, 12):
            out.append(("uf-shared-then-app", [("logic", u(qq), 0)], ("logic", u(h), 0)))
            out.append(("uf-parent-child", [("theory", u(h), 0), ("theory", u(qq), 0), ("logic", u(12), 0)],
                        ("theory", u(23), 0)))
    # a client mutating the returned Theory must not change later answers
    for i in (0, 1, 2, 3, u(14), u(16), u(0), u(12)):
        out.append(("theory-client-mutation", [("theory_mutate", i, 0)], ("logic", i, 0)))
        out.append(("theory-client-mutation", [("logic", i, 0), ("theory_mutate", i, 0)], ("theory", i, 0)))
    # same substitution map, different (or no) interpretation of one function symbol, over shared f(...) sub-terms
    for h in (3, 4, 11, 12):                  # formulas of the function-symbol block that apply f1 / f2 / fIB
        for mp in (8, 0, 2):                  # the maps {} , {x: y}, {x: 7}
            for j1 in range(N_INTERP):
                for j2 in range(N_INTERP):
                    if j1 != j2:
                        out.append(("interp-then-other", [("subst_interp", u(h), j1 + N_INTERP * mp)],
                                    ("subst_interp", u(h), j2 + N_INTERP * mp)))
            out.append(("interp-then-plain", [("subst_interp", u(h), 0 + N_INTERP * mp)], ("substitute", u(h), mp)))
            out.append(("interp-then-plain", [("substitute", u(h), mp)], ("subst_interp", u(h), 1 + N_INTERP * mp)))
    # simplify(f), then simplify of the node it returned (built by construction) -- alone and inside a formula
    nf = lambda j: -N_UF - N_NF + j
    for j in range(N_NF):
        out.append(("simplify-then-result", [("simplify", nf(j), 0)], ("simplify_result", nf(j), 0)))
        out.append(("simplify-then-result", [("simplify", nf(j), 0)], ("simplify_around", nf(j), 0)))
        out.append(("simplify-then-result", [("simplify", nf(j), 0), ("simplify", nf((j + 1) % N_NF), 0)],
                    ("simplify_result", nf(j), 0)))
    for i in (0, 1, 2, 3, 5, 9):
        out.append(("simplify-then-result", [("simplify", i, 0)], ("simplify_result", i, 0)))
    # failing calls in the history, then the same kind of call with good arguments
    for bk, gk in (("bad_substitute", "substitute"), ("bad_simplify", "simplify"), ("bad_build", "build"),
                   ("bad_substitute", "simplify"), ("bad_simplify", "substitute")):
        for j in range(6):
            for i in (0, 1, 2, 3):
                out.append(("after-failure", [(bk, i, j)], (gk, i, j)))
    # constant caches: every ordered pair of constant requests
    for i in range(len(CONSTS)):
        for j in range(len(CONSTS)):
            if i != j and CONSTS[i][0] == CONSTS[j][0]:
                out.append(("const-cache", [("const", 0, i)], ("const", 0, j)))
    # substitute with sigma1 then sigma2 on the same formula
    for s1 in range(9):
        for s2 in range(9):
            if s1 != s2:
                out.append(("subst-s1-then-s2", [("substitute", 0, s1)], ("substitute", 0, s2)))
    # simplify / nnf / reparse interplay on the same formula
    for k1 in ("simplify", "nnf", "aig", "prenex", "reparse", "smtlib_dag", "fv", "atoms"):
        for k2 in ("simplify", "nnf", "aig", "reparse", "smtlib_dag", "atoms", "types"):
            out.append(("same-formula", [(k1, 0, 1), (k1, 2, 0)], (k2, 0, 1)))
    return out


# ----------------------------------------------------------------------------------------------
# walker-level correspondence with the model: history of walks, then the probe walk
# ----------------------------------------------------------------------------------------------
def walker_history_case(ctx, rng, seed, n, reqs):
    specs = W.make_ops()
    spec = specs[rng.randrange(len(specs))]
    env, fam = P15.make_env(seed, n)
    push_env(env)
    try:
        F = formulas(env, fam)
        roots = [F[rng.randrange(len(F))] for _ in range(rng.randint(1, 5))] + [fam.phi]
        orig = list(roots)
        if spec.name == "nnf_neg":
            roots = [env.formula_manager.Not(r) for r in roots]
        w = spec.make(env)
        keyf = spec.key
        children = spec.children(w) if spec.children else W.plain_children(w)
        direct = spec.direct or (lambda k: False)
        order, index, chl = W.abstract_graph([keyf(r) for r in roots], children, direct)
        pre_memo = sorted(index[k] for k in w.memoization if k in index)
        fd = spec.fun_dict(w) if spec.fun_dict else None
        obs = []
        ops = []
        for r, r0 in zip(roots, orig):
            tap = W.Tap(w, fun_dict=fd)
            fam2 = W.Fam(env, fam.name, fam.params, r0, fam.leaf, fam.rep, 0, fam.decls)
            k, v = P15.outcome(lambda: spec.call(env, w, fam2))
            st = tap.restore()
            trace = [index[x] for x in tap.trace if x in index]
            obs.append({"out": "ok" if k == "ok" else "err", "c": W.show_list(True, trace), "st": str(len(w.stack)),
                        "m": W.show_list(True, sorted(index[x] for x in w.memoization if x in index)),
                        "p": str(st.pushes), "i": str(st.pops), "foreign": len(tap.trace) - len(trace)})
            ops.append("w%d" % index[keyf(r)])
        short = keyf(roots[0]) is roots[0]
        req = W.make_request(chl, [index[k] for k in order if direct(k)], w.invalidate_memoization, short, True,
                             pre_memo, ops)
        reqs.append((req, obs, {"seed": seed, "n": n, "walker": spec.name, "ops": ops}))
        shared = len(roots) > 1
        ctx.case(("walker-history", spec.name, seed, tuple(ops)) if shared else None)
    finally:
        pop_env()


FRESH_USERS = [
    # user symbols named like the templates of fresh symbols
    [("FV0", "b"), ("FV1", "i"), ("FV7", "b"), ("__z0", "i")],
    [("FV0", "i"), ("FV1", "b"), ("FV2", "r"), ("__z0", "b"), ("__z1", "i")],
    [("FV0", "b"), ("FV1", "b"), ("FV2", "b"), ("FV3", "b"), ("__z0", "i"), ("z0", "i")],
]


def fresh_ops(env, U):
    """operations that introduce fresh symbols: [(name, input formulas, thunk)]"""
    m = env.formula_manager
    INT, BOOL, REAL = types.INT, types.BOOL, types.REAL
    a, b = m.Symbol("a", BOOL), m.Symbol("b", BOOL)
    x, y = m.Symbol("x", INT), m.Symbol("y", INT)
    ub = [u for u in U if u.symbol_type().is_bool_type()]
    ui = [u for u in U if u.symbol_type().is_int_type()]
    u0 = ub[0] if ub else a
    i0 = ui[0] if ui else x
    f = m.Symbol("f", types.FunctionType(INT, [INT]))
    qv = m.Symbol("qv", BOOL)
    cnf_in = m.And(m.Not(u0), m.Or(a, b), m.Iff(a, m.And(b, u0)))
    prenex_in = m.And(u0, m.ForAll([qv], m.Or(qv, a)), m.Not(m.Exists([qv], m.And(qv, b))))
    ack_in = m.And(m.Equals(m.Function(f, [i0]), m.Function(f, [y])), m.LE(m.Function(f, [m.Plus(i0, y)]), x), u0)
    text = "(declare-fun x () Int)(define-fun g ((z Int)) Int (+ z 1))(assert (> (g x) 0))"
    return [
        ("FreshSymbol", [], lambda: m.FreshSymbol()),
        ("FreshSymbol-int", [], lambda: m.FreshSymbol(INT)),
        ("FreshSymbol-template", [], lambda: m.FreshSymbol(INT, "__z%d")),
        ("FreshSymbol-template2", [], lambda: m.FreshSymbol(REAL, "z%d")),
        ("cnf", [cnf_in], lambda: rewritings.cnf(cnf_in, env)),
        ("prenex", [prenex_in], lambda: rewritings.prenex_normal_form(prenex_in, env)),
        ("ackermann", [ack_in], lambda: rewritings.Ackermannizer(env).do_ackermannization(ack_in)),
        ("define-fun", [], lambda: [c.args for c in SmtLibParser(env).get_script(io.StringIO(text)).commands
                                    if c.name in ("define-fun", "assert")]),
    ]


def fresh_case(ctx, users, neutral, n_hist, opi):
    """-> (outcome kind, key up to fresh / user names, list of fresh symbols that already existed)"""
    env = Environment()
    push_env(env)
    try:
        m = env.formula_manager
        ty = {"b": types.BOOL, "i": types.INT, "r": types.REAL}
        U = [m.Symbol(("usr%d" % k) if neutral else nm, ty[t]) for k, (nm, t) in enumerate(users)]
        for k in range(n_hist):
            P15.outcome(lambda: m.FreshSymbol([types.BOOL, types.INT][k % 2]))
        name, inputs, th = fresh_ops(env, U)[opi]
        before = set(m.symbols.values())
        in_syms = set()
        for f in inputs:
            in_syms |= set(f.get_free_variables())
        k, v = P15.outcome(th)
        if k != "ok":
            return name, ("exc", v), []
        res_nodes = []

        def collect(o):
            if isinstance(o, FNode):
                res_nodes.append(o)
            elif isinstance(o, (list, tuple, set, frozenset)):
                for z in o:
                    collect(z)
        collect(v)
        res_syms = set()
        for f in res_nodes:
            res_syms |= set(f.get_free_variables()) | ({f} if f.is_symbol() else set())
            for nd in W.abstract_graph(f, lambda k_: k_.args())[0]:
                if nd.is_quantifier():
                    res_syms |= set(nd.quantifier_vars())
        introduced = res_syms - in_syms - set(U) - {s for s in before if s.symbol_name() in ("a", "b", "x", "y", "f", "qv")}
        stale = sorted(s.symbol_name() for s in (res_syms - in_syms) if s in before and s in set(U))
        clash = sorted(s.symbol_name() for s in introduced if s in before)
        labels = {u: ("user", i) for i, u in enumerate(U)}
        for s_ in res_syms:
            if s_ not in before:
                labels[s_] = ("fresh", str(s_.symbol_type()))
        key = W.result_key([W.structural_key(f, ac=True, labels=labels) for f in res_nodes])
        return name, ("ok", key), stale + clash
    finally:
        pop_env()


def fresh_symbol_cases(ctx, rng, quick):
    for ui, users in enumerate(FRESH_USERS):
        for opi in range(8):
            for n_hist in ([0, 1, 3] if quick else [0, 1, 2, 3, 5, 8]):
                name, got, clash = fresh_case(ctx, users, False, n_hist, opi)
                _, ref, _ = fresh_case(ctx, users, True, 0, opi)
                ctx.case(("fresh", ui, name, n_hist))
                ctx.count("fresh:" + name)
                replay = {"fresh": True, "users": ui, "op": opi, "history": n_hist}
                if clash:
                    ctx.report_s({"oracle": "fresh-symbol-clash", "probe": name},
                                 "%s returned / introduced the symbol(s) %s, which the user had already created "
                                 "(user symbols %s, %d earlier FreshSymbol calls)" % (name, clash, users, n_hist), replay)
                elif got != ref:
                    ctx.report_s({"oracle": "fresh-symbol-history", "probe": name},
                                 "%s with user symbols named %s after %d FreshSymbol calls gives %s; with neutral "
                                 "names and no history %s" % (name, [u[0] for u in users], n_hist, str(got)[:80],
                                                              str(ref)[:80]), replay)


# ----------------------------------------------------------------------------------------------
# the symbol table (model: Impl/ManagerTables.lean, theorem symbol_after_history / symbol_history_iff)
# ----------------------------------------------------------------------------------------------
def symbol_types():
    INT, BOOL, REAL = types.INT, types.BOOL, types.REAL
    FT, AT = types.FunctionType, types.ArrayType
    return [INT, BOOL, REAL, types.BVType(8), types.BVType(4), types.STRING,
            FT(INT, [INT]), FT(BOOL, [INT]), FT(INT, [INT, INT]), FT(INT, [REAL]), FT(REAL, [INT]),
            FT(INT, [BOOL, INT]), FT(BOOL, [BOOL]), AT(INT, INT), AT(INT, BOOL), AT(REAL, INT),
            FT(AT(INT, INT), [INT]), FT(INT, [AT(INT, INT)])]


def symbol_cases(ctx, rng, count):
    """Symbol(n, tau) after a history of symbol requests: K = the closed form proved in Lean (the first type a name
    was requested with decides), S = equal to the fresh environment whenever the model says the history is irrelevant"""
    TY = symbol_types()
    names = ["f", "g", "x", "sym"]
    for it in range(count):
        hist = [(rng.choice(names), rng.randrange(len(TY))) for _ in range(rng.randint(1, 7))]
        if it % 3 == 0:
            # adversarial: the same name with two function types (other result / parameters / arity)
            a, b = rng.sample(range(6, 13), 2)
            hist = [("f", a)] + hist
            probe = ("f", b)
        else:
            probe = (rng.choice(names), rng.randrange(len(TY)))
        env = Environment()
        m = env.formula_manager
        for nm, ti in hist:
            P15.outcome(lambda: m.Symbol(nm, TY[ti]))
        got = P15.outcome(lambda: m.Symbol(probe[0], TY[probe[1]]))
        fresh = P15.outcome(lambda: Environment().formula_manager.Symbol(probe[0], TY[probe[1]]))
        first = next((ti for nm, ti in hist if nm == probe[0]), None)      # firstType h n
        predicted_ok = first is None or TY[first] == TY[probe[1]]
        key = lambda o: (o[0], (o[1].symbol_name(), str(o[1].symbol_type())) if o[0] == "ok" else o[1])
        ctx.case(("symbol", tuple(hist), probe))
        ctx.count("symbol-table-cases")
        replay = {"symbols": True, "hist": hist, "probe": list(probe)}
        if (got[0] == "ok") != predicted_ok:
            ctx.report_k("Symbol(%s, %s) after %s: pySMT %s, the symbol-table model predicts %s" % (
                probe[0], TY[probe[1]], [(n_, str(TY[t_])) for n_, t_ in hist], got[0],
                "ok" if predicted_ok else "PysmtTypeError"), replay)
        if predicted_ok and key(got) != key(fresh):
            ctx.report_s({"oracle": "symbol-table", "probe": "Symbol", "hist": "Symbol"},
                         "Symbol(%s, %s) after the history %s gives %s; in a fresh environment %s" % (
                             probe[0], TY[probe[1]], [(n_, str(TY[t_])) for n_, t_ in hist], key(got), key(fresh)), replay)
        if got[0] == "ok" and got[1].symbol_type() != TY[probe[1]]:
            ctx.report_s({"oracle": "symbol-type", "probe": "Symbol", "hist": "Symbol"},
                         "Symbol(%s, %s) after the history %s returns a symbol of type %s (a fresh environment returns "
                         "the requested type, the unchanged code raises PysmtTypeError)" % (
                             probe[0], TY[probe[1]], [(n_, str(TY[t_])) for n_, t_ in hist], got[1].symbol_type()), replay)
        if got[0] == "ok" and got[1] not in m:
            ctx.report_s({"oracle": "ownership", "probe": "Symbol"}, "Symbol returned a node of another manager", replay)


# ----------------------------------------------------------------------------------------------
# other environments of the same process
# ----------------------------------------------------------------------------------------------
def owned(env, node):
    """every node of the DAG belongs to the environment's formula manager"""
    m = env.formula_manager
    for nd in W.abstract_graph(node, lambda k_: k_.args())[0]:
        if nd not in m:
            return False
    return True


def blueprint(env, variant):
    """the same constructions, through the manager and through the module-level shortcuts (which use the CURRENT
    environment); `variant` changes the types bound to the shared names in the other environments"""
    import pysmt.shortcuts as sc
    from pysmt.parsing import parse
    m = env.formula_manager
    INT, REAL, BOOL, STRING = types.INT, types.REAL, types.BOOL, types.STRING
    tx = [INT, REAL, BOOL][variant % 3]
    x = m.Symbol("shared_x", tx)
    s_ = m.Symbol("shared_s", STRING)
    p = m.Symbol("shared_p", BOOL)
    one = {INT: m.Int(1), REAL: m.Real(1), BOOL: m.TRUE()}[tx]
    atom = m.Equals(x, one) if tx is not BOOL else m.Iff(x, one)
    out = {}
    out["string"] = m.String("hello world")
    out["string2"] = sc.String("hello world")
    out["str_eq"] = m.Equals(s_, m.String("shared text"))
    out["int"] = sc.Int(42)
    out["real"] = sc.Real((3, 4))
    out["bv"] = sc.BV(5, 8)
    out["formula"] = sc.And(sc.Or(p, atom), sc.Not(sc.Equals(s_, sc.String("hello world"))))
    out["parse"] = parse("(shared_p & (! shared_p))")
    out["parse_roundtrip"] = parse(out["formula"].serialize())
    out["simplify"] = sc.simplify(sc.And(p, sc.TRUE(), atom))
    out["substitute"] = out["str_eq"].substitute({m.String("shared text"): m.String("hello world")})
    out["smtlib"] = sc.to_smtlib(out["formula"])
    out["fresh"] = sc.FreshSymbol(INT)
    return out


def other_environment_cases(ctx, rng, rounds):
    """histories in OTHER environments of the process, then the same blueprint in a new current environment: the
    results must belong to the current environment and have the blueprint's structure"""
    for it in range(rounds):
        n_other = rng.randint(1, 3)
        how = ["push", "with", "push"][it % 3]
        keys = []
        envs = []
        for j in range(n_other + 1):
            env = Environment()
            variant = 0 if j == n_other else rng.randrange(3)
            if how == "with" and j == n_other:
                with env:
                    res = P15.outcome(lambda: blueprint(env, variant))
            else:
                push_env(env)
                try:
                    res = P15.outcome(lambda: blueprint(env, variant))
                finally:
                    pop_env()
            envs.append((env, variant, res))
        env, variant, res = envs[-1]
        ctx.case(("other-envs", it, n_other, how))
        ctx.count("other-environment-cases")
        replay = {"other_envs": True, "n_other": n_other, "how": how}
        if res[0] != "ok":
            ctx.report_s({"oracle": "other-environment", "probe": "blueprint"},
                         "after %d other environments had run the blueprint (%s), the blueprint raises %s in a new "
                         "current environment" % (n_other, [v for _, v, _ in envs[:-1]], res[1]), replay)
            continue
        out = res[1]
        # reference: the same blueprint with the same variant in an environment created before any other
        for name, val in out.items():
            if isinstance(val, FNode):
                if not owned(env, val):
                    ctx.report_s({"oracle": "ownership", "probe": name},
                                 "%s built in the current environment (after %d other environments used the same "
                                 "names / texts) contains a node of ANOTHER formula manager" % (name, n_other),
                                 dict(replay, probe=name))
                    break
        else:
            ref = REFERENCE_BLUEPRINT.get(0)
            for name, val in out.items():
                if name == "fresh":
                    continue
                k = W.result_key(val, ac=True)
                if ref is not None and ref[name] != k:
                    ctx.report_s({"oracle": "other-environment", "probe": name},
                                 "%s differs from the result of the same construction in the first environment of the "
                                 "process" % name, dict(replay, probe=name))
                    break
            if out["parse_roundtrip"] is not out["formula"]:
                ctx.report_s({"oracle": "other-environment", "probe": "parse_roundtrip"},
                             "parse(f.serialize()) is not f in the current environment", replay)
            if out["string"] is not out["string2"]:
                ctx.report_s({"oracle": "other-environment", "probe": "string-identity"},
                             "String(v) through the manager and through the shortcut are different nodes", replay)


REFERENCE_BLUEPRINT = {}


def reference_blueprint():
    env = Environment()
    push_env(env)
    try:
        out = blueprint(env, 0)
        REFERENCE_BLUEPRINT[0] = {k: W.result_key(v, ac=True) for k, v in out.items()}
    finally:
        pop_env()


THEORY_FIELDS = ["arrays", "arrays_const", "bit_vectors", "floating_point", "integer_arithmetic", "real_arithmetic",
                 "integer_difference", "real_difference", "linear", "uninterpreted", "custom_type", "strings"]


def enc_dag(nodes_wanted):
    """one wire DAG (`T n defs`) containing all the given FNodes; returns (text, index by FNode)"""
    import wire
    idx = {}
    defs = []
    stack = [(f, False) for f in reversed(nodes_wanted)]
    while stack:
        n, expanded = stack.pop()
        if n in idx:
            continue
        if expanded:
            nt = n.node_type()
            if nt >= len(wire.OPNAMES):
                raise wire.OutOfFragment("custom node type")
            a = n.args()
            defs.append("%s %s %d%s" % (wire.OPNAMES[nt], wire._payload(n), len(a),
                                        "".join(" %d" % idx[c] for c in a)))
            idx[n] = len(defs) - 1
        else:
            stack.append((n, True))
            for c in reversed(n.args()):
                if c not in idx:
                    stack.append((c, False))
    return "T %d %s" % (len(defs), " ".join(defs)), idx


def theory_heap_case(ctx, rng, seed, n, reqs):
    """a history of get_theory calls on env.theoryo vs the heap model: cached values and alias partition"""
    import wire
    env, fam = P15.make_env(seed, n)
    push_env(env)
    try:
        F = formulas(env, fam)
        U = F[-N_UF:]
        hist = [rng.choice(U if rng.random() < 0.5 else F) for _ in range(rng.randint(2, 9))]
        for f in hist:
            env.theoryo.get_theory(f)
        memo = dict(env.theoryo.memoization)
        try:
            text, idx = enc_dag(hist + list(memo))
        except wire.OutOfFragment:
            ctx.count("theory-heap-out-of-fragment")
            ctx.case(None)
            return
        order = sorted(idx, key=lambda k: idx[k])
        impl = []
        for nd in order:
            th = memo.get(nd)
            impl.append(None if th is None else
                        (id(th), "".join("1" if getattr(th, f) else "0" for f in THEORY_FIELDS)))
        req = "theoryheap %d %s %s" % (len(hist), " ".join(str(idx[f]) for f in hist), text)
        reqs.append((req, impl, {"seed": seed, "n": n, "history": [str(f)[:60] for f in hist]}))
        ctx.case(("theory-heap", seed, tuple(idx[f] for f in hist)))
    finally:
        pop_env()


def compare_theory_heap(ctx, req, impl, replay, ans):
    if not ans.startswith("ok"):
        ctx.report_k("theory heap model rejected the request: %s" % ans[:100], dict(replay, req=req[:1500]))
        return
    fields = ans.split(" ")[1:]
    if len(fields) != len(impl):
        ctx.report_k("theory heap model: %d nodes, implementation %d" % (len(fields), len(impl)), replay)
        return
    m_part, i_part = {}, {}
    for i, (fm, im) in enumerate(zip(fields, impl)):
        if (fm == "-") != (im is None):
            ctx.report_k("TheoryOracle memo: node %d memoised in %s only" % (i, "the model" if im is None else "pySMT"),
                         dict(replay, req=req[:1500]))
            return
        if im is None:
            continue
        addr, bits = fm.split(":")
        if bits != im[1]:
            ctx.report_k("TheoryOracle memo: cached Theory of node %d is %s, model %s (fields %s)" % (
                i, im[1], bits, ",".join(f for f, a, b in zip(THEORY_FIELDS, im[1], bits) if a != b)),
                dict(replay, req=req[:1500], node=i))
            return
        m_part.setdefault(addr, []).append(i)
        i_part.setdefault(im[0], []).append(i)
    mp = sorted(map(tuple, m_part.values()))
    ip = sorted(map(tuple, i_part.values()))
    if mp != ip:
        diff = [c for c in ip if c not in mp][:2]
        ctx.report_k("TheoryOracle memo: alias partition differs: pySMT shares one Theory object between nodes %s, "
                     "the model's classes are all %s" % (diff, "singletons" if all(len(c) == 1 for c in mp) else mp[:3]),
                     dict(replay, req=req[:1500]))


# ----------------------------------------------------------------------------------------------
# round 5: constants in a BARE environment, process-wide defaults, confusable sorts
# ----------------------------------------------------------------------------------------------
import copy as _copy
from fractions import Fraction as _PyFraction
import pysmt.factory as _PF
from pysmt.logics import QF_BV as _QF_BV, QF_UFLIRA as _QF_UFLIRA

# the environments of make_env already hold Int(1), Real(2)...: a constructor argument that merely COMPARES equal to
# an accepted one (True == 1, 1.0 == 1, Fraction(1) == 1) must be judged in an environment that has built nothing
BARE_CONSTS = CONSTS + [("BV", (True, 8)), ("BV", (False, 8)), ("BV", (0, 8)), ("Int", _PyFraction(1)),
                        ("Real", _PyFraction(2)), ("Real", _PyFraction(1, 2)), ("BV", (_PyFraction(1), 8)),
                        ("BV", (1, 8.0)), ("BV", (1, True)), ("Int", 1), ("BV", (1, 1))]


def bare_const(m, c):
    ctor, val = c
    k, v = P15.outcome(lambda: m.BV(val[0], val[1]) if ctor == "BV" else getattr(m, ctor)(val))
    if k != "ok":
        return (k, v)
    pl = v._content.payload
    return (k, W.result_key(v, ac=False), type(pl).__name__, repr(pl))


def bare_const_cases(ctx):
    for i, ci in enumerate(BARE_CONSTS):
        for j, cj in enumerate(BARE_CONSTS):
            if i == j or ci[0] != cj[0]:
                continue
            ma = Environment().formula_manager
            bare_const(ma, ci)
            got = bare_const(ma, cj)
            ref = bare_const(Environment().formula_manager, cj)
            ctx.case(("bare-const", i, j))
            ctx.count("bare-const-cases")
            if got != ref:
                ctx.report_s({"oracle": "history-vs-twin", "probe": "const", "hist": "const", "tag": "bare-const"},
                             "%s(%r) after %s(%r) in an environment that had built nothing else gives %s; as the first "
                             "call of a new environment %s" % (cj[0], cj[1], ci[0], ci[1], got, ref),
                             {"bare_const": [i, j]})


PREF_REF = _copy.deepcopy(_PF.DEFAULT_PREFERENCES)
_GENERIC = [0]


def _add_generic(e):
    _GENERIC[0] += 1
    e.factory.add_generic_solver("h14_%d" % _GENERIC[0], ["/bin/true"], [_QF_UFLIRA], unsat_core_support=True)


PREF_OPS = [
    ("set_solver_preference_list", lambda e: e.factory.set_solver_preference_list(["bdd", "z3"])),
    ("set_qelim_preference_list", lambda e: e.factory.set_qelim_preference_list(["selfsub", "shannon"])),
    ("set_interpolation_preference_list", lambda e: e.factory.set_interpolation_preference_list(["z3"])),
    ("set_optimizer_preference_list", lambda e: e.factory.set_optimizer_preference_list(["z3_sua"])),
    ("set_preference_list(unsat cores)",
     lambda e: e.factory.set_preference_list("Solver supporting Unsat Cores", ["z3"])),
    ("add_generic_solver", _add_generic),
    ("default_logic=", lambda e: setattr(e.factory, "default_logic", _QF_BV)),
    ("default_qe_logic=", lambda e: setattr(e.factory, "default_qe_logic", _QF_BV)),
    ("enable_infix_notation=", lambda e: setattr(e, "enable_infix_notation", True)),
    ("enable_div_by_0=", lambda e: setattr(e, "enable_div_by_0", False)),
    ("allow_empty_var_names=", lambda e: setattr(e, "allow_empty_var_names", True)),
    ("add_dynamic_walker_function",
     lambda e: e.add_dynamic_walker_function(op.new_node_type(), type(e.simplifier), lambda *a, **k: None)),
]


def defaults_of(env):
    """what a NEW environment starts with (all of it is reachable through the public API)"""
    f = env.factory
    out = {"preferences": _copy.deepcopy(f.preferences),
           "module DEFAULT_PREFERENCES": _copy.deepcopy(_PF.DEFAULT_PREFERENCES),
           "default_logic": str(f.default_logic), "default_qe_logic": str(f.default_qe_logic),
           "all_solvers": sorted(f.all_solvers()), "all_qelims": sorted(f.all_quantifier_eliminators()),
           "enable_infix_notation": env.enable_infix_notation, "enable_div_by_0": env.enable_div_by_0,
           "allow_empty_var_names": env.allow_empty_var_names, "dwf": sorted(map(str, env.dwf)),
           "qelim_class": P15.outcome(lambda: type(f.QuantifierEliminator()).__name__)}
    return out


DEFAULTS_REF = {}


def preference_cases(ctx, rng, rounds):
    """OTHER environments change their own preference lists / options; a new Environment must start with the defaults
    the process started with (recorded before any change: PREF_REF at import, the rest by the first call here)"""
    if not DEFAULTS_REF:
        DEFAULTS_REF.update(defaults_of(Environment()))
        if DEFAULTS_REF["preferences"] != PREF_REF:
            ctx.report_s({"oracle": "process-defaults", "probe": "preferences", "hist": "import"},
                         "the preferences of the first Environment differ from DEFAULT_PREFERENCES at import",
                         {"prefs": []})
    hists = [[i] for i in range(len(PREF_OPS))]
    for _ in range(rounds):
        hists.append([rng.randrange(len(PREF_OPS)) for _ in range(rng.randint(2, 4))])
    for hist in hists:
        others = [Environment() for _ in range(1 + len(hist) % 2)]
        for k, oi in enumerate(hist):
            P15.outcome(lambda: PREF_OPS[oi][1](others[k % len(others)]))
        got = defaults_of(Environment())
        names = [PREF_OPS[oi][0] for oi in hist]
        ctx.case(("prefs", tuple(hist)))
        ctx.count("process-default-cases")
        for field, ref in DEFAULTS_REF.items():
            if got[field] != ref:
                ctx.report_s({"oracle": "process-defaults", "probe": field, "hist": names[0] if len(names) == 1 else "mixed"},
                             "after OTHER environments called %s, a new Environment starts with %s = %s; the process "
                             "started with %s" % (names, field, str(got[field])[:160], str(ref)[:160]),
                             {"prefs": hist, "field": field})
                # restore, so that one defect is reported once per history and not by every later case
                for key, val in PREF_REF.items():
                    _PF.DEFAULT_PREFERENCES[key] = list(val)
                break


def type_key(ty):
    if ty.is_function_type():
        return ("fun", type_key(ty.return_type), tuple(type_key(p) for p in ty.param_types))
    if ty.is_array_type():
        return ("arr", type_key(ty.index_type), type_key(ty.elem_type))
    if ty.is_bv_type():
        return ("bv", ty.width)
    return (type(ty).__name__, ty.basename, bool(getattr(ty, "custom_type", False)),
            tuple(type_key(a) for a in (ty.args or ())))


SORT_NAMES = ["Int", "Real", "Bool", "String", "S"]
BUILTIN = {"Int": types.INT, "Real": types.REAL, "Bool": types.BOOL, "String": types.STRING}
SORT_SHAPES = ["plain", "fun1", "fun2", "arr", "fun_arr", "arr_arr"]


def sort_build(env, nm, declared, shape, prefix):
    """declares symbols of the given shape over the sort `nm` (built-in or DECLARED with the same name) and returns
    a formula using them"""
    tm, m = env.type_manager, env.formula_manager
    X = tm.Type(nm) if declared else BUILTIN[nm]
    a = m.Symbol(prefix + "a", X)
    if shape == "plain":
        t = a
    elif shape == "fun1":
        t = m.Function(m.Symbol(prefix + "f", tm.FunctionType(X, [X])), [a])
    elif shape == "fun2":
        t = m.Function(m.Symbol(prefix + "g", tm.FunctionType(X, [X, X])), [a, a])
    elif shape == "arr":
        t = m.Select(m.Symbol(prefix + "q", tm.ArrayType(X, X)), a)
    elif shape == "fun_arr":
        t = m.Function(m.Symbol(prefix + "h", tm.FunctionType(X, [tm.ArrayType(X, X)])),
                       [m.Symbol(prefix + "q", tm.ArrayType(X, X))])
    else:
        t = m.Select(m.Select(m.Symbol(prefix + "qq", tm.ArrayType(X, tm.ArrayType(X, X))), a), a)
    return m.EqualsOrIff(t, a)


def sort_probe(env, nm, declared, shape):
    def go():
        f = sort_build(env, nm, declared, shape, "p_")
        buf = io.StringIO()
        smtlibscript_from_formula(f).serialize(buf, daggify=False)
        syms = sorted(env.fvo.get_free_variables(f), key=lambda s_: s_.symbol_name())
        return {"formula": W.result_key(f, ac=False),
                "symbol types": [(s_.symbol_name(), type_key(s_.symbol_type())) for s_ in syms],
                "get_type": type_key(env.stc.get_type(f.arg(0))),
                "custom types": sorted(repr(type_key(t)) for t in env.typeso.get_types(f, custom_only=True)),
                "all types": sorted(repr(type_key(t)) for t in env.typeso.get_types(f)),
                "logic": str(get_logic(f)),
                # the declarations come out in the iteration order of a set of nodes: compared as a multiset of lines
                "script lines": sorted(buf.getvalue().splitlines())}
    return P15.outcome(go)


def sort_case(hist, probe):
    env = Environment()
    push_env(env)
    try:
        for k, (nm, declared, shape) in enumerate(hist):
            P15.outcome(lambda: sort_build(env, nm, declared, shape, "h%d_" % k))
        return sort_probe(env, *probe)
    finally:
        pop_env()


def sort_cases(ctx, rng, rounds):
    """a sort DECLARED with the name of a built-in one, and the same-shaped types over the built-in one built earlier
    in the same environment (and the other way round) -- against the probe alone in a new environment"""
    cases = []
    for nm in SORT_NAMES[:4]:
        for shape in SORT_SHAPES:
            for declared in (True, False):
                cases.append(([(nm, not declared, shape)], (nm, declared, shape)))
    for _ in range(rounds):
        nm = rng.choice(SORT_NAMES)
        variant = lambda name: True if name not in BUILTIN else rng.random() < 0.5
        hist = []
        for _k in range(rng.randint(1, 4)):
            hn = nm if rng.random() < 0.7 else rng.choice(SORT_NAMES)
            hist.append((hn, variant(hn), rng.choice(SORT_SHAPES)))
        cases.append((hist, (nm, variant(nm), rng.choice(SORT_SHAPES))))
    for hist, probe in cases:
        got = sort_case(hist, probe)
        ref = sort_case([], probe)
        ctx.case(("sorts", tuple(hist), probe))
        ctx.count("confusable-sort-cases")
        replay = {"sorts": True, "hist": [list(h) for h in hist], "probe": list(probe)}
        if got[0] != ref[0]:
            ctx.report_s({"oracle": "history-vs-twin", "probe": "sorts", "hist": "sorts", "tag": "confusable-sorts"},
                         "symbols over the %s sort %s (%s) after %s: %s; alone in a new environment: %s" % (
                             "declared" if probe[1] else "built-in", probe[0], probe[2], hist, got[:2], ref[:2]), replay)
        elif got[0] == "ok":
            for field in ref[1]:
                if got[1][field] != ref[1][field]:
                    ctx.report_s({"oracle": "history-vs-twin", "probe": "sorts:" + field, "hist": "sorts",
                                  "tag": "confusable-sorts"},
                                 "symbols over the %s sort %s (%s) after the history %s: %s = %s; alone in a new "
                                 "environment %s" % ("declared" if probe[1] else "built-in", probe[0], probe[2], hist,
                                                     field, str(got[1][field])[:200], str(ref[1][field])[:200]), replay)
                    break



# ----------------------------------------------------------------------------------------------
# round 6: default arguments after explicit non-default ones; temporary substitution maps in a row
# ----------------------------------------------------------------------------------------------
def default_apis(env, fam, f):
    """(name, [calls with an explicit NON-default value of an optional argument], the call with the argument omitted)"""
    import pysmt.shortcuts as sc
    m = env.formula_manager
    Pl = fam.pool
    sub = {Pl["b"][0]: Pl["b"][1]}

    def script_text(**kw):
        buf = io.StringIO()
        smtlibscript_from_formula(f).serialize(buf, **kw)
        return buf.getvalue()
    sizes = list(range(1, 6))
    return [
        ("FNode.size()", [(lambda k=k: f.size(k)) for k in sizes], lambda: f.size()),
        ("get_formula_size(f)", [(lambda k=k: sc.get_formula_size(f, k)) for k in sizes], lambda: sc.get_formula_size(f)),
        ("sizeo.get_size(f)", [(lambda k=k: env.sizeo.get_size(f, k)) for k in sizes] +
         [(lambda k=k: env.sizeo.get_size(f, measure=k)) for k in (3, 5)], lambda: env.sizeo.get_size(f)),
        ("FNode.serialize()", [lambda: f.serialize(threshold=3), lambda: f.serialize(2)], lambda: f.serialize()),
        ("serialize(f)", [lambda: sc.serialize(f, threshold=3)], lambda: sc.serialize(f)),
        ("FNode.to_smtlib()", [lambda: f.to_smtlib(daggify=False) if tree_size(f) < 3000 else None],
         lambda: f.to_smtlib()),
        ("to_smtlib(f)", [lambda: sc.to_smtlib(f, daggify=False) if tree_size(f) < 3000 else None],
         lambda: sc.to_smtlib(f)),
        ("script.serialize(buf)", [lambda: script_text(daggify=False) if tree_size(f) < 3000 else None],
         lambda: script_text()),
        ("typeso.get_types(f)", [lambda: env.typeso.get_types(f, custom_only=True)], lambda: env.typeso.get_types(f)),
        ("FNode.substitute(subs)", [lambda: f.substitute(sub, interpretations=interpretations_of(env, fam, 1)),
                                   lambda: f.substitute(sub, interpretations=interpretations_of(env, fam, 2))],
         lambda: f.substitute(sub)),
        ("smtlibscript_from_formula(f)", [lambda: str(smtlibscript_from_formula(f, logic="QF_UFLIRA").commands[0].args)],
         lambda: str(smtlibscript_from_formula(f).commands[0].args)),
        ("Symbol(name)", [lambda: m.Symbol("dflt_a", types.INT), lambda: m.Symbol("dflt_b", types.REAL)],
         lambda: m.Symbol("dflt_c")),
        ("FreshSymbol()", [lambda: sc.FreshSymbol(types.INT, "dq%d"), lambda: sc.FreshSymbol(types.REAL, "dq%d")],
         lambda: str(sc.FreshSymbol().symbol_type())),
        ("get_logic(f)", [lambda: str(get_logic(m.And(f, m.Equals(Pl["v"][0], Pl["v"][0])), env))],
         lambda: str(get_logic(f))),
    ]


def default_argument_cases(ctx, rng, pools, quick):
    for seed, n in pools:
        probe_env, probe_fam = P15.make_env(seed, n)
        n_formulas = len(formulas(probe_env, probe_fam))
        n_apis = len(default_apis(probe_env, probe_fam, probe_fam.phi))
        for fi in [0, 2, n_formulas - 1] + [rng.randrange(n_formulas) for _ in range(1 if quick else 6)]:
            for ai in range(n_apis):
                def run(hist):
                    env, fam = P15.make_env(seed, n)
                    push_env(env)
                    try:
                        name, explicit, default = default_apis(env, fam, formulas(env, fam)[fi])[ai]
                        for h in hist:
                            P15.outcome(explicit[h % len(explicit)])
                        k, v = P15.outcome(default)
                        return name, len(explicit), (k, W.result_key(v, ac=True) if k == "ok" else v)
                    finally:
                        pop_env()
                name, n_exp, ref = run([])
                hists = [[h] for h in range(n_exp)] + [list(range(n_exp))]
                for hist in hists:
                    _, _, got = run(hist)
                    ctx.case(("default-arg", name, tuple(hist)))
                    ctx.count("default-argument-cases")
                    if got != ref:
                        ctx.report_s({"oracle": "history-vs-twin", "probe": "default:" + name, "hist": "explicit-argument",
                                      "tag": "default-argument"},
                                     "%s with the optional argument omitted gives %s after the same API was called with "
                                     "explicit non-default values (calls %s of its list) on formula %d of pool (%d, %d); "
                                     "in a twin environment without these calls %s" % (
                                         name, str(got)[:100], hist, fi, seed, n, str(ref)[:100]),
                                     {"default_args": True, "seed": seed, "n": n, "formula": fi, "api": ai, "calls": hist})
                        break


def inline_map_cases(ctx, rng, rounds):
    """consecutive substitute calls on quantified formulas (the same tuple of bound variables) with DIFFERENT temporary
    maps: each map is built inline in the call and dies with it; every result against the same call in a new
    environment"""
    import pysmt.shortcuts as sc
    INT = types.INT

    def build(env):
        m = env.formula_manager
        x, y, z, w = [m.Symbol(nm, INT) for nm in ("imx", "imy", "imz", "imw")]
        q1 = m.And(m.LE(x, y), m.ForAll([z], m.LT(m.Plus(x, z), y)))
        q2 = m.Or(m.Exists([z], m.Equals(m.Times(x, z), y)), m.LT(y, x))
        q3 = m.ForAll([z, w], m.Implies(m.LT(z, x), m.Exists([z], m.LT(m.Plus(z, w, x), y))))
        q4 = m.And(m.ForAll([z], m.LT(x, z)), m.ForAll([z], m.LT(y, z)), m.Exists([z], m.LT(m.Plus(x, y), z)))
        return m, (x, y, z, w), [q1, q2, q3, q4]

    def one(env, m, vs, qs, step):
        fi, route, shape, c = step
        x, y, z, w = vs
        f = qs[fi]
        if shape == 0:
            th = {0: lambda: f.substitute({x: m.Int(c)}), 1: lambda: sc.substitute(f, {x: m.Int(c)}),
                  2: lambda: env.substituter.substitute(f, {x: m.Int(c)})}[route]
        elif shape == 1:
            th = {0: lambda: f.substitute({x: m.Int(c), y: m.Int(c + 1)}),
                  1: lambda: sc.substitute(f, {x: m.Int(c), y: m.Int(c + 1)}),
                  2: lambda: env.substituter.substitute(f, {x: m.Int(c), y: m.Int(c + 1)})}[route]
        else:
            th = {0: lambda: f.substitute({y: m.Plus(x, m.Int(c))}), 1: lambda: sc.substitute(f, {y: m.Plus(x, m.Int(c))}),
                  2: lambda: env.substituter.substitute(f, {y: m.Plus(x, m.Int(c))})}[route]
        k, v = P15.outcome(th)
        return (k, W.result_key(v, ac=True) if k == "ok" else v)
    for it in range(rounds):
        length = rng.randint(20, 40)
        fixed = it % 3 == 0
        f0, s0, r0 = rng.randrange(4), rng.randrange(3), rng.randrange(3)
        steps = [(f0 if fixed else rng.randrange(4), r0 if fixed else rng.randrange(3), s0 if fixed else rng.randrange(3),
                  j + 1) for j in range(length)]
        env = Environment()
        push_env(env)
        try:
            m, vs, qs = build(env)
            got = [one(env, m, vs, qs, st) for st in steps]
        finally:
            pop_env()
        ctx.case(("inline-maps", it))
        ctx.count("inline-map-sequences")
        for j, st in enumerate(steps):
            env2 = Environment()
            push_env(env2)
            try:
                m2, vs2, qs2 = build(env2)
                ref = one(env2, m2, vs2, qs2, st)
            finally:
                pop_env()
            if got[j] != ref:
                ctx.report_s({"oracle": "history-vs-twin", "probe": "substitute", "hist": "substitute",
                              "tag": "inline-maps"},
                             "call %d of %d consecutive substitute calls with temporary maps (formula q%d, route %d, map "
                             "shape %d, constant %d) differs from the same call in a new environment" % (
                                 j, len(steps), st[0] + 1, st[1], st[2], st[3]),
                             {"inline_maps": True, "steps": [list(s_) for s_ in steps[:j + 1]]})
                break



def run(ctx):
    sys.setrecursionlimit(1000)
    rng = ctx.rng
    quick = ctx.tier == "quick"
    stats = {"ac_needed": 0}
    pools = [(rng.randrange(10 ** 9), rng.choice([10, 18, 28, 40])) for _ in range(5 if quick else 40)]
    # 1. adversarial orders, on two pools
    adv = adversarial(rng)
    for idx, (tag, hist, probe) in enumerate(adv):
        if ctx.time_left() < 70:
            ctx.count("adversarial-cut-by-time-budget")
            break
        seed, n = pools[idx % min(2, len(pools))] if quick else pools[idx % len(pools)]
        check_case(ctx, seed, n, hist, probe, tag, stats)
        ctx.case((tag, tuple(hist), probe))
        ctx.count("adv:" + tag)
    # 1a. the symbol table (function types included) and histories in other environments of the process
    reference_blueprint()
    symbol_cases(ctx, rng, 150 if quick else 3000)
    other_environment_cases(ctx, rng, 12 if quick else 200)
    bare_const_cases(ctx)
    preference_cases(ctx, rng, 6 if quick else 100)
    sort_cases(ctx, rng, 40 if quick else 1500)
    default_argument_cases(ctx, rng, pools[:2] if quick else pools[:10], quick)
    inline_map_cases(ctx, rng, 12 if quick else 200)
    # 1b. fresh symbols next to user symbols named like fresh templates
    fresh_symbol_cases(ctx, rng, quick)
    # 2. random histories
    n_hist = 1200 if quick else 12000
    for i in range(n_hist):
        if ctx.time_left() < 45:
            ctx.count("histories-cut-by-time-budget")
            break
        seed, n = pools[i % len(pools)]
        probe = random_call(rng)
        hist = [random_call(rng, probe[1]) for _ in range(rng.randint(5, 60))]
        check_case(ctx, seed, n, hist, probe, "random", stats, repeat=(i % 3 == 0))
        touches = any(h[1] % 7 == probe[1] % 7 or h[1] == probe[1] for h in hist)
        ctx.case(("hist", seed, i) if touches else None)
        if i < 2:
            ctx.sample({"seed": seed, "n": n, "history": hist[:8], "history_len": len(hist), "probe": probe})
    # 3. walker-level histories vs the model
    reqs = []
    for i in range(200 if quick else 3000):
        if ctx.time_left() < 30:
            break
        seed, n = pools[i % len(pools)]
        walker_history_case(ctx, rng, seed, n, reqs)
    heap_reqs = []
    for i in range(150 if quick else 2500):
        if ctx.time_left() < 25:
            break
        seed, n = pools[i % len(pools)]
        theory_heap_case(ctx, rng, seed, n, heap_reqs)
    table = W.model_answers(ctx, "C14", [r for r, _, _ in reqs] + [r for r, _, _ in heap_reqs])
    if table is not None:
        for req, impl, replay in heap_reqs:
            compare_theory_heap(ctx, req, impl, replay, table[req])
        ctx.count("theory-heap-cases", len(heap_reqs))
        for req, obs, replay in reqs:
            ans = W.parse_answer(table[req])
            if ans is None or len(ans) != len(obs):
                ctx.report_k("model rejected %s" % req[:200], replay)
                continue
            for j, (a, o) in enumerate(zip(ans, obs)):
                d = [f for f in ("c", "st", "m", "p", "i") if a.get(f) != o[f]]
                if a["out"].split(":")[0] != o["out"]:
                    d.append("out")
                if o["foreign"]:
                    d.append("foreign")
                if d:
                    ctx.report_k("walker %s, call %d of %s: %s" % (replay["walker"], j, replay["ops"], ", ".join(
                        "%s model=%s impl=%s" % (f, a.get(f), o.get(f)) for f in d)), dict(replay, req=req[:1500]))
                    break
        if reqs:
            ctx.sample({"walker_history": reqs[0][2], "request": reqs[0][0][:300], "observed": reqs[0][1][:3]})
    ctx.extra["ac_needed"] = stats["ac_needed"]


def replay(ctx, rep):
    sys.setrecursionlimit(1000)
    r = rep.get("replay", {})
    stats = {"ac_needed": 0}
    if r.get("symbols") or r.get("other_envs"):
        reference_blueprint()
        symbol_cases(ctx, ctx.rng, 300)
        other_environment_cases(ctx, ctx.rng, 30)
        return
    if "bare_const" in r:
        bare_const_cases(ctx)
        return
    if r.get("default_args"):
        default_argument_cases(ctx, ctx.rng, [(r["seed"], r["n"])], False)
        return
    if r.get("inline_maps"):
        inline_map_cases(ctx, ctx.rng, 60)
        return
    if "prefs" in r:
        preference_cases(ctx, ctx.rng, 20)
        return
    if r.get("sorts"):
        sort_cases(ctx, ctx.rng, 200)
        return
    if r.get("fresh"):
        users = FRESH_USERS[r["users"]]
        name, got, clash = fresh_case(ctx, users, False, r["history"], r["op"])
        _, ref, _ = fresh_case(ctx, users, True, 0, r["op"])
        if clash or got != ref:
            ctx.report_s({"oracle": "fresh-symbol-clash" if clash else "fresh-symbol-history", "probe": name},
                         "replay: %s clash=%s got=%s ref=%s" % (name, clash, str(got)[:80], str(ref)[:80]), r)
        ctx.case(("replay-fresh", name))
        return
    if "hist" not in r:
        ctx.report_k("replay: re-run VERIF_SEED=%s ./check C14" % rep.get("seed"), r)
        return
    hist = [tuple(h) for h in r["hist"]]
    check_case(ctx, r["seed"], r["n"], hist, tuple(r["probe"]), r.get("tag", "replay"), stats, repeat=True)
    ctx.case(("replay", r.get("tag")))
