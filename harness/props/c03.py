"""C03 -- every formula that exists is well-typed; ill-typed applications are rejected.

Layer K (exhaustive grids, nothing sampled)
  grid A  `create_node(op, args, payload)` for each of the 66 node types, every argument-sort
          tuple over the 14-sort universe (arity 0..3, arity 4..5 over a 4-sort sub-universe for the
          operators the checker treats as n-ary) and every payload corner: the real
          `SimpleTypeChecker` against `Term.typeOf` / `Term.wt` (driver C03, requests `type`/`wt`).
  grid B  every public `FormulaManager` constructor (incl. the derived ones) on every argument-sort
          tuple and every integer-parameter corner: outcome `ok <type>` / error, the returned DAG
          against the raw tree predicted by the constructor table below, `typeOf`/`wt` of that tree.
Layer S (independent of `typeOf`)
  `rank()` below is an independent implementation of the SMT-LIB sorting rules (mirror of
  lean/PySMT/Spec/HasType.lean); every outcome of both grids is judged by it, and the driver's
  `hastype` (the Lean specification) must agree with it on every term sent.
  Transformation outputs (simplify, substitute, nnf, prenex, aig, cnf, ackermannize,
  parse(print)) of random well-typed formulas must be `wt` and keep their type.
"""
import itertools
import os
import sys
import time
from fractions import Fraction

import pysmt.operators as op
from pysmt.environment import Environment
from pysmt.exceptions import PysmtException

import common
import wire

LEAN_MODULES = ["PySMT.Props.C03"]
RULE = ("exhaustive grids: (A) create_node on each of the 66 node types x every argument-sort tuple over a 14-sort "
        "universe (arity<=3; arity 4-5 over 4 sorts for n-ary operators) x payload corners; (B) every FormulaManager "
        "constructor x every argument-sort tuple x integer-parameter corners (extract bounds on/over the width, "
        "rotate/extend by 0,w,w+1,negative); plus random well-typed formulas through 8 transformations. A case is "
        "non-trivial when the application is accepted by the implementation or by the sorting rules "
        "(not rejected by both); distinct = distinct (constructor, sorts, parameters)")
ASSUMPTIONS = [
    "sorts are taken as given: well-formedness of a sort itself ((_ BitVec 0), arrays of function types) is not part of HasType",
    "function-typed symbols are declarations, not terms: a `symbol` node with a function signature has no sort",
    "pow is not an SMT-LIB operator: the specification gives it the rank Int Int -> Real / Real Real -> Real (pySMT's documented one)",
    "algebraic constants are only built through create_node with a dummy payload (no z3 in the sandbox)",
]

# =====================================================================================
# sorts (python-side, independent of pysmt.typing): tuples as in wire.dec_type
# =====================================================================================
B, I, R, S = ("B",), ("I",), ("R",), ("S",)


def V(w):
    return ("V", w)


def A(i, e):
    return ("A", i, e)


CS = ("C", "S")


def F(ret, *params):
    return ("F", ret, tuple(params))


UNIVERSE = [
    ("Bool", B), ("Int", I), ("Real", R), ("String", S), ("BV1", V(1)), ("BV2", V(2)), ("BV8", V(8)),
    ("AII", A(I, I)), ("AV2B", A(V(2), B)), ("AIAIR", A(I, A(I, R))), ("S", CS),
    ("fII", F(I, I)), ("fBIB", F(B, B, I)), ("fSS", F(CS, CS)),
]
U14 = [s for _, s in UNIVERSE]
U4 = [B, I, R, V(8)]
SNAME = {s: n for n, s in UNIVERSE}


def sort_name(s):
    if s in SNAME:
        return SNAME[s]
    if s[0] == "V":
        return "BV%d" % s[1]
    if s[0] == "A":
        return "A(%s,%s)" % (sort_name(s[1]), sort_name(s[2]))
    if s[0] == "F":
        return "(%s)->%s" % (",".join(sort_name(p) for p in s[2]), sort_name(s[1]))
    return str(s)


def is_fn(s):
    return s is not None and s[0] == "F"


def to_pysmt(env, s):
    tm = env.type_manager
    k = s[0]
    if k == "B":
        return tm.BOOL()
    if k == "I":
        return tm.INT()
    if k == "R":
        return tm.REAL()
    if k == "S":
        return tm.STRING()
    if k == "V":
        return tm.BVType(s[1])
    if k == "A":
        return tm.ArrayType(to_pysmt(env, s[1]), to_pysmt(env, s[2]))
    if k == "C":
        return tm.Type(s[1], 0)
    if k == "F":
        return tm.FunctionType(to_pysmt(env, s[1]), [to_pysmt(env, p) for p in s[2]])
    raise ValueError(s)


def from_pysmt(t):
    if t.is_bool_type():
        return B
    if t.is_int_type():
        return I
    if t.is_real_type():
        return R
    if t.is_string_type():
        return S
    if t.is_bv_type():
        return V(t.width)
    if t.is_array_type():
        return A(from_pysmt(t.index_type), from_pysmt(t.elem_type))
    if t.is_function_type():
        return F(from_pysmt(t.return_type), *[from_pysmt(p) for p in t.param_types])
    return ("C", str(t))


def enc_sort(s):
    k = s[0]
    if k in "BIRS":
        return k
    if k == "V":
        return "V %d" % s[1]
    if k == "A":
        return "A %s %s" % (enc_sort(s[1]), enc_sort(s[2]))
    if k == "C":
        return "C " + wire.hexs(s[1])
    raise wire.OutOfFragment("function type as a sort")


def enc_symsort(s):
    if s[0] == "F":
        return "F %s %d%s" % (enc_sort(s[1]), len(s[2]), "".join(" " + enc_sort(p) for p in s[2]))
    return enc_sort(s)


def dec_sort_answer(ans):
    """driver answer of `type`/`hastype` -> sort tuple | None"""
    if ans == "none":
        return None
    return wire.dec_type(wire.Tok(ans))


# =====================================================================================
# raw terms: (opname, payload, children) with payload as produced by wire.dec_payload,
# extended by negative integers in ("n", ...) and ("Q!", descr) for bound "variables"
# that are not plain symbols (both outside the Lean term language)
# =====================================================================================
def sym(name, s):
    return ("symbol", ("y", name, s), ())


def node(o, payload, *children):
    return (o, payload, tuple(children))


def ints(*xs):
    return ("n",) + tuple(xs)


def enc_payload(p):
    if p is None:
        return "-"
    k = p[0]
    if k == "b":
        return "b 1" if p[1] else "b 0"
    if k == "i":
        return "i %d" % p[1]
    if k == "q":
        return "q %d %d" % (p[1].numerator, p[1].denominator)
    if k == "s":
        return "s " + wire.hexs(p[1])
    if k == "v":
        if p[1] < 0 or p[2] < 0:
            raise wire.OutOfFragment("negative bv payload")
        return "v %d %d" % (p[1], p[2])
    if k == "n":
        if any((not isinstance(x, int)) or x < 0 for x in p[1:]):
            raise wire.OutOfFragment("negative index in payload")
        return "n %d%s" % (len(p) - 1, "".join(" %d" % x for x in p[1:]))
    if k == "y":
        return "y %s %s" % (wire.hexs(p[1]), enc_symsort(p[2]))
    if k == "Q":
        for (_, t) in p[1:]:
            if is_fn(t):
                raise wire.OutOfFragment("bound variable is a function symbol")
        return "Q %d%s" % (len(p) - 1, "".join(" %s %s" % (wire.hexs(n), enc_sort(t)) for n, t in p[1:]))
    if k == "t":
        return "t " + enc_sort(p[1])
    raise wire.OutOfFragment("payload %r" % (p,))


def enc_raw(t):
    """wire encoding of a raw tree (DAG, structural de-duplication)"""
    idx = {}
    defs = []

    def go(n):
        if n in idx:
            return idx[n]
        ch = [go(c) for c in n[2]]
        defs.append("%s %s %d%s" % (n[0], enc_payload(n[1]), len(ch), "".join(" %d" % c for c in ch)))
        idx[n] = len(defs) - 1
        return idx[n]
    go(t)
    return "T %d %s" % (len(defs), " ".join(defs))


def raw_of_fnode(f):
    """structure of a real FNode as a raw tree (through wire.enc_term, i.e. through the
    public accessors only)"""
    nodes = wire.dec_term(wire.enc_term(f))
    built = []
    for (o, p, ch) in nodes:
        if p is not None and p[0] == "y":
            p = ("y", p[1], p[2] if p[2][0] != "F" else ("F", p[2][1], tuple(p[2][2])))
        built.append((o, p, tuple(built[c] for c in ch)))
    return built[-1]


def show_raw(t, depth=0):
    o, p, ch = t
    if o == "symbol":
        return "%s:%s" % (p[1], sort_name(p[2]))
    ps = ""
    if p is not None:
        if p[0] == "n":
            ps = "[%s]" % ",".join(str(x) for x in p[1:])
        elif p[0] == "y":
            ps = "[%s]" % p[1]
        elif p[0] in ("Q", "Q!"):
            ps = "[%s]" % ",".join(str(x[0]) for x in p[1:])
        else:
            ps = "[%s]" % " ".join(str(x) for x in p[1:])
    return "%s%s(%s)" % (o, ps, ", ".join(show_raw(c, depth + 1) for c in ch))


# =====================================================================================
# S oracle: the SMT-LIB sorting rules, written from the theory signatures (Core, Ints,
# Reals, Reals_Ints, FixedSizeBitVectors + extensions, ArraysEx, Strings) -- mirror of
# Spec/HasType.lean (`Sig`), NOT of pysmt/type_checker.py.
# rank(op, payload, argument sorts) -> result sort | None (no such rank: ill-sorted)
# =====================================================================================
BV_UN = {"bvNot", "bvNeg"}
BV_BIN = {"bvAnd", "bvOr", "bvXor", "bvAdd", "bvSub", "bvMul", "bvUdiv", "bvUrem", "bvLshl", "bvLshr",
          "bvSdiv", "bvSrem", "bvAshr"}
BV_REL = {"bvUlt", "bvUle", "bvSlt", "bvSle"}


def _nat(x):
    return isinstance(x, int) and not isinstance(x, bool) and x >= 0


def rank(o, p, ss):
    n = len(ss)
    if any(s is None or is_fn(s) for s in ss):
        return None                      # an argument is not a term
    # ---- Core
    if o == "boolConst":
        return B if n == 0 and p is not None and p[0] == "b" else None
    if o == "not":
        return B if ss == [B] else None
    if o in ("implies", "iff"):
        return B if ss == [B, B] else None
    if o in ("and", "or"):
        return B if n >= 2 and all(s == B for s in ss) else None
    if o == "equals":                    # pySMT reserves Iff for Bool: `=` on Bool is not an `equals` node
        return B if n == 2 and ss[0] == ss[1] and ss[0] != B else None
    if o == "ite":
        return ss[1] if n == 3 and ss[0] == B and ss[1] == ss[2] else None
    # ---- symbols, applications, binders
    if o == "symbol":
        return p[2] if n == 0 and p is not None and p[0] == "y" and not is_fn(p[2]) else None
    if o == "function":
        if p is None or p[0] != "y" or not is_fn(p[2]):
            return None
        return p[2][1] if tuple(ss) == tuple(p[2][2]) else None
    if o in ("forall", "exists"):
        if p is None or p[0] != "Q" or len(p) < 2 or any(is_fn(t) for _, t in p[1:]):
            return None                  # ("Q!", ...) = something that is not a sorted variable
        return B if ss == [B] else None
    # ---- Ints, Reals, Reals_Ints
    if o == "intConst":
        return I if n == 0 and p is not None and p[0] == "i" else None
    if o == "realConst":
        return R if n == 0 and p is not None and p[0] == "q" else None
    if o == "algebraicConst":
        return R if n == 0 else None
    if o in ("plus", "times"):
        return ss[0] if n >= 2 and ss[0] in (I, R) and all(s == ss[0] for s in ss) else None
    if o in ("minus", "div"):
        return ss[0] if n == 2 and ss[0] in (I, R) and ss[0] == ss[1] else None
    if o in ("le", "lt"):
        return B if n == 2 and ss[0] in (I, R) and ss[0] == ss[1] else None
    if o == "toReal":
        return R if ss == [I] else None
    if o == "pow":
        return R if n == 2 and ss[0] in (I, R) and ss[0] == ss[1] else None
    # ---- FixedSizeBitVectors
    if o == "bvConst":
        return V(p[2]) if n == 0 and p is not None and p[0] == "v" and _nat(p[1]) and _nat(p[2]) else None
    isbv = [s[0] == "V" for s in ss]
    pn = list(p[1:]) if p is not None and p[0] == "n" else None
    if o in BV_UN:
        return ss[0] if n == 1 and isbv[0] and pn == [ss[0][1]] else None
    if o in BV_BIN:
        return ss[0] if n == 2 and isbv[0] and ss[0] == ss[1] and pn == [ss[0][1]] else None
    if o in BV_REL:
        return B if n == 2 and isbv[0] and ss[0] == ss[1] else None
    if o == "bvComp":
        return V(1) if n == 2 and isbv[0] and ss[0] == ss[1] and pn == [1] else None
    if o == "bvConcat":
        return V(ss[0][1] + ss[1][1]) if n == 2 and all(isbv) and pn == [ss[0][1] + ss[1][1]] else None
    if o == "bvExtract":                 # ((_ extract i j) (_ BitVec m)) : (_ BitVec i-j+1), m > i >= j >= 0
        if n != 1 or not isbv[0] or pn is None or len(pn) != 3:
            return None
        w, j, i = pn
        if not (_nat(i) and _nat(j) and j <= i < ss[0][1] and w == i - j + 1):
            return None
        return V(w)
    if o in ("bvRol", "bvRor"):          # (_ rotate_left i), i >= 0
        if n != 1 or not isbv[0] or pn is None or len(pn) != 2:
            return None
        return ss[0] if pn[0] == ss[0][1] and _nat(pn[1]) else None
    if o in ("bvZext", "bvSext"):        # (_ zero_extend i), i >= 0 : (_ BitVec m+i)
        if n != 1 or not isbv[0] or pn is None or len(pn) != 2:
            return None
        return V(pn[0]) if _nat(pn[1]) and pn[0] == ss[0][1] + pn[1] else None
    if o == "bvToNatural":
        return I if n == 1 and isbv[0] else None
    # ---- Strings
    if o == "strConst":
        return S if n == 0 and p is not None and p[0] == "s" else None
    if o in ("strLength", "strToInt"):
        return I if ss == [S] else None
    if o == "intToStr":
        return S if ss == [I] else None
    if o == "strConcat":
        return S if n >= 2 and all(s == S for s in ss) else None
    if o in ("strContains", "strPrefixOf", "strSuffixOf"):
        return B if ss == [S, S] else None
    if o == "strIndexOf":
        return I if ss == [S, S, I] else None
    if o == "strReplace":
        return S if ss == [S, S, S] else None
    if o == "strSubstr":
        return S if ss == [S, I, I] else None
    if o == "strCharAt":
        return S if ss == [S, I] else None
    # ---- ArraysEx (+ constant arrays)
    if o == "arraySelect":
        return ss[0][2] if n == 2 and ss[0][0] == "A" and ss[0][1] == ss[1] else None
    if o == "arrayStore":
        return ss[0] if n == 3 and ss[0][0] == "A" and ss[0][1] == ss[1] and ss[0][2] == ss[2] else None
    if o == "arrayValue":
        if p is None or p[0] != "t" or n % 2 != 1:
            return None
        idx, d = p[1], ss[0]
        if all(s == idx for s in ss[1::2]) and all(s == d for s in ss[2::2]):
            return A(idx, d)
        return None
    return None


def sort_of(t, memo=None):
    """sort of a raw tree by the rules, None if ill-sorted"""
    if memo is None:
        memo = {}
    if t in memo:
        return memo[t]
    o, p, ch = t
    ss = [sort_of(c, memo) for c in ch]
    r = None if any(s is None for s in ss) else rank(o, p, ss)
    memo[t] = r
    return r


# =====================================================================================
# grid A: create_node on every node type
# =====================================================================================
NO_PAYLOAD = ["and", "or", "not", "implies", "iff", "plus", "minus", "times", "le", "lt", "equals", "ite", "toReal",
              "div", "pow", "bvUlt", "bvUle", "bvSlt", "bvSle", "bvToNatural", "strLength", "strConcat",
              "strContains", "strIndexOf", "strReplace", "strSubstr", "strPrefixOf", "strSuffixOf", "strToInt",
              "intToStr", "strCharAt", "arraySelect", "arrayStore", "algebraicConst"]
# operators whose checker rule does not fix the arity, or silently ignores extra arguments
NARY = ["and", "or", "plus", "times", "strConcat", "arrayValue", "function", "ite", "arrayStore", "bvAnd", "bvAdd",
        "equals"]
FN_SYMS = [("f", F(I, I)), ("g", F(B, B, I)), ("h", F(CS, CS))]


def payload_corners(o):
    """(payloads used for arity <= 2, payloads used for arity >= 3)"""
    if o in NO_PAYLOAD:
        return [None], [None]
    if o == "boolConst":
        return [("b", True), None], [("b", False)]
    if o == "intConst":
        return [("i", 3), None], [("i", -1)]
    if o == "realConst":
        return [("q", Fraction(1, 2)), None], [("q", Fraction(3))]
    if o == "strConst":
        return [("s", "ab"), None], [("s", "")]
    if o == "bvConst":
        return [("v", 5, 8), ("v", 300, 8), ("v", 0, 1), None], [("v", 1, 2)]
    if o == "symbol":
        return [("y", "c_" + n, s) for n, s in UNIVERSE], [("y", "c_Int", I)]
    if o == "function":
        ps = [("y", n, s) for n, s in FN_SYMS]
        return ps + [("y", "c_Int", I)], ps
    if o in ("forall", "exists"):
        return [("Q", ("qi", I)), ("Q", ("qb", B), ("qv", V(8))), ("Q",), ("Q", ("qf", F(I, I))), None], \
               [("Q", ("qi", I))]
    if o in BV_UN or o in BV_BIN:
        return [ints(1), ints(2), ints(8), ints(3), ints(8, 1), ints(), None], [ints(8), ints(2)]
    if o == "bvComp":
        return [ints(1), ints(8), None], [ints(1)]
    if o == "bvConcat":
        return [ints(w) for w in (2, 3, 4, 9, 10, 16, 5)] + [None], [ints(16), ints(3)]
    if o == "bvExtract":
        c = []
        for lo in (0, 1, 7, 8):
            for hi in (0, 1, 7, 8):
                if hi >= lo:
                    c.append(ints(hi - lo + 1, lo, hi))
                    c.append(ints(hi - lo + 2, lo, hi))
        c += [ints(0, 1, 0), ints(0, 8, 7), ints(1, 0), ints(8), ints(2, -1, 0), None]
        return c, [ints(1, 0, 0), ints(8, 0, 7)]
    if o in ("bvRol", "bvRor"):
        return [ints(8, 0), ints(8, 1), ints(8, 8), ints(8, 9), ints(2, 2), ints(2, 3), ints(1, 0), ints(1, 1),
                ints(1, 2), ints(3, 1), ints(8, -1), ints(8), None], [ints(8, 1), ints(2, 0)]
    if o in ("bvZext", "bvSext"):
        return [ints(8, 0), ints(9, 1), ints(16, 8), ints(8, 7), ints(10, 7), ints(2, 1), ints(3, 1), ints(1, 0),
                ints(7, 0), ints(7, -1), ints(9, -1), ints(9), None], [ints(9, 1), ints(2, 0)]
    if o == "arrayValue":
        return [("t", I), ("t", V(2)), ("t", B), None], [("t", I), ("t", V(2))]
    raise KeyError(o)


def real_payload(env, o, p):
    mgr = env.formula_manager
    if p is None:
        return "alg" if o == "algebraicConst" else None
    k = p[0]
    if k in ("b", "i", "s"):
        return p[1]
    if k == "q":
        return Fraction(p[1])
    if k == "v":
        return (p[1], p[2])
    if k == "n":
        return tuple(p[1:])
    if k == "y":
        if o == "symbol":
            return (p[1], to_pysmt(env, p[2]))
        return mgr.Symbol(p[1], to_pysmt(env, p[2]))
    if k == "Q":
        return tuple(mgr.Symbol(n, to_pysmt(env, t)) for n, t in p[1:])
    if k == "t":
        return to_pysmt(env, p[1])
    raise ValueError(p)


def arg_sym(pos, s):
    return sym("a%d_%s" % (pos, SNAME[s]), s)


def grid_a_cases(o, tier):
    small, big = payload_corners(o)
    for n in range(0, 4):
        for ss in itertools.product(U14, repeat=n):
            for p in (small if n <= 2 else big):
                yield ss, p
    if o in NARY:
        for n in (4, 5):
            for ss in itertools.product(U4 + ([S] if o == "strConcat" else []), repeat=n):
                for p in big:
                    yield ss, p


def outcome_of(fn):
    """run a constructor call; ('ok', fnode) | ('err', exception class name)"""
    try:
        return ("ok", fn())
    except (PysmtException, AssertionError, AttributeError, TypeError, ValueError, IndexError, KeyError,
            ZeroDivisionError, OverflowError, RecursionError) as e:
        return ("err", type(e).__name__)


def run_grid_a_op(job):
    """worker: all grid-A cases of one operator -> list of (sorts, payload, raw tree, impl outcome)"""
    o, tier = job
    env = Environment()
    mgr = env.formula_manager
    nt = wire.OPID[o]
    symcache = {}

    def real_sym(pos, s):
        k = (pos, s)
        if k not in symcache:
            symcache[k] = mgr.Symbol("a%d_%s" % (pos, SNAME[s]), to_pysmt(env, s))
        return symcache[k]
    out = []
    pcache = {}
    for ss, p in grid_a_cases(o, tier):
        if p not in pcache:
            pcache[p] = real_payload(env, o, p)
        args = tuple(real_sym(i, s) for i, s in enumerate(ss))
        res = outcome_of(lambda: mgr.create_node(nt, args, pcache[p]))
        if res[0] == "ok":
            try:
                res = ("ok", from_pysmt(env.stc.get_type(res[1])))
            except Exception as e:          # noqa
                res = ("err", "get_type:" + type(e).__name__)
        raw = (o, p, tuple(arg_sym(i, s) for i, s in enumerate(ss)))
        out.append((ss, p, raw, res))
    return out
