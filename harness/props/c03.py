"""C03 -- every formula that exists is well-typed; ill-typed applications are rejected.

Layer K (exhaustive grids, nothing sampled)
  grid A  `create_node(op, args, payload)` for each of the 66 node types, every argument-sort
          tuple over the 14-sort universe (arity 0..3, arity 4..5 over a 4-sort sub-universe for the
          operators the checker treats as n-ary) and every payload corner: the real
          `SimpleTypeChecker` against `Term.typeOf` / `Term.wt` (driver C03, requests `type`/`wt`).
  grid B  every public `FormulaManager` constructor (incl. the derived ones) on every argument-sort
          tuple and every integer-parameter corner: outcome `ok <type>` / error, the returned DAG
          against the raw tree predicted by the constructor table below, `typeOf`/`wt` of that tree.
Layer S (independent of `typeOf`)
  `rank()` below is an independent implementation of the SMT-LIB sorting rules (mirror of
  lean/PySMT/Spec/HasType.lean); every outcome of both grids is judged by it, and the driver's
  `hastype` (the Lean specification) must agree with it on every term sent.
  Transformation outputs (simplify, substitute, nnf, prenex, aig, cnf, ackermannize,
  parse(print)) of random well-typed formulas must be `wt` and keep their type.
"""
import itertools
import os
import sys
import time
from fractions import Fraction

import pysmt.operators as op
from pysmt.environment import Environment
from pysmt.exceptions import PysmtException

import common
import wire

sys.setrecursionlimit(50000)        # left-deep chains of a few thousand nodes (BVRepeat(x, 2049), 300-ary BVAdd)

LEAN_MODULES = ["PySMT.Props.C03", "PySMT.Props.Bridge"]
RULE = ("exhaustive grids, nothing sampled: (A) create_node on each of the 66 node types x every argument-sort tuple over a "
        "14-sort universe {Bool,Int,Real,String,BV1,BV2,BV8,Array Int Int,Array BV2 Bool,Array Int (Array Int Real),S,"
        "Int->Int,BoolxInt->Bool,S->S} for arity 0-2 x every payload corner, arity 3 (quick: 12 sorts for ternary operators, "
        "8 for n-ary, 5 for the others; thorough: all 14) and arity 4-5 over 4 sorts for n-ary operators; (B) every "
        "FormulaManager constructor (95, incl. derived ones) x every argument-sort tuple x integer-parameter corners (extract "
        "bounds on/over the width, rotate/extend/repeat/shift by 0,1,w-1,w,w+1,2w+1,negative, non-integers) and value corners "
        "of the constant constructors; every constructor also on LITERAL arguments of every sort (Bool, Int, Real, String, "
        "BV1/2/8, three array values); both grids also over 12 'confusable' sorts that print like another sort (declared "
        "sorts named Int/Real/Bool/String/BV{8}, nullary |Pair{Int}| next to Pair(Int), a declared Array/2) compared by "
        "declaration identity; quantifier binder lists of length 1-3 mixing plain symbols, function symbols and "
        "non-symbols in every position; both grids also with the SAME node in two or all argument positions (same symbol, "
        "constant, compound term of every sort); (H) random create_node histories against Impl/CreateNode; (R) every grid call rejected with an exception "
        "other than PysmtTypeError, and every 5th of the others (residue = seed mod 5; thorough tier: all of them), is attempted a second and third time "
        "on the same environment and must be rejected again; (T) random well-typed formulas "
        "(R) every grid call rejected with an exception other than PysmtTypeError, and every 5th of the others, is attempted "
        "a second and third time on the same environment; through simplify/substitute/nnf/prenex/aig/cnf/ackermannize/parse(print). A case is non-trivial when the application "
        "is accepted by the implementation or by the sorting rules (not rejected by both), a transformation case when the "
        "result differs from the input; distinct = distinct (constructor, sorts, parameters) / (transformation, formula)")
ASSUMPTIONS = [
    "sorts are taken as given: well-formedness of a sort itself ((_ BitVec 0), arrays of function types) is not part of HasType",
    "function-typed symbols are declarations, not terms: a `symbol` node with a function signature has no sort",
    "pow is not an SMT-LIB operator: the specification gives it the rank Int Int -> Real / Real Real -> Real (pySMT's documented one)",
    "algebraic constants are only built through create_node with a dummy payload (no z3 in the sandbox)",
    "Core.Ty names an instance of a declared sort by its printed name: terms that mention two different sorts printing "
    "alike (Pair(Int) and |Pair{Int}|) or a declared Array/2 are compared with the rank oracle (S) only, not with typeOf (K)",
]

# =====================================================================================
# sorts (python-side, independent of pysmt.typing): tuples as in wire.dec_type
# =====================================================================================
B, I, R, S = ("B",), ("I",), ("R",), ("S",)


def V(w):
    return ("V", w)


def A(i, e):
    return ("A", i, e)


CS = ("C", "S")


def F(ret, *params):
    return ("F", ret, tuple(params))


UNIVERSE = [
    ("Bool", B), ("Int", I), ("Real", R), ("String", S), ("BV1", V(1)), ("BV2", V(2)), ("BV8", V(8)),
    ("AII", A(I, I)), ("AV2B", A(V(2), B)), ("AIAIR", A(I, A(I, R))), ("S", CS),
    ("fII", F(I, I)), ("fBIB", F(B, B, I)), ("fSS", F(CS, CS)),
]
U14 = [s for _, s in UNIVERSE]
U4 = [B, I, R, V(8)]
SNAME = {s: n for n, s in UNIVERSE}


def P(name, *args):
    """instance of a declared sort constructor name/len(args)"""
    return ("P", name, tuple(args))


def printed(s):
    """the name pySMT prints for a sort (NOT injective: that is what the confusable sorts probe)"""
    k = s[0]
    if k in "BIRS":
        return {"B": "Bool", "I": "Int", "R": "Real", "S": "String"}[k]
    if k == "V":
        return "BV{%d}" % s[1]
    if k == "A":
        return "Array{%s, %s}" % (printed(s[1]), printed(s[2]))
    if k == "C":
        return s[1]
    if k == "P":
        return "%s{%s}" % (s[1], ", ".join(printed(a) for a in s[2]))
    return "->"


# sorts that print like another sort: declared sorts named like a builtin sort, a nullary declared
# sort named like an instance of a unary sort constructor, a declared Array/2 (F61)
PAIR_INT = P("Pair", I)
CONFUSABLE = [
    ("dInt", ("C", "Int")), ("dReal", ("C", "Real")), ("dBool", ("C", "Bool")), ("dString", ("C", "String")),
    ("dBV8", ("C", "BV{8}")), ("PairInt", PAIR_INT), ("dPairInt", ("C", "Pair{Int}")),
    ("AIR", A(I, R)), ("dArrayIR", P("Array", I, R)),
    ("APairI", A(PAIR_INT, I)), ("AdPairI", A(("C", "Pair{Int}"), I)), ("AdIntI", A(("C", "Int"), I)),
]
UC = [B, I, R, S, V(8)] + [s_ for _, s_ in CONFUSABLE]
for _n, _s in CONFUSABLE:
    SNAME[_s] = _n


def canon_sort(s):
    """the sort as the wire format / Core.Ty sees it: an instance of a declared sort is opaque"""
    if s is None or not isinstance(s, tuple):
        return s
    k = s[0]
    if k == "P":
        return ("C", printed(s))
    if k == "A":
        return ("A", canon_sort(s[1]), canon_sort(s[2]))
    if k == "F":
        return ("F", canon_sort(s[1]), tuple(canon_sort(p_) for p_ in s[2]))
    return s


def canon_raw(t, memo=None):
    if memo is None:
        memo = {}
    k = id(t)
    if k in memo:
        return memo[k]
    o, p, ch = t
    if p is not None:
        if p[0] == "y":
            p = ("y", p[1], canon_sort(p[2]))
        elif p[0] == "t":
            p = ("t", canon_sort(p[1]))
        elif p[0] == "Q":
            p = ("Q",) + tuple((n_, canon_sort(t_)) for n_, t_ in p[1:])
    r = (o, p, tuple(canon_raw(c, memo) for c in ch))
    memo[k] = r
    return r


def sorts_of_raw(t, acc=None, seen=None):
    """every sort mentioned in a raw tree"""
    if acc is None:
        acc = set()
    if seen is None:
        seen = set()
    if id(t) in seen:
        return acc
    seen.add(id(t))
    o, p, ch = t
    if p is not None:
        if p[0] == "y":
            sorts_in(p[2], acc)
        elif p[0] == "t":
            sorts_in(p[1], acc)
        elif p[0] == "Q":
            for _, t_ in p[1:]:
                sorts_in(t_, acc)
    for c in ch:
        sorts_of_raw(c, acc, seen)
    return acc


def outside_model(t):
    """Core.Ty names an instance of a declared sort by its printed name, so two different sorts that
    print alike are one sort for the Lean model; and pySMT itself identifies a declared Array/2 with
    the builtin array sort (F61).  Terms mentioning such a pair are judged by S only."""
    ss = sorts_of_raw(t)
    if any(x[0] == "P" and x[1] == "Array" for x in ss):
        return True
    seen = {}
    for x in ss:
        if x[0] in ("C", "P"):
            k = printed(x)
            if k in seen and seen[k] != x:
                return True
            seen[k] = x
    return False


def homonym_key(sort_list):
    """'declared-Array/2' when the case involves an instance of a declared sort constructor named Array
    (pySMT's type equality identifies it with the builtin array sort: known finding F61)"""
    acc = set()
    for x in sort_list:
        if x is not None:
            sorts_in(x, acc)
    return "declared-Array/2" if any(x[0] == "P" and x[1] == "Array" for x in acc) else "none"


def sorts_in(s, acc):
    acc.add(s)
    if s[0] == "A":
        sorts_in(s[1], acc)
        sorts_in(s[2], acc)
    elif s[0] == "F":
        sorts_in(s[1], acc)
        for p_ in s[2]:
            sorts_in(p_, acc)
    elif s[0] == "P":
        for p_ in s[2]:
            sorts_in(p_, acc)
    return acc


def sort_name(s):
    if s in SNAME:
        return SNAME[s]
    if s[0] == "P":
        return "%s(%s)" % (s[1], ",".join(sort_name(a) for a in s[2]))
    if s[0] == "C":
        return "|%s|" % s[1]
    if s[0] == "V":
        return "BV%d" % s[1]
    if s[0] == "A":
        return "A(%s,%s)" % (sort_name(s[1]), sort_name(s[2]))
    if s[0] == "F":
        return "(%s)->%s" % (",".join(sort_name(p) for p in s[2]), sort_name(s[1]))
    return str(s)


def is_fn(s):
    return s is not None and s[0] == "F"


def to_pysmt(env, s):
    tm = env.type_manager
    k = s[0]
    if k == "B":
        return tm.BOOL()
    if k == "I":
        return tm.INT()
    if k == "R":
        return tm.REAL()
    if k == "S":
        return tm.STRING()
    if k == "V":
        return tm.BVType(s[1])
    if k == "A":
        return tm.ArrayType(to_pysmt(env, s[1]), to_pysmt(env, s[2]))
    if k == "C":
        return tm.Type(s[1], 0)
    if k == "P":
        return tm.get_type_instance(tm.Type(s[1], len(s[2])), *[to_pysmt(env, a) for a in s[2]])
    if k == "F":
        return tm.FunctionType(to_pysmt(env, s[1]), [to_pysmt(env, p) for p in s[2]])
    raise ValueError(s)


def from_pysmt(t):
    if t.is_bool_type():
        return B
    if t.is_int_type():
        return I
    if t.is_real_type():
        return R
    if t.is_string_type():
        return S
    if t.is_bv_type():
        return V(t.width)
    if t.is_array_type():
        return A(from_pysmt(t.index_type), from_pysmt(t.elem_type))
    if t.is_function_type():
        return F(from_pysmt(t.return_type), *[from_pysmt(p) for p in t.param_types])
    if t.args:          # instance of a declared sort constructor (read through basename/args, not the name)
        return ("P", t.basename, tuple(from_pysmt(a) for a in t.args))
    return ("C", t.basename)


def enc_sort(s):
    k = s[0]
    if k in "BIRS":
        return k
    if k == "V":
        return "V %d" % s[1]
    if k == "A":
        return "A %s %s" % (enc_sort(s[1]), enc_sort(s[2]))
    if k == "C":
        return "C " + wire.hexs(s[1])
    if k == "P":        # Core: an instance of a declared sort is the opaque sort of that name
        return "C " + wire.hexs(printed(s))
    raise wire.OutOfFragment("function type as a sort")


def enc_symsort(s):
    if s[0] == "F":
        return "F %s %d%s" % (enc_sort(s[1]), len(s[2]), "".join(" " + enc_sort(p) for p in s[2]))
    return enc_sort(s)


def dec_sort_answer(ans):
    """driver answer of `type`/`hastype` -> sort tuple | None"""
    if ans == "none":
        return None
    return wire.dec_type(wire.Tok(ans))


# =====================================================================================
# raw terms: (opname, payload, children) with payload as produced by wire.dec_payload,
# extended by negative integers in ("n", ...) and ("Q!", descr) for bound "variables"
# that are not plain symbols (both outside the Lean term language)
# =====================================================================================
def sym(name, s):
    return ("symbol", ("y", name, s), ())


def node(o, payload, *children):
    return (o, payload, tuple(children))


def ints(*xs):
    return ("n",) + tuple(xs)


def enc_payload(p):
    if p is None:
        return "-"
    k = p[0]
    if k == "b":
        return "b 1" if p[1] else "b 0"
    if k == "i":
        return "i %d" % p[1]
    if k == "q":
        return "q %d %d" % (p[1].numerator, p[1].denominator)
    if k == "s":
        return "s " + wire.hexs(p[1])
    if k == "v":
        if p[1] < 0 or p[2] < 0:
            raise wire.OutOfFragment("negative bv payload")
        return "v %d %d" % (p[1], p[2])
    if k == "n":
        if any((not isinstance(x, int)) or x < 0 for x in p[1:]):
            raise wire.OutOfFragment("negative index in payload")
        return "n %d%s" % (len(p) - 1, "".join(" %d" % x for x in p[1:]))
    if k == "y":
        return "y %s %s" % (wire.hexs(p[1]), enc_symsort(p[2]))
    if k == "Q":
        for (_, t) in p[1:]:
            if is_fn(t):
                raise wire.OutOfFragment("bound variable is a function symbol")
        return "Q %d%s" % (len(p) - 1, "".join(" %s %s" % (wire.hexs(n), enc_sort(t)) for n, t in p[1:]))
    if k == "t":
        return "t " + enc_sort(p[1])
    raise wire.OutOfFragment("payload %r" % (p,))


def enc_raw(t):
    """wire encoding of a raw tree (DAG; leaves de-duplicated structurally, inner nodes by object --
    hashing a deep nested tuple costs its size)"""
    idx = {}
    defs = []

    def go(n):
        k = n if not n[2] else id(n)
        if k in idx:
            return idx[k]
        ch = [go(c) for c in n[2]]
        defs.append("%s %s %d%s" % (n[0], enc_payload(n[1]), len(ch), "".join(" %d" % c for c in ch)))
        idx[k] = len(defs) - 1
        return idx[k]
    go(t)
    return "T %d %s" % (len(defs), " ".join(defs))


def raw_of_fnode(f):
    """structure of a real FNode as a raw tree (through wire.enc_term, i.e. through the
    public accessors only)"""
    nodes = wire.dec_term(wire.enc_term(f))
    built = []
    for (o, p, ch) in nodes:
        if p is not None and p[0] == "y":
            p = ("y", p[1], p[2] if p[2][0] != "F" else ("F", p[2][1], tuple(p[2][2])))
        built.append((o, p, tuple(built[c] for c in ch)))
    return built[-1]


def show_raw(t, depth=0):
    o, p, ch = t
    if o == "symbol":
        return "%s:%s" % (p[1], sort_name(p[2]))
    ps = ""
    if p is not None:
        if p[0] == "n":
            ps = "[%s]" % ",".join(str(x) for x in p[1:])
        elif p[0] == "y":
            ps = "[%s]" % p[1]
        elif p[0] in ("Q", "Q!"):
            ps = "[%s]" % ",".join(str(x[0]) for x in p[1:])
        else:
            ps = "[%s]" % " ".join(str(x) for x in p[1:])
    return "%s%s(%s)" % (o, ps, ", ".join(show_raw(c, depth + 1) for c in ch))


# =====================================================================================
# S oracle: the SMT-LIB sorting rules, written from the theory signatures (Core, Ints,
# Reals, Reals_Ints, FixedSizeBitVectors + extensions, ArraysEx, Strings) -- mirror of
# Spec/HasType.lean (`Sig`), NOT of pysmt/type_checker.py.
# rank(op, payload, argument sorts) -> result sort | None (no such rank: ill-sorted)
# =====================================================================================
BV_UN = {"bvNot", "bvNeg"}
BV_BIN = {"bvAnd", "bvOr", "bvXor", "bvAdd", "bvSub", "bvMul", "bvUdiv", "bvUrem", "bvLshl", "bvLshr",
          "bvSdiv", "bvSrem", "bvAshr"}
BV_REL = {"bvUlt", "bvUle", "bvSlt", "bvSle"}


def _nat(x):
    return isinstance(x, int) and not isinstance(x, bool) and x >= 0


def rank(o, p, ss):
    n = len(ss)
    if any(s is None or is_fn(s) for s in ss):
        return None                      # an argument is not a term
    # ---- Core
    if o == "boolConst":
        return B if n == 0 and p is not None and p[0] == "b" else None
    if o == "not":
        return B if ss == [B] else None
    if o in ("implies", "iff"):
        return B if ss == [B, B] else None
    if o in ("and", "or"):
        return B if n >= 2 and all(s == B for s in ss) else None
    if o == "equals":                    # pySMT reserves Iff for Bool: `=` on Bool is not an `equals` node
        return B if n == 2 and ss[0] == ss[1] and ss[0] != B else None
    if o == "ite":
        return ss[1] if n == 3 and ss[0] == B and ss[1] == ss[2] else None
    # ---- symbols, applications, binders
    if o == "symbol":
        return p[2] if n == 0 and p is not None and p[0] == "y" and not is_fn(p[2]) else None
    if o == "function":
        if p is None or p[0] != "y" or not is_fn(p[2]):
            return None
        return p[2][1] if tuple(ss) == tuple(p[2][2]) else None
    if o in ("forall", "exists"):
        if p is None or p[0] != "Q" or len(p) < 2 or any(is_fn(t) for _, t in p[1:]):
            return None                  # ("Q!", ...) = something that is not a sorted variable
        return B if ss == [B] else None
    # ---- Ints, Reals, Reals_Ints
    if o == "intConst":
        return I if n == 0 and p is not None and p[0] == "i" else None
    if o == "realConst":
        return R if n == 0 and p is not None and p[0] == "q" else None
    if o == "algebraicConst":
        return R if n == 0 else None
    if o in ("plus", "times"):
        return ss[0] if n >= 2 and ss[0] in (I, R) and all(s == ss[0] for s in ss) else None
    if o in ("minus", "div"):
        return ss[0] if n == 2 and ss[0] in (I, R) and ss[0] == ss[1] else None
    if o in ("le", "lt"):
        return B if n == 2 and ss[0] in (I, R) and ss[0] == ss[1] else None
    if o == "toReal":
        return R if ss == [I] else None
    if o == "pow":
        return R if n == 2 and ss[0] in (I, R) and ss[0] == ss[1] else None
    # ---- FixedSizeBitVectors
    if o == "bvConst":
        return V(p[2]) if n == 0 and p is not None and p[0] == "v" and _nat(p[1]) and _nat(p[2]) else None
    isbv = [s[0] == "V" for s in ss]
    pn = list(p[1:]) if p is not None and p[0] == "n" else None
    if o in BV_UN:
        return ss[0] if n == 1 and isbv[0] and pn == [ss[0][1]] else None
    if o in BV_BIN:
        return ss[0] if n == 2 and isbv[0] and ss[0] == ss[1] and pn == [ss[0][1]] else None
    if o in BV_REL:
        return B if n == 2 and isbv[0] and ss[0] == ss[1] else None
    if o == "bvComp":
        return V(1) if n == 2 and isbv[0] and ss[0] == ss[1] and pn == [1] else None
    if o == "bvConcat":
        return V(ss[0][1] + ss[1][1]) if n == 2 and all(isbv) and pn == [ss[0][1] + ss[1][1]] else None
    if o == "bvExtract":                 # ((_ extract i j) (_ BitVec m)) : (_ BitVec i-j+1), m > i >= j >= 0
        if n != 1 or not isbv[0] or pn is None or len(pn) != 3:
            return None
        w, j, i = pn
        if not (_nat(i) and _nat(j) and j <= i < ss[0][1] and w == i - j + 1):
            return None
        return V(w)
    if o in ("bvRol", "bvRor"):          # (_ rotate_left i), i >= 0
        if n != 1 or not isbv[0] or pn is None or len(pn) != 2:
            return None
        return ss[0] if pn[0] == ss[0][1] and _nat(pn[1]) else None
    if o in ("bvZext", "bvSext"):        # (_ zero_extend i), i >= 0 : (_ BitVec m+i)
        if n != 1 or not isbv[0] or pn is None or len(pn) != 2:
            return None
        return V(pn[0]) if _nat(pn[1]) and pn[0] == ss[0][1] + pn[1] else None
    if o == "bvToNatural":
        return I if n == 1 and isbv[0] else None
    # ---- Strings
    if o == "strConst":
        return S if n == 0 and p is not None and p[0] == "s" else None
    if o in ("strLength", "strToInt"):
        return I if ss == [S] else None
    if o == "intToStr":
        return S if ss == [I] else None
    if o == "strConcat":
        return S if n >= 2 and all(s == S for s in ss) else None
    if o in ("strContains", "strPrefixOf", "strSuffixOf"):
        return B if ss == [S, S] else None
    if o == "strIndexOf":
        return I if ss == [S, S, I] else None
    if o == "strReplace":
        return S if ss == [S, S, S] else None
    if o == "strSubstr":
        return S if ss == [S, I, I] else None
    if o == "strCharAt":
        return S if ss == [S, I] else None
    # ---- ArraysEx (+ constant arrays)
    if o == "arraySelect":
        return ss[0][2] if n == 2 and ss[0][0] == "A" and ss[0][1] == ss[1] else None
    if o == "arrayStore":
        return ss[0] if n == 3 and ss[0][0] == "A" and ss[0][1] == ss[1] and ss[0][2] == ss[2] else None
    if o == "arrayValue":
        if p is None or p[0] != "t" or n % 2 != 1:
            return None
        idx, d = p[1], ss[0]
        if all(s == idx for s in ss[1::2]) and all(s == d for s in ss[2::2]):
            return A(idx, d)
        return None
    return None


def sort_of(t, memo=None):
    """sort of a raw tree by the rules, None if ill-sorted (memo by object: see enc_raw)"""
    if memo is None:
        memo = {}
    k = t if not t[2] else id(t)
    if k in memo:
        return memo[k]
    o, p, ch = t
    ss = [sort_of(c, memo) for c in ch]
    r = None if any(s is None for s in ss) else rank(o, p, ss)
    memo[k] = r
    return r


# =====================================================================================
# grid A: create_node on every node type
# =====================================================================================
NO_PAYLOAD = ["and", "or", "not", "implies", "iff", "plus", "minus", "times", "le", "lt", "equals", "ite", "toReal",
              "div", "pow", "bvUlt", "bvUle", "bvSlt", "bvSle", "bvToNatural", "strLength", "strConcat",
              "strContains", "strIndexOf", "strReplace", "strSubstr", "strPrefixOf", "strSuffixOf", "strToInt",
              "intToStr", "strCharAt", "arraySelect", "arrayStore", "algebraicConst"]
# operators whose checker rule does not fix the arity, or silently ignores extra arguments
NARY = ["and", "or", "plus", "times", "strConcat", "arrayValue", "function", "ite", "arrayStore", "bvAnd", "bvAdd",
        "equals"]
FN_SYMS = [("f", F(I, I)), ("g", F(B, B, I)), ("h", F(CS, CS))]


def payload_corners(o):
    """(payloads used for arity <= 2, payloads used for arity >= 3)"""
    if o in NO_PAYLOAD:
        return [None], [None]
    if o == "boolConst":
        return [("b", True), None], [("b", False)]
    if o == "intConst":
        return [("i", 3), None], [("i", -1)]
    if o == "realConst":
        return [("q", Fraction(1, 2)), None], [("q", Fraction(3))]
    if o == "strConst":
        return [("s", "ab"), None], [("s", "")]
    if o == "bvConst":
        return [("v", 5, 8), ("v", 300, 8), ("v", 0, 1), None], [("v", 1, 2)]
    if o == "symbol":
        return [("y", "c_" + n, s) for n, s in UNIVERSE], [("y", "c_Int", I)]
    if o == "function":
        ps = [("y", n, s) for n, s in FN_SYMS]
        return ps + [("y", "c_Int", I)], ps
    if o in ("forall", "exists"):
        return [("Q", ("qi", I)), ("Q", ("qb", B), ("qv", V(8))), ("Q",), ("Q", ("qf", F(I, I))),
                ("Q", ("qi", I), ("qf", F(I, I))), ("Q", ("qf", F(I, I)), ("qi", I)),
                ("Q", ("qi", I), ("qb", B), ("qf", F(I, I))), ("Q", ("qf", F(I, I)), ("qi", I), ("qb", B)),
                ("Q", ("qi", I), ("qf", F(I, I)), ("qb", B)), ("Q", ("qf", F(I, I)), ("qg", F(B, B, I))), None], \
               [("Q", ("qi", I))]
    if o in BV_UN or o in BV_BIN:
        return [ints(1), ints(2), ints(8), ints(3), ints(8, 1), ints(), None], [ints(8), ints(2)]
    if o == "bvComp":
        return [ints(1), ints(8), None], [ints(1)]
    if o == "bvConcat":
        return [ints(w) for w in (2, 3, 4, 9, 10, 16, 5)] + [None], [ints(16), ints(3)]
    if o == "bvExtract":
        c = []
        for lo in (0, 1, 7, 8):
            for hi in (0, 1, 7, 8):
                if hi >= lo:
                    c.append(ints(hi - lo + 1, lo, hi))
                    c.append(ints(hi - lo + 2, lo, hi))
        c += [ints(0, 1, 0), ints(0, 8, 7), ints(1, 0), ints(8), ints(2, -1, 0), None]
        return c, [ints(1, 0, 0), ints(8, 0, 7)]
    if o in ("bvRol", "bvRor"):
        return [ints(8, 0), ints(8, 1), ints(8, 8), ints(8, 9), ints(2, 2), ints(2, 3), ints(1, 0), ints(1, 1),
                ints(1, 2), ints(3, 1), ints(8, -1), ints(8), None], [ints(8, 1), ints(2, 0)]
    if o in ("bvZext", "bvSext"):
        return [ints(8, 0), ints(9, 1), ints(16, 8), ints(8, 7), ints(10, 7), ints(2, 1), ints(3, 1), ints(1, 0),
                ints(7, 0), ints(7, -1), ints(9, -1), ints(9), None], [ints(9, 1), ints(2, 0)]
    if o == "arrayValue":
        return [("t", I), ("t", V(2)), ("t", B), None], [("t", I), ("t", V(2))]
    raise KeyError(o)


def real_payload(env, o, p):
    mgr = env.formula_manager
    if p is None:
        return "alg" if o == "algebraicConst" else None
    k = p[0]
    if k in ("b", "i", "s"):
        return p[1]
    if k == "q":
        return Fraction(p[1])
    if k == "v":
        return (p[1], p[2])
    if k == "n":
        return tuple(p[1:])
    if k == "y":
        if o == "symbol":
            return (p[1], to_pysmt(env, p[2]))
        return mgr.Symbol(p[1], to_pysmt(env, p[2]))
    if k == "Q":
        return tuple(mgr.Symbol(n, to_pysmt(env, t)) for n, t in p[1:])
    if k == "t":
        return to_pysmt(env, p[1])
    raise ValueError(p)


def fnode_of_raw(env, t, memo=None):
    """raw tree -> FNode through create_node (used by replay)"""
    if memo is None:
        memo = {}
    if t in memo:
        return memo[t]
    o, p, ch = t
    args = tuple(fnode_of_raw(env, c, memo) for c in ch)
    f = env.formula_manager.create_node(wire.OPID[o], args, real_payload(env, o, p))
    memo[t] = f
    return f


def raw_of_wire(line):
    nodes = wire.dec_term(wire.Tok(line.split()[1:]))
    built = []
    for (o, p, ch) in nodes:
        if p is not None and p[0] == "y" and p[2][0] == "F":
            p = ("y", p[1], ("F", p[2][1], tuple(p[2][2])))
        built.append((o, p, tuple(built[c] for c in ch)))
    return built[-1]


def arg_sym(pos, s):
    return sym("a%d_%s" % (pos, SNAME[s]), s)


U12 = [s_ for s_ in U14 if not is_fn(s_)] + [F(I, I)]
U8 = [B, I, R, S, V(2), V(8), A(I, I), F(I, I)]
U5 = [B, I, V(8), A(I, I), F(I, I)]
U3 = [B, I, V(8)]
TERNARY = {"ite", "arrayStore", "strIndexOf", "strSubstr", "strReplace"}
TERNARY_OR_NARY = {"ite", "arrayStore", "strIndexOf", "strSubstr", "strReplace", "and", "or", "plus", "times",
                   "strConcat", "function", "arrayValue"}


def grid_a_cases(o, tier):
    """quick tier: arity 3 over 12 sorts (11 + one function sort) for the ternary operators, over 8 sorts
    for the n-ary ones, over 5 sorts for the others (where a third argument is only an extra one);
    thorough tier: all 14 sorts everywhere"""
    small, big = payload_corners(o)
    for n in range(0, 3):
        for ss in itertools.product(U14, repeat=n):
            for p in small:
                yield ss, p
    u3 = U14 if tier != "quick" else (U12 if o in TERNARY else (U8 if o in TERNARY_OR_NARY else U5))
    for ss in itertools.product(u3, repeat=3):
        for p in big:
            yield ss, p
    if o in NARY:
        for n in (4, 5):
            uni = U4 if (tier != "quick" or n == 4) else U3
            for ss in itertools.product(uni + ([S] if o == "strConcat" else []), repeat=n):
                for p in big:
                    yield ss, p


def outcome_of(fn):
    """run a constructor call; ('ok', fnode) | ('err', exception class name)"""
    try:
        return ("ok", fn())
    except (PysmtException, AssertionError, AttributeError, TypeError, ValueError, IndexError, KeyError,
            ZeroDivisionError, OverflowError, RecursionError) as e:
        return ("err", type(e).__name__)


REPEAT_STRIDE = 5


def repeat_rejected(res, idx, off, call, describe):
    """the "repeat" dimension: a rejected call is attempted a second and a third time on the SAME
    environment (every call rejected with a class other than PysmtTypeError, every 5th of the others --
    residue chosen by the seed; all of them when off is None): the rejection must repeat.
    Returns res extended by the tuple of the later outcomes."""
    if res[0] != "err":
        return res
    if off is not None and res[1] == "PysmtTypeError" and idx % REPEAT_STRIDE != off:
        return res
    later = []
    for _ in range(2):
        r2 = outcome_of(call)
        later.append(("ok", describe(r2[1])) if r2[0] == "ok" else ("err", r2[1]))
    return (res[0], res[1], tuple(later))


def run_grid_a_op(job):
    """worker: all grid-A cases of one operator -> list of (sorts, payload, raw tree, impl outcome)"""
    o, tier = job[0], job[1]
    off = job[2] if len(job) > 2 else None
    env = Environment()
    mgr = env.formula_manager
    nt = wire.OPID[o]
    symcache = {}

    def real_sym(pos, s):
        k = (pos, s)
        if k not in symcache:
            symcache[k] = mgr.Symbol("a%d_%s" % (pos, SNAME[s]), to_pysmt(env, s))
        return symcache[k]
    out = []
    pcache = {}
    cases = [(ss, p, False) for ss, p in grid_a_cases(o, tier)]
    # the same node in every argument position (hash-consing makes equal operands one object)
    small, big = payload_corners(o)
    cases += [((s_, s_), p, True) for s_ in U14 for p in small] + [((s_, s_, s_), p, True) for s_ in U14 for p in big]
    # sorts that print like another sort (declared `Int`, `Pair{Int}` vs Pair(Int), declared Array/2 ...)
    few = list(dict.fromkeys(list(big) + list(small[:2])))
    cases += [(ss, p, False) for n_ in (1, 2) for ss in itertools.product(UC, repeat=n_) for p in few]
    if o in ("ite", "arrayStore", "function", "arrayValue"):
        cases += [(ss, p, False) for ss in itertools.product(UC, repeat=3) for p in big]
    def describe(f):
        try:
            return sort_name(from_pysmt(env.stc.get_type(f)))
        except Exception as e:          # noqa
            return "get_type:" + type(e).__name__
    for idx, (ss, p, same) in enumerate(cases):
        if p not in pcache:
            pcache[p] = real_payload(env, o, p)
        args = tuple(real_sym(0 if same else i, s) for i, s in enumerate(ss))
        call = lambda: mgr.create_node(nt, args, pcache[p])      # noqa
        res = repeat_rejected(outcome_of(call), idx, off, call, describe)
        if res[0] == "ok":
            try:
                res = ("ok", from_pysmt(env.stc.get_type(res[1])))
            except Exception as e:          # noqa
                res = ("err", "get_type:" + type(e).__name__)
        raw = (o, p, tuple(arg_sym(0 if same else i, s) for i, s in enumerate(ss)))
        out.append((ss, p, raw, res))
    return out


# =====================================================================================
# grid B: every FormulaManager constructor
#   model_*  : the raw tree the constructor builds (mirror of pysmt/formula.py, incl. its own
#              assertions/checks -> Reject) -- checked against the real result (structure) and
#              against typeOf/wt of the Lean model
#   crank    : the rank of the constructor read as an SMT-LIB operator (independent oracle S)
# =====================================================================================
class Reject(Exception):
    """a check of the constructor itself (before/around create_node) refuses the call"""


TRUE_T = ("boolConst", ("b", True), ())
FALSE_T = ("boolConst", ("b", False), ())


def int_t(v):
    return ("intConst", ("i", v), ())


def real_t(v):
    return ("realConst", ("q", Fraction(v)), ())


def str_t(v):
    return ("strConst", ("s", v), ())


def bv_t(v, w):
    return ("bvConst", ("v", v, w), ())


BV_OPERATOR_NAMES = BV_UN | BV_BIN | {"bvConcat", "bvExtract", "bvRol", "bvRor", "bvZext", "bvSext", "bvComp"}
CONST_OPS = {"boolConst", "intConst", "realConst", "strConst", "bvConst", "algebraicConst"}


def sym_sort(t):
    return t[1][2] if t[0] == "symbol" else None


def bvw(t):
    """mirror of FNode.bv_width"""
    o, p, ch = t
    if o == "bvConst":
        return p[2]
    if o == "symbol":
        if p[2][0] != "V":
            raise Reject("bv_width: symbol is not a bit-vector")
        return p[2][1]
    if o == "function":
        ret = p[2][1]
        if ret[0] != "V":
            raise Reject("bv_width: function does not return a bit-vector")
        return ret[1]
    if o == "ite":
        n = ch[1]
        while n[0] == "ite":
            n = n[2][1]
        return bvw(n)
    if o == "arraySelect":
        s = sym_sort(ch[0])
        if s is None or s[0] != "A" or s[2][0] != "V":
            raise Reject("bv_width: select over a non-BV array")
        return s[2][1]
    if o in BV_OPERATOR_NAMES:
        if p is None or p[0] != "n" or len(p) < 2:
            raise Reject("bv_width: no cached width")
        return p[1]
    raise Reject("bv_width: not a bit-vector operator")


def is_const(t):
    if t[0] in CONST_OPS:
        return True
    if t[0] == "arrayValue":
        return all(is_const(c) for c in t[2])
    return False


def m_not(a):
    return a[2][0] if a[0] == "not" else node("not", None, a)


def m_nary(o, args, empty):
    if len(args) == 0:
        if empty is None:
            raise Reject("no arguments")
        return empty
    if len(args) == 1:
        return args[0]
    return node(o, None, *args)


def m_bvbin(o, a, b):
    return node(o, ints(bvw(a)), a, b)


def m_bvfold(o, args):
    if len(args) == 0:
        raise Reject("no arguments")
    res = args[0]
    for a in args[1:]:
        res = node(o, ints(bvw(res)), res, a)
    return res


def m_concat(args):
    if len(args) < 2:
        raise Reject("BVConcat needs two arguments")
    base = node("bvConcat", ints(bvw(args[0]) + bvw(args[1])), args[0], args[1])
    for e in args[2:]:
        base = node("bvConcat", ints(bvw(base) + bvw(e)), base, e)
    return base


def m_extract(a, start, end):
    if end is None:
        end = bvw(a) - 1
    if not (isinstance(start, int) and isinstance(end, int)) or not (end >= start and start >= 0):
        raise Reject("BVExtract: assertion on start/end")
    size = end - start + 1
    if not size <= bvw(a):
        raise Reject("BVExtract: size exceeds width")
    return node("bvExtract", ints(size, start, end), a)


def m_bvconst(value, width):
    if isinstance(value, str):
        if value.startswith("#b"):
            sw = len(value) - 2
            try:
                value = int(value[2:], 2)
            except ValueError:
                raise Reject("BV: bad binary string")
        elif all(v in "01" for v in value):
            sw = len(value)
            try:
                value = int(value, 2)
            except ValueError:
                raise Reject("BV: empty string")
        else:
            raise Reject("BV: not a binary string")
        if width is not None and width != sw:
            raise Reject("BV: width mismatch")
        width = sw
    if width is None:
        raise Reject("BV: no width")
    if width <= 0:
        raise Reject("BV: width is not positive")
    if type(value) is not int:
        raise Reject("BV: value is not an integer")
    if value < 0:
        raise Reject("BV: negative value")
    try:
        if value >= 2 ** width:
            raise Reject("BV: value does not fit")
    except (TypeError, ValueError):
        raise Reject("BV: bad width")
    return bv_t(value, width)


def m_sbv(value, width):
    if type(value) is int:
        if width is None:
            raise Reject("SBV: no width")
        try:
            lo, hi = -(2 ** (width - 1)), 2 ** (width - 1) - 1
        except (TypeError, ValueError):
            raise Reject("SBV: bad width")
        if isinstance(lo, float) or value < lo or value > hi:
            raise Reject("SBV: out of range")
        return m_bvconst(value if value >= 0 else 2 ** width + value, width)
    return m_bvconst(value, width)


def m_shift(o, a, b):
    if type(b) is int:
        b = m_bvconst(b, bvw(a))
    elif not isinstance(b, tuple):
        raise Reject("shift amount is not a term")
    return node(o, ints(bvw(a)), a, b)


def m_minmax(le, args, is_min):
    if len(args) == 0:
        raise Reject("Min/Max of nothing")
    if len(args) == 1:
        return args[0]
    if len(args) == 2:
        a, b = args
        return node("ite", None, le(a, b), a, b) if is_min else node("ite", None, le(a, b), b, a)
    h = len(args) // 2
    return m_minmax(le, [m_minmax(le, args[:h], is_min), m_minmax(le, args[h:], is_min)], is_min)


def m_atmostone(args):
    cs = []
    for i, e in enumerate(args[:-1], start=1):
        cs.append(node("implies", None, e, m_not(m_nary("or", args[i:], FALSE_T))))
    return m_nary("and", cs, TRUE_T)


def impl_is_bool(t):
    """what `env.stc.get_type(t).is_bool_type()` answers for the argument terms of the grid"""
    s = sym_sort(t)
    if s is not None:
        return s == B
    return t[0] in ("boolConst", "not", "and", "or", "iff", "implies", "equals", "le", "lt")


def m_eq_or_iff(a, b):
    return node("iff", None, a, b) if impl_is_bool(a) else node("equals", None, a, b)


def m_smod(s, t):
    m = bvw(s)
    zero1, one1 = bv_t(0, 1), bv_t(1, 1)

    def eq(x, y):
        return node("equals", None, x, y)

    def neg(x):
        return node("bvNeg", ints(bvw(x)), x)

    def ite(c, x, y):
        return node("ite", None, c, x, y)
    msb_s = m_extract(s, m - 1, m - 1)
    msb_t = m_extract(t, m - 1, m - 1)
    abs_s = ite(eq(msb_s, zero1), s, neg(s))
    abs_t = ite(eq(msb_t, zero1), t, neg(t))
    u = m_bvbin("bvUrem", abs_s, abs_t)
    cond1 = eq(u, m_bvconst(0, m))
    cond2 = node("and", None, eq(msb_s, zero1), eq(msb_t, zero1))
    cond3 = node("and", None, eq(msb_s, one1), eq(msb_t, zero1))
    cond4 = node("and", None, eq(msb_s, zero1), eq(msb_t, one1))
    case3 = m_bvfold("bvAdd", [neg(u), t])
    case4 = m_bvfold("bvAdd", [u, t])
    case5 = neg(u)
    return ite(node("or", None, cond1, cond2), u, ite(cond3, case3, ite(cond4, case4, case5)))


def le_t(a, b):
    return node("le", None, a, b)


def sort_of_impl(t):
    """get_type of a constant index (the argument terms of the grid are well-typed)"""
    return sort_of(t)


def model(name, args, extra):
    """raw tree built by FormulaManager.<name>(args..., extra...) or Reject"""
    a = list(args)
    n = len(a)
    simple1 = {"StrLength": "strLength", "StrToInt": "strToInt", "IntToStr": "intToStr", "BVToNatural": "bvToNatural"}
    simple2 = {"Implies": "implies", "Iff": "iff", "Minus": "minus", "Equals": "equals", "LE": "le", "LT": "lt",
               "BVULT": "bvUlt", "BVULE": "bvUle", "BVSLT": "bvSlt", "BVSLE": "bvSle", "StrContains": "strContains",
               "StrPrefixOf": "strPrefixOf", "StrSuffixOf": "strSuffixOf", "StrCharAt": "strCharAt",
               "Select": "arraySelect"}
    swapped2 = {"GE": "le", "GT": "lt", "BVUGT": "bvUlt", "BVUGE": "bvUle", "BVSGT": "bvSlt", "BVSGE": "bvSle"}
    simple3 = {"Ite": "ite", "StrIndexOf": "strIndexOf", "StrReplace": "strReplace", "StrSubstr": "strSubstr",
               "Store": "arrayStore"}
    bvbin = {"BVXor": "bvXor", "BVSub": "bvSub", "BVUDiv": "bvUdiv", "BVURem": "bvUrem", "BVSDiv": "bvSdiv",
             "BVSRem": "bvSrem"}
    bvfold = {"BVAnd": "bvAnd", "BVOr": "bvOr", "BVAdd": "bvAdd", "BVMul": "bvMul"}
    if name in simple1:
        return node(simple1[name], None, a[0])
    if name in simple2:
        return node(simple2[name], None, a[0], a[1])
    if name in swapped2:
        return node(swapped2[name], None, a[1], a[0])
    if name in simple3:
        return node(simple3[name], None, *a)
    if name in bvbin:
        return m_bvbin(bvbin[name], a[0], a[1])
    if name in bvfold:
        return m_bvfold(bvfold[name], a)
    if name == "Not":
        return m_not(a[0])
    if name == "And":
        return m_nary("and", a, TRUE_T)
    if name == "Or":
        return m_nary("or", a, FALSE_T)
    if name == "Plus":
        return m_nary("plus", a, None)
    if name == "Times":
        return m_nary("times", a, None)
    if name == "StrConcat":
        if n <= 1:
            raise Reject("StrConcat needs two arguments")
        return node("strConcat", None, *a)
    if name == "NotEquals":
        return m_not(node("equals", None, a[0], a[1]))
    if name == "Xor":
        return m_not(node("iff", None, a[0], a[1]))
    if name == "EqualsOrIff":
        return m_eq_or_iff(a[0], a[1])
    if name == "AllDifferent":
        res = []
        for i, x in enumerate(a):
            for y in a[i + 1:]:
                res.append(m_not(m_eq_or_iff(x, y)))
        return m_nary("and", res, TRUE_T)
    if name == "AtMostOne":
        return m_atmostone(a)
    if name == "ExactlyOne":
        return m_nary("and", [m_nary("or", a, FALSE_T), m_atmostone(a)], TRUE_T)
    if name in ("Min", "Max"):
        return m_minmax(le_t, a, name == "Min")
    if name in ("MinBV", "MaxBV"):
        o = "bvSle" if extra[0] else "bvUle"
        return m_minmax(lambda x, y: node(o, None, x, y), a, name == "MinBV")
    if name == "ToReal":
        s = sort_of(a[0])              # the arguments of the grid are well-typed terms
        if s == R:
            return a[0]
        if s == I:
            if a[0][0] == "intConst":
                return real_t(a[0][1][1])
            return node("toReal", None, a[0])
        raise Reject("ToReal: argument is neither Int nor Real")
    if name == "Div":
        r_ = a[1]
        zero = (r_[0] == "realConst" and r_[1][1] == 0) or (r_[0] == "intConst" and r_[1][1] == 0)
        if not zero and r_[0] == "realConst":      # division by a real constant c is  left * (1/c)
            return node("times", None, a[0], real_t(Fraction(1) / r_[1][1]))
        return node("div", None, a[0], a[1])
    if name == "Pow":
        base, ex = a
        if not is_const(ex):
            raise Reject("Pow: exponent is not a constant")
        if is_const(base):
            raise Reject("?")                      # evaluated by python arithmetic: compared by value below
        return node("pow", None, base, ex)
    if name in ("BVNot", "BVNeg"):
        return node("bvNot" if name == "BVNot" else "bvNeg", ints(bvw(a[0])), a[0])
    if name == "BVComp":
        return node("bvComp", ints(1), a[0], a[1])
    if name in ("BVNand", "BVNor", "BVXnor"):
        inner = {"BVNand": lambda: m_bvfold("bvAnd", a), "BVNor": lambda: m_bvfold("bvOr", a),
                 "BVXnor": lambda: m_bvbin("bvXor", a[0], a[1])}[name]()
        return node("bvNot", ints(bvw(inner)), inner)
    if name == "BVSMod":
        return m_smod(a[0], a[1])
    if name == "BVConcat":
        return m_concat(a)
    if name == "BVExtract":
        return m_extract(a[0], extra[0], extra[1])
    if name in ("BVRol", "BVRor"):
        if type(extra[0]) is not int:
            raise Reject("rotate: steps is not an integer")
        return node("bvRol" if name == "BVRol" else "bvRor", ints(bvw(a[0]), extra[0]), a[0])
    if name in ("BVZExt", "BVSExt"):
        if type(extra[0]) is not int:
            raise Reject("extend: increase is not an integer")
        return node("bvZext" if name == "BVZExt" else "bvSext", ints(bvw(a[0]) + extra[0], extra[0]), a[0])
    if name == "BVRepeat":
        if extra[0] < 1:
            raise Reject("BVRepeat: count below one")
        res = a[0]
        for _ in range(extra[0] - 1):
            res = m_concat([res, a[0]])
        return res
    if name in ("BVLShl", "BVLShr", "BVAShr"):
        o = {"BVLShl": "bvLshl", "BVLShr": "bvLshr", "BVAShr": "bvAshr"}[name]
        return m_shift(o, a[0], a[1] if n == 2 else extra[0])
    if name == "Function":
        f = extra[0]                # raw symbol
        if n == 0:
            return f
        fs = sym_sort(f)
        if not is_fn(fs):
            raise Reject("Function: name has no parameter types")
        if n != len(fs[2]):
            raise Reject("Function: wrong number of parameters")
        return node("function", ("y", f[1][1], fs), *a)
    if name in ("ForAll", "Exists"):
        vs = extra[0]               # list of raw trees
        if len(vs) == 0:
            return a[0]
        if all(v[0] == "symbol" for v in vs):
            pl = ("Q",) + tuple((v[1][1], v[1][2]) for v in vs)
        else:
            pl = ("Q!",) + tuple((show_raw(v),) for v in vs)
        return node("forall" if name == "ForAll" else "exists", pl, a[0])
    if name == "Array":
        idx, assigned = extra
        if idx is None:
            raise Reject("Array: idx_type is not a type")
        out = [a[0]]
        if assigned:
            for k, v in assigned:
                if not is_const(k):
                    raise Reject("Array: index is not a constant")
                if v == a[0] and sort_of_impl(k) != idx:
                    raise Reject("Array: dropped (default-valued) assignment has an index of the wrong type")
            out = None                  # argument order = CPython id() order: compared as a set below
        return ("arrayValue", ("t", idx), tuple(out)) if out is not None else ("arrayValue?", ("t", idx), (a[0], assigned))
    raise KeyError(name)


def numeric(s):
    return s in (I, R)


def same(ss):
    return all(s == ss[0] for s in ss)


def is_bv(s):
    return s is not None and s[0] == "V"


def crank(name, ss, extra):
    """sort of FormulaManager.<name> read as an SMT-LIB operator on arguments of sorts ss
    (None: ill-sorted).  Independent of pysmt/type_checker.py."""
    n = len(ss)
    if any(s is None or is_fn(s) for s in ss):
        return None
    if name in ("And", "Or", "AtMostOne", "ExactlyOne"):
        return B if all(s == B for s in ss) else None
    if name == "Not":
        return B if ss == [B] else None
    if name in ("Implies", "Iff", "Xor"):
        return B if ss == [B, B] else None
    if name in ("Plus", "Times", "Min", "Max"):
        return ss[0] if n >= 1 and numeric(ss[0]) and same(ss) else None
    if name in ("Minus", "Div"):
        return ss[0] if n == 2 and numeric(ss[0]) and same(ss) else None
    if name in ("LE", "LT", "GE", "GT"):
        return B if n == 2 and numeric(ss[0]) and same(ss) else None
    if name in ("Equals", "NotEquals"):
        return B if n == 2 and same(ss) and ss[0] != B else None
    if name == "EqualsOrIff":
        return B if n == 2 and same(ss) else None
    if name == "AllDifferent":               # distinct
        return B if n == 0 or same(ss) else None
    if name == "Ite":
        return ss[1] if n == 3 and ss[0] == B and ss[1] == ss[2] else None
    if name == "ToReal":                     # documented: the cast of a Real is the identity
        return R if ss in ([I], [R]) else None
    if name == "Pow":                        # documented precondition: the exponent is a constant
        return R if n == 2 and numeric(ss[0]) and same(ss) and extra and extra[0] else None
    if name in ("BVNot", "BVNeg"):
        return ss[0] if n == 1 and is_bv(ss[0]) else None
    if name in ("BVAnd", "BVOr", "BVAdd", "BVMul", "MinBV", "MaxBV"):
        return ss[0] if n >= 1 and is_bv(ss[0]) and same(ss) else None
    if name in ("BVXor", "BVSub", "BVUDiv", "BVURem", "BVSDiv", "BVSRem", "BVNand", "BVNor", "BVXnor", "BVSMod"):
        return ss[0] if n == 2 and is_bv(ss[0]) and same(ss) else None
    if name in ("BVLShl", "BVLShr", "BVAShr"):
        if n == 2:
            return ss[0] if is_bv(ss[0]) and same(ss) else None
        k = extra[0]                         # integer amount: the constant (_ bv<k> w)
        return ss[0] if n == 1 and is_bv(ss[0]) and type(k) is int and 0 <= k < 2 ** ss[0][1] else None
    if name in ("BVULT", "BVULE", "BVUGT", "BVUGE", "BVSLT", "BVSLE", "BVSGT", "BVSGE"):
        return B if n == 2 and is_bv(ss[0]) and same(ss) else None
    if name == "BVComp":
        return V(1) if n == 2 and is_bv(ss[0]) and same(ss) else None
    if name == "BVConcat":
        return V(sum(s[1] for s in ss)) if n >= 2 and all(is_bv(s) for s in ss) else None
    if name == "BVExtract":
        if n != 1 or not is_bv(ss[0]):
            return None
        start, end = extra
        if end is None:
            end = ss[0][1] - 1
        return V(end - start + 1) if _nat(start) and _nat(end) and start <= end < ss[0][1] else None
    if name in ("BVRol", "BVRor"):
        return ss[0] if n == 1 and is_bv(ss[0]) and _nat(extra[0]) else None
    if name in ("BVZExt", "BVSExt"):
        return V(ss[0][1] + extra[0]) if n == 1 and is_bv(ss[0]) and _nat(extra[0]) else None
    if name == "BVRepeat":                   # (_ repeat i), i >= 1
        return V(ss[0][1] * extra[0]) if n == 1 and is_bv(ss[0]) and _nat(extra[0]) and extra[0] >= 1 else None
    if name == "BVToNatural":
        return I if n == 1 and is_bv(ss[0]) else None
    if name in ("StrLength", "StrToInt"):
        return I if ss == [S] else None
    if name == "IntToStr":
        return S if ss == [I] else None
    if name == "StrConcat":
        return S if n >= 2 and all(s == S for s in ss) else None
    if name in ("StrContains", "StrPrefixOf", "StrSuffixOf"):
        return B if ss == [S, S] else None
    if name == "StrIndexOf":
        return I if ss == [S, S, I] else None
    if name == "StrReplace":
        return S if ss == [S, S, S] else None
    if name == "StrSubstr":
        return S if ss == [S, I, I] else None
    if name == "StrCharAt":
        return S if ss == [S, I] else None
    if name == "Select":
        return ss[0][2] if n == 2 and ss[0][0] == "A" and ss[0][1] == ss[1] else None
    if name == "Store":
        return ss[0] if n == 3 and ss[0][0] == "A" and ss[0][1] == ss[1] and ss[0][2] == ss[2] else None
    if name == "Function":
        fs = sym_sort(extra[0])
        if not is_fn(fs):
            return fs if n == 0 else None    # a constant "applied" to nothing is the constant
        return fs[1] if tuple(ss) == tuple(fs[2]) else None
    if name in ("ForAll", "Exists"):
        vs = extra[0]
        if any(v[0] != "symbol" or is_fn(sym_sort(v)) for v in vs):
            return None
        return B if ss == [B] else None      # an empty binder list leaves the body: it must still be a formula
    if name == "Array":
        idx, assigned = extra
        if idx is None or n != 1:
            return None
        for k, v in (assigned or []):
            # an array *value*: keys are constants of the index sort (documented precondition)
            if not is_const(k) or sort_of(k) != idx or sort_of(v) != ss[0]:
                return None
        return A(idx, ss[0])
    raise KeyError(name)


# ---------------------------------------------------------------- grid B: cases
UN_CTORS = ["Not", "ToReal", "BVNot", "BVNeg", "StrLength", "StrToInt", "IntToStr", "BVToNatural"]
BIN_CTORS = ["Implies", "Iff", "Minus", "Div", "Equals", "NotEquals", "GE", "GT", "LE", "LT", "Xor", "EqualsOrIff",
             "BVXor", "BVULT", "BVUGT", "BVULE", "BVUGE", "BVSub", "BVUDiv", "BVURem", "BVLShl", "BVLShr", "BVSLT",
             "BVSLE", "BVComp", "BVSDiv", "BVSRem", "BVAShr", "BVNand", "BVNor", "BVXnor", "BVSGT", "BVSGE", "BVSMod",
             "StrContains", "StrPrefixOf", "StrSuffixOf", "StrCharAt", "Select"]
TER_CTORS = ["Ite", "StrIndexOf", "StrReplace", "StrSubstr", "Store"]
NARY_CTORS = ["And", "Or", "Plus", "Times", "AtMostOne", "ExactlyOne", "AllDifferent", "Min", "Max", "BVAnd", "BVOr",
              "BVAdd", "BVMul", "BVConcat", "StrConcat", "MinBV", "MaxBV"]
INT_CTORS = ["BVExtract", "BVRol", "BVRor", "BVZExt", "BVSExt", "BVRepeat", "BVLShl", "BVLShr", "BVAShr"]
OTHER_CTORS = ["Function", "ForAll", "Exists", "Array", "Pow"]
ALL_GRID_CTORS = sorted(set(UN_CTORS + BIN_CTORS + TER_CTORS + NARY_CTORS + INT_CTORS + OTHER_CTORS))
U6 = [B, I, V(8), A(I, I), F(I, I), S]


def arg_syms(ss):
    return tuple(arg_sym(i, s) for i, s in enumerate(ss))


def width_corners(s):
    w = s[1] if is_bv(s) else 8
    return w


def rep_terms(s_):
    """operands used for the repeated-operand cases: the same symbol / constant / compound term of sort s_"""
    n_ = SNAME[s_]
    x = sym("r_" + n_, s_)
    out = [x]
    if s_ == B:
        out += [TRUE_T, node("not", None, sym("r2_Bool", B))]
    elif s_ == I:
        out += [int_t(7), node("plus", None, x, int_t(1))]
    elif s_ == R:
        out += [real_t(Fraction(1, 2)), node("plus", None, x, real_t(1))]
    elif s_ == S:
        out += [str_t("ab"), node("strConcat", None, x, str_t("a"))]
    elif is_bv(s_):
        out += [bv_t(1, s_[1]), node("bvNot", ints(s_[1]), x)]
    elif s_ == A(I, I):
        out += [node("arrayValue", ("t", I), int_t(0)), node("arrayStore", None, x, int_t(1), int_t(2))]
    elif s_ == A(V(2), B):
        out += [node("arrayValue", ("t", V(2)), FALSE_T), node("arrayStore", None, x, bv_t(1, 2), TRUE_T)]
    elif s_ == A(I, A(I, R)):
        inner = node("arrayValue", ("t", I), real_t(0))
        out += [node("arrayValue", ("t", I), inner), node("arrayStore", None, x, int_t(1), inner)]
    elif s_ == CS:
        out += [node("function", ("y", "h", F(CS, CS)), x)]
    return out


ALL_REP_TERMS = [t_ for s_ in U14 for t_ in rep_terms(s_)]


def repeated_tuples(n, others):
    """argument tuples of length n (2 or 3) in which two or all positions hold the SAME term"""
    for x in ALL_REP_TERMS:
        if n == 2:
            yield (x, x)
        else:
            yield (x, x, x)
            for s_ in others:
                yield (x, x, arg_sym(2, s_))
                yield (x, arg_sym(1, s_), x)
                yield (arg_sym(0, s_), x, x)


def grid_b_cases(name, tier):
    seen = set()
    for gen_ in (grid_b_cases_distinct, grid_b_cases_repeated, grid_b_cases_constants, grid_b_cases_confusable,
                 grid_b_cases_binders, grid_b_cases_large):
        for c in gen_(name, tier):
            if c not in seen:
                seen.add(c)
                yield c


ARR_II = node("arrayValue", ("t", I), int_t(0))
CONST_TERMS = [TRUE_T, FALSE_T, int_t(7), int_t(0), real_t(Fraction(1, 2)), real_t(0), str_t("ab"), bv_t(1, 1),
               bv_t(1, 2), bv_t(5, 8), ARR_II, node("arrayValue", ("t", V(2)), FALSE_T),
               node("arrayValue", ("t", I), node("arrayValue", ("t", I), real_t(0)))]
CONST6 = [TRUE_T, int_t(7), real_t(Fraction(1, 2)), str_t("ab"), bv_t(5, 8), ARR_II]


def grid_b_cases_constants(name, tier):
    """literal arguments of every sort: several constructors (ToReal, Div, Pow, Not ...) have shortcuts on
    constants that run before create_node"""
    if name in UN_CTORS:
        for c in CONST_TERMS:
            yield (c,), ()
    if name in BIN_CTORS:
        for c in CONST_TERMS:
            for d in CONST_TERMS:
                yield (c, d), ()
            for s_ in U6:
                yield (c, arg_sym(1, s_)), ()
                yield (arg_sym(0, s_), c), ()
    if name in TER_CTORS:
        for a in itertools.product(CONST6, repeat=3):
            yield a, ()
        for c in CONST6:
            for d in CONST6:
                for s_ in U6:
                    yield (arg_sym(0, s_), c, d), ()
                    yield (c, arg_sym(1, s_), d), ()
                    yield (c, d, arg_sym(2, s_)), ()
    if name in NARY_CTORS:
        signs = [(False,), (True,)] if name in ("MinBV", "MaxBV") else [()]
        for ex in signs:
            for c in CONST_TERMS:
                yield (c,), ex
                for d in CONST_TERMS:
                    yield (c, d), ex
            for a in itertools.product(CONST6, repeat=3):
                yield a, ex
    if name in INT_CTORS:
        for c in CONST_TERMS:
            so = sort_of(c)
            for (args, extra) in grid_b_cases_distinct(name, tier):
                if args == arg_syms((so if so in U14 else B,)):
                    yield (c,), extra
    if name == "Function":
        for fname, fs in FN_SYMS:
            for a in itertools.product(CONST_TERMS, repeat=len(fs[2])):
                yield a, (sym(fname, fs),)
    if name in ("ForAll", "Exists"):
        for vs in ((), (sym("qi", I),), (sym("qb", B), sym("qv", V(8)))):
            for c in CONST_TERMS:
                yield (c,), (vs,)


def grid_b_cases_confusable(name, tier):
    """argument sorts that print like another sort"""
    if name in UN_CTORS:
        for ss in itertools.product(UC, repeat=1):
            yield arg_syms(ss), ()
    if name in BIN_CTORS or name in NARY_CTORS:
        signs = [(False,), (True,)] if name in ("MinBV", "MaxBV") else [()]
        for ex in signs:
            for ss in itertools.product(UC, repeat=2):
                yield arg_syms(ss), ex
    if name in ("Ite", "Store"):
        for ss in itertools.product(UC, repeat=3):
            yield arg_syms(ss), ()
    if name == "Function":
        dP = ("C", "Pair{Int}")
        for fname, fs in [("fP", F(B, PAIR_INT)), ("fdP", F(B, dP)), ("fdI", F(I, ("C", "Int"))), ("f", F(I, I)),
                          ("fAIR", F(B, A(I, R))), ("fdA", F(B, P("Array", I, R)))]:
            for ss in itertools.product(UC, repeat=1):
                yield arg_syms(ss), (sym(fname, fs),)
        for fname, fs in [("hP", F(I, I, PAIR_INT)), ("hdP", F(I, I, dP))]:
            for ss in itertools.product(UC, repeat=2):
                yield arg_syms(ss), (sym(fname, fs),)
    if name in ("ForAll", "Exists"):
        for _, s_ in CONFUSABLE:
            for b_ in (B, ("C", "Bool")):
                yield arg_syms((b_,)), ((sym("qc_" + SNAME[s_], s_),),)
    if name == "Array":
        for idx in (PAIR_INT, ("C", "Pair{Int}"), ("C", "Int"), I):
            for d in (int_t(0), arg_sym(0, ("C", "Int")), arg_sym(0, PAIR_INT)):
                yield (d,), (idx, None)
                for k in (int_t(1), arg_sym(1, ("C", "Int"))):
                    yield (d,), (idx, ((k, int_t(5)),))


WIDE = [V(w_) for w_ in (63, 64, 65, 127, 128, 129, 300)]
for _s in WIDE:
    SNAME[_s] = "BV%d" % _s[1]
LINEAR_NARY = ["And", "Or", "Plus", "Times", "BVAnd", "BVOr", "BVAdd", "BVMul", "BVConcat", "StrConcat", "Min", "Max",
               "MinBV", "MaxBV"]
QUADRATIC_NARY = ["AtMostOne", "ExactlyOne", "AllDifferent"]
REPEAT_COUNTS = [63, 64, 65, 66, 67, 127, 128, 129, 130, 131, 255, 256, 257, 258, 999, 1000, 1001, 2049]


def grid_b_cases_large(name, tier):
    """extreme but legal sizes: repetition counts / extension amounts / rotation steps in the hundreds and
    thousands, bit-vectors of width 63..65, 127..129, 300, n-ary constructors with hundreds of arguments"""
    if name == "BVRepeat":
        for s_ in (V(1), V(8), V(64)) if True else ():
            if s_ not in SNAME:
                SNAME[s_] = "BV%d" % s_[1]
            for k in REPEAT_COUNTS:
                yield arg_syms((s_,)), (k,)
        for s_ in (B, I, A(I, I)):
            for k in (65, 1000):
                yield arg_syms((s_,)), (k,)
    if name in ("BVZExt", "BVSExt"):
        for s_ in [V(1), V(8)] + WIDE + [I]:
            for k in (63, 64, 100, 255, 256, 1000, 4096):
                yield arg_syms((s_,)), (k,)
    if name in ("BVRol", "BVRor"):
        for s_ in [V(8)] + WIDE:
            w = s_[1]
            for k in sorted({63, 64, 65, 100, 255, 300, 301, 1000, w - 1, w, w + 1}):
                yield arg_syms((s_,)), (k,)
    if name == "BVExtract":
        for s_ in WIDE:
            w = s_[1]
            for st, en in ((0, w - 1), (0, w), (w - 1, w - 1), (w, w), (1, w - 2), (w // 2, w // 2 - 1), (63, 64), (0, 63)):
                yield arg_syms((s_,)), (st, en)
    if name in ("BVLShl", "BVLShr", "BVAShr"):
        for s_ in WIDE:
            w = s_[1]
            for k in (0, w, 2 ** w - 1, 2 ** w):
                yield arg_syms((s_,)), (k,)
    if name in UN_CTORS:
        for s_ in WIDE:
            yield arg_syms((s_,)), ()
    if name in BIN_CTORS:
        for s_ in WIDE:
            for t_ in WIDE + [V(8), I]:
                yield arg_syms((s_, t_)), ()
    if name in LINEAR_NARY or name in QUADRATIC_NARY:
        ns = (100, 300) if name in LINEAR_NARY else (40,)
        signs = [(False,), (True,)] if name in ("MinBV", "MaxBV") else [()]
        for ex in signs:
            for n_ in ns:
                for s_ in (B, I, R, S, V(8), V(64)):
                    if s_ not in SNAME:
                        SNAME[s_] = "BV%d" % s_[1]
                    yield arg_syms((s_,) * n_), ex                      # n arguments of one sort
                    yield arg_syms((s_,) * (n_ - 1) + (A(I, I),)), ex   # ... and a last one of another sort


def grid_b_cases_binders(name, tier):
    """binder lists of length 2 and 3 mixing plain symbols, function symbols and non-symbols in every position"""
    if name in ("ForAll", "Exists"):
        pool = [sym("qi", I), sym("qb", B), sym("qf", F(I, I)), int_t(1)]
        for n_ in (2, 3):
            for vs in itertools.product(pool, repeat=n_):
                for s_ in U6:
                    yield arg_syms((s_,)), (tuple(vs),)


def grid_b_cases_repeated(name, tier):
    """hash-consing makes equal terms one object: every constructor of arity >= 2 is also called with
    the same operand in two (or all) positions, for every sort and for symbols, constants and compound terms"""
    quick = tier == "quick"
    if name in BIN_CTORS:
        for a in repeated_tuples(2, ()):
            yield a, ()
    if name in TER_CTORS:
        for a in repeated_tuples(3, U14):
            yield a, ()
    if name in NARY_CTORS:
        signs = [(False,), (True,)] if name in ("MinBV", "MaxBV") else [()]
        for ex in signs:
            for a in repeated_tuples(2, ()):
                yield a, ex
            for a in repeated_tuples(3, U6 if quick else U14):
                yield a, ex
    if name == "Function":
        for fname, fs in FN_SYMS + [("f2", F(I, I, I)), ("g3", F(B, B, B, B))]:
            for a in (repeated_tuples(len(fs[2]), U6) if len(fs[2]) in (2, 3) else ()):
                yield a, (sym(fname, fs),)
    if name == "Array":
        keys = {I: int_t(1), V(2): bv_t(1, 2), B: TRUE_T}
        for idx in (I, V(2), B):
            for d in ALL_REP_TERMS:
                for kidx in (I, V(2), B):
                    yield (d,), (idx, ((keys[kidx], d),))          # the value IS the default
                    yield (d,), (idx, ((keys[kidx], keys[kidx]),))  # the value IS the key
                if is_const(d):
                    yield (d,), (idx, ((d, d),))
    if name == "Pow":
        for c in ALL_REP_TERMS:
            yield (c, c), ()


def grid_b_cases_distinct(name, tier):
    """all (args, extra) of one constructor; args are raw leaves (symbols/constants)"""
    quick = tier == "quick"
    if name in UN_CTORS:
        for ss in itertools.product(U14, repeat=1):
            yield arg_syms(ss), ()
    if name in BIN_CTORS:
        for ss in itertools.product(U14, repeat=2):
            yield arg_syms(ss), ()
    if name in TER_CTORS:
        for ss in itertools.product(U14, repeat=3):
            yield arg_syms(ss), ()
    if name in NARY_CTORS:
        signs = [(False,), (True,)] if name in ("MinBV", "MaxBV") else [()]
        for ex in signs:
            for n in range(0, 4):
                uni = U14 if (n < 3 or not quick or name in ("And", "Plus", "BVAdd", "BVConcat", "AllDifferent")) else U6
                for ss in itertools.product(uni, repeat=n):
                    yield arg_syms(ss), ex
            for n in (4, 5):
                full = (not quick) or name in ("And", "Plus", "BVAdd", "BVConcat", "StrConcat", "AllDifferent")
                if not full and n == 5:
                    continue
                uni = U4 if full else U3
                for ss in itertools.product(uni + ([S] if name == "StrConcat" else []), repeat=n):
                    yield arg_syms(ss), ex
    if name == "BVExtract":
        for s in U14:
            w = width_corners(s)
            cs = sorted({0, 1, w - 1, w, w + 1, -1})
            for st in cs:
                for en in cs + [None]:
                    yield arg_syms((s,)), (st, en)
            yield arg_syms((s,)), (0, "1")
    if name in ("BVRol", "BVRor", "BVZExt", "BVSExt"):
        for s in U14:
            w = width_corners(s)
            for k in sorted({0, 1, w - 1, w, w + 1, 2 * w + 1, -1, -w, -w - 1}) + ["1", 1.0]:
                yield arg_syms((s,)), (k,)
    if name == "BVRepeat":
        for s in U14:
            for k in (-1, 0, 1, 2, 3):
                yield arg_syms((s,)), (k,)
    if name in ("BVLShl", "BVLShr", "BVAShr"):
        for s in U14:
            w = width_corners(s)
            for k in sorted({0, 1, w - 1, w, 2 ** w - 1, 2 ** w, -1}):
                yield arg_syms((s,)), (k,)
    if name == "Function":
        for fname, fs in FN_SYMS + [("c_Int", I)]:
            for n in range(0, 4):
                uni = U14 if (n < 3 or not quick) else U6 + [B, CS]
                for ss in itertools.product(uni, repeat=n):
                    yield arg_syms(ss), (sym(fname, fs),)
    if name in ("ForAll", "Exists"):
        binders = [(), (sym("qi", I),), (sym("qb", B), sym("qv", V(8))), (sym("qf", F(I, I)),), (int_t(1),),
                   (sym("qi", I), TRUE_T), (sym("qa", A(I, I)),), (sym("qs", CS),)]
        for vs in binders:
            for s in U14:
                yield arg_syms((s,)), (vs,)
    if name == "Array":
        keys = {I: [int_t(1), int_t(2)], V(2): [bv_t(1, 2), bv_t(2, 2)], B: [TRUE_T, FALSE_T]}
        for idx in (I, V(2), B, None):
            for d in U14:
                yield arg_syms((d,)), (idx, None)
                yield arg_syms((d,)), (idx, ())
                vals = U14
                for kidx in (I, V(2), B):
                    for vs in vals:
                        yield arg_syms((d,)), (idx, ((keys[kidx][0], arg_sym(1, vs)),))
                for vs in vals:
                    yield arg_syms((d,)), (idx, ((arg_sym(2, I), arg_sym(1, vs)),))      # non-constant key
                    yield arg_syms((d,)), (idx, ((keys[I][0], arg_sym(1, vs)), (keys[I][1], arg_sym(1, d))))
    if name == "Pow":
        bases = [arg_sym(0, s) for s in U14] + [int_t(3), int_t(0), real_t(Fraction(1, 2)), TRUE_T, str_t("a"), bv_t(3, 8)]
        exps = [int_t(2), int_t(0), int_t(-1), real_t(2), real_t(Fraction(1, 2)), TRUE_T, str_t("a"), bv_t(1, 8),
                arg_sym(1, I)]
        for b in bases:
            for e in exps:
                yield (b, e), ()


def realize(env, t):
    """raw leaf -> FNode (through the public constructors)"""
    mgr = env.formula_manager
    o, p, _ = t
    if o == "symbol":
        return mgr.Symbol(p[1], to_pysmt(env, p[2]))
    if o == "intConst":
        return mgr.Int(p[1])
    if o == "realConst":
        return mgr.Real(p[1])
    if o == "boolConst":
        return mgr.Bool(p[1])
    if o == "strConst":
        return mgr.String(p[1])
    if o == "bvConst":
        return mgr.BV(p[1], p[2])
    return fnode_of_raw(env, t)        # a (well-typed) compound operand of the repeated-operand cases


def call_ctor(env, name, args, extra):
    mgr = env.formula_manager
    fn = getattr(mgr, name)
    ra = [realize(env, a) for a in args]
    if name in NARY_CTORS:
        pre = list(extra)                      # MinBV/MaxBV: sign first
        if len(ra) <= 3:
            return fn(*(pre + ra))
        return fn(*(pre + [ra])) if not pre else fn(*(pre + ra))
    if name == "Function":
        return fn(realize(env, extra[0]), ra)
    if name in ("ForAll", "Exists"):
        return fn([realize(env, v) for v in extra[0]], ra[0])
    if name == "Array":
        idx, assigned = extra
        it = to_pysmt(env, idx) if idx is not None else "not-a-type"
        if assigned is None:
            return fn(it, ra[0])
        return fn(it, ra[0], {realize(env, k): realize(env, v) for k, v in assigned})
    return fn(*(ra + list(extra)))


def py_value(t):
    o, p, _ = t
    if o == "bvConst":
        return p[1]
    return p[1]


def model_real(val):
    if type(val) is Fraction:
        return real_t(val)
    if type(val) in (int, float):
        return real_t(Fraction(val))
    raise Reject("Real: not a rational")


def predicted(name, args, extra):
    """('reject', why) | ('tree', raw) | ('array', idx, default, frozenset(pairs))"""
    try:
        if name == "Pow" and is_const(args[0]) and is_const(args[1]):
            try:
                bv_, ev_ = py_value(args[0]), py_value(args[1])
                if type(bv_) is int and type(ev_) is int and ev_ < 0:
                    bv_ = Fraction(bv_)          # /repo b167bb1: exact rational instead of a float
                val = bv_ ** ev_
            except (TypeError, ZeroDivisionError, OverflowError, ValueError) as e:
                raise Reject("Pow: python arithmetic raised " + type(e).__name__)
            return ("tree", model_real(val))
        t = model(name, args, extra)
    except Reject as e:
        return ("reject", str(e))
    if t[0] == "arrayValue?":
        d, assigned = t[2]
        pairs = frozenset((k, v) for k, v in dict(assigned).items() if v != d)
        return ("array", t[1][1], d, pairs)
    return ("tree", t)


def lean_cost(t, memo=None):
    """(size, cost) of evaluating wt/noF06/wtRaw on the Lean side: the model works on TREES (a shared
    sub-term is evaluated once per occurrence) and recomputes the children's types at every level"""
    if memo is None:
        memo = {}
    k = t if not t[2] else id(t)
    if k not in memo:
        size, cost = 1, 0
        for c in t[2]:
            s_, c_ = lean_cost(c, memo)
            size += s_
            cost += c_
        memo[k] = (size, cost + size)
    return memo[k]


def has_fn_term(t, seen=None):
    """does a function-typed symbol occur in term position (outside the model's fragment)"""
    if seen is None:
        seen = set()
    if id(t) in seen:
        return False
    seen.add(id(t))
    o, p, ch = t
    if o == "symbol" and is_fn(p[2]):
        return True
    return any(has_fn_term(c, seen) for c in ch)


def is_deep_case(name, extra):
    return name == "BVRepeat" and type(extra[0]) is int and extra[0] > 300


def run_grid_b_ctor(job):
    """worker: all grid-B cases of one constructor"""
    name, tier = job[0], job[1]
    off = job[2] if len(job) > 2 else None
    env = Environment()
    out = []
    import warnings
    warnings.simplefilter("ignore")

    def describe(f):
        try:
            return sort_name(from_pysmt(env.stc.get_type(f)))
        except Exception as e:          # noqa
            return "get_type:" + type(e).__name__
    for idx, (args, extra) in enumerate(grid_b_cases(name, tier)):
        call = lambda: call_ctor(env, name, args, extra)         # noqa
        res = repeat_rejected(outcome_of(call), idx, off, call, describe)
        raw = None
        if res[0] == "ok":
            f = res[1]
            try:
                ty = from_pysmt(env.stc.get_type(f))
            except Exception as e:          # noqa
                ty = "get_type:" + type(e).__name__
            if is_deep_case(name, extra):
                raw = "deep"            # chains of a thousand nodes: type and outcome are judged, not the structure
            else:
                try:
                    raw = raw_of_fnode(f)
                except wire.OutOfFragment:
                    raw = "out-of-fragment"
            res = ("ok", ty)
        out.append((args, extra, res, raw))
    return out


# =====================================================================================
# judging
# =====================================================================================
NOMINAL_ARITY = {}
for _o in wire.OPNAMES:
    if _o in ("and", "or", "plus", "times", "strConcat"):
        NOMINAL_ARITY[_o] = ("ge", 2)
    elif _o == "function":
        NOMINAL_ARITY[_o] = ("ge", 1)
    elif _o == "arrayValue":
        NOMINAL_ARITY[_o] = ("odd", 0)
    elif _o in ("symbol", "realConst", "boolConst", "intConst", "strConst", "bvConst", "algebraicConst"):
        NOMINAL_ARITY[_o] = ("eq", 0)
    elif _o in ("not", "toReal", "bvNot", "bvNeg", "bvExtract", "bvRol", "bvRor", "bvZext", "bvSext", "forall",
                "exists", "strLength", "strToInt", "intToStr", "bvToNatural"):
        NOMINAL_ARITY[_o] = ("eq", 1)
    elif _o in ("ite", "strIndexOf", "strReplace", "strSubstr", "arrayStore"):
        NOMINAL_ARITY[_o] = ("eq", 3)
    else:
        NOMINAL_ARITY[_o] = ("eq", 2)


def arity_ok(o, n):
    k, v = NOMINAL_ARITY[o]
    return n >= v if k == "ge" else (n % 2 == 1 if k == "odd" else n == v)


# model boundary (reported to the integrator, Core/TypeOf.lean deliberately left as is): the real
# checker silently ignores extra arguments of these operators / a dangling array-value key, and
# raises on `le()`, `lt()`, `function[non-function symbol]()` where typeOfNode answers a sort.
EXTRA_ARG_LENIENT = {"bvConcat": 2, "bvExtract": 1, "bvRol": 1, "bvRor": 1, "ite": 3, "arraySelect": 2,
                     "arrayStore": 3, "pow": 2}


def model_boundary(o, p, n, impl_ok, lean_ok):
    if impl_ok and not lean_ok:
        if o in EXTRA_ARG_LENIENT and n > EXTRA_ARG_LENIENT[o]:
            return "extra-arguments-ignored"
        if o == "arrayValue" and n >= 2 and n % 2 == 0:
            return "dangling-array-key"
    if lean_ok and not impl_ok:
        if o in ("forall", "exists") and (p is None or p[0] != "Q"):
            return "quantifier-without-variable-list"     # walk_quantifier iterates the payload since f0cd2ee
        if o in ("le", "lt") and n == 0:
            return "relation-without-arguments"
        if o == "function" and n == 0 and p is not None and p[0] == "y" and not is_fn(p[2]):
            return "application-of-a-constant"
    return None


def payload_negative(p):
    return p is not None and p[0] == "n" and any(isinstance(x, int) and x < 0 for x in p[1:])


def classify_node(o, p, ss):
    """which hole of the checker an accepted ill-sorted raw node falls into"""
    if not arity_ok(o, len(ss)):
        return "arity"
    if any(is_fn(s) for s in ss):
        return "function-symbol-argument"
    if o in ("forall", "exists") and p is not None and p[0] == "Q" and any(is_fn(t) for _, t in p[1:]):
        return "function-bound-variable"
    if o in ("forall", "exists") and p is not None and p[0] == "Q!":
        return "non-symbol-bound-variable"
    if payload_negative(p):
        return "negative-rotate-step" if o in ("bvRol", "bvRor") else "payload"
    if o == "pow":
        return "pow-non-numeric"
    if o == "equals" and len(ss) == 2 and ss[0] == ss[1] == B:
        return "equals-on-bool"
    if o in NO_PAYLOAD or payload_shape(o, p, ss) == "other":
        return "sorts"
    return "payload"


def payload_shape(o, p, ss):
    """which convention of Core/Term.lean the payload of an accepted node breaks"""
    if p is None:
        return "no-payload"
    pn = list(p[1:]) if p[0] == "n" else None
    if o in BV_UN or o in BV_BIN:
        return "extra-payload-element" if pn is not None and len(pn) > 1 else "other"
    if o == "bvComp":
        return "cached-width-not-1" if pn is not None and len(pn) == 1 else "other"
    if o == "bvExtract" and pn is not None and len(pn) == 3:
        if pn[1] < 0 or pn[2] < 0:
            return "negative-index"
        return "lo>hi" if pn[1] > pn[2] else "other"
    if o in ("bvZext", "bvSext") and pn is not None and len(pn) != 2:
        return "no-increase-in-payload"
    if o in ("bvZext", "bvSext") and pn is not None and ss and is_bv(ss[0]):
        return "increase-inconsistent-with-cached-width" if pn[0] != ss[0][1] + pn[1] or pn[1] < 0 else "other"
    if o in ("forall", "exists") and p[0] == "Q" and len(p) == 1:
        return "no-bound-variable"
    return "other"


def hole_shape(o, p, ss, hole):
    if hole == "arity":
        return "%s/%d" % (o, len(ss))
    if hole == "payload":
        return "%s:%s" % (o, payload_shape(o, p, ss))
    if hole == "sorts":
        return "%s(%s) payload %s" % (o, sorts_key(ss), payload_key(p))
    return hole


class Chk(tuple):
    """(typeOf, wt, sortOf, noF06, rotInRange) + the real checker's rule on raw nodes (pyNode)"""


def parse_chk(ans):
    """driver `chk` answer -> Chk(typeOf, wt, sortOf, noF06, rotInRange) with .raw_ty/.raw_wt/.arity_ok"""
    parts = [x.strip() for x in ans.split("|")]
    if len(parts) != 8:
        raise ValueError(ans)
    c = Chk((dec_sort_answer(parts[0]), parts[1] == "true", dec_sort_answer(parts[2]), parts[3] == "true",
             parts[4] == "true"))
    c.raw_ty, c.raw_wt, c.arity_ok = dec_sort_answer(parts[5]), parts[6] == "true", parts[7] == "true"
    return c


class Judge:
    """collects the driver requests of both grids and judges K and S when the answers are in"""

    def __init__(self, ctx):
        self.ctx = ctx
        self.lines = []
        self.pending = []          # (kind, data) per line

    def ask(self, raw, cont):
        try:
            line = "chk " + enc_raw(raw)
        except wire.OutOfFragment:
            return False
        self.lines.append(line)
        self.pending.append(cont)
        return True

    def flush(self):
        ctx = self.ctx
        if not self.lines:
            return
        try:
            answers = ctx.lean_run_sharded("C03", self.lines)
        except common.LeanError as e:
            ctx.report_l("driver C03 does not run", str(e))
            answers = [None] * len(self.lines)
        for line, ans, cont in zip(self.lines, answers, self.pending):
            if ans is None:
                cont(None, line)
            elif ans.startswith("bad-op"):
                ctx.infra("driver rejected a request: %s :: %s" % (ans, line[:200]))
            else:
                cont(parse_chk(ans), line)
        self.lines, self.pending = [], []

    # -------------------------------------------------------------- common checks on a `chk` answer
    def spec_checks(self, raw, chk, line, what):
        """the python oracle and the Lean specification must agree; instances of the theorems"""
        ctx = self.ctx
        ty, wt, so, nof06, rot = chk
        mine = canon_sort(sort_of(raw))
        if so != mine:
            ctx.report_k("oracle rank() and Spec.sortOf disagree on %s: %r vs %r" % (show_raw(raw), mine, so),
                         {"grid": what, "request": line, "term": show_raw(raw)})
        if wt and nof06 and so != ty:
            ctx.report_k("instance of typeOf_sound_partial fails on %s" % show_raw(raw),
                         {"grid": what, "request": line, "term": show_raw(raw)})
        if chk.arity_ok and ((wt != chk.raw_wt) or (wt and ty != chk.raw_ty)):
            ctx.report_k("instance of raw_of_wt / wt_of_raw (boundary theorem) fails on %s" % show_raw(raw),
                         {"grid": what, "request": line, "term": show_raw(raw)})
        if so is not None and rot and not (wt and ty == so):
            ctx.report_k("instance of typeOf_complete_partial fails on %s" % show_raw(raw),
                         {"grid": what, "request": line, "term": show_raw(raw)})


def sorts_key(ss):
    return ",".join(sort_name(s) for s in ss)


def payload_key(p):
    if p is None:
        return "-"
    if p[0] == "n":
        return "n" + ",".join(str(x) for x in p[1:])
    if p[0] in ("Q", "Q!"):
        return p[0] + ",".join(sort_name(x[1]) if len(x) > 1 else str(x[0]) for x in p[1:])
    if p[0] == "y":
        return "y:" + sort_name(p[2])
    if p[0] == "t":
        return "t:" + sort_name(p[1])
    return p[0]


def judge_repeat(ctx, res, sig, what, replay):
    """S: a rejected application must be rejected again when it is attempted again on the same environment"""
    if res[0] != "err" or len(res) < 3:
        return
    ctx.count("repeat_checked")
    later = res[2]
    if any(r[0] == "ok" for r in later):
        ctx.report_s(dict(sig, oracle="repeat", kind="rejected-then-accepted", error=res[1]),
                     "%s raised %s on the first attempt; the same call on the same environment then gave %s"
                     % (what, res[1], ", ".join("%s %s" % r for r in later)), dict(replay, later=repr(later)))
    elif any(r[1] != res[1] for r in later):
        ctx.report_s(dict(sig, oracle="repeat", kind="error-class-changed", error=res[1],
                          later="/".join(r[1] for r in later)),
                     "%s raised %s on the first attempt, then %s" % (what, res[1], ", ".join(r[1] for r in later)),
                     dict(replay, later=repr(later)))


def judge_grid_a(ctx, judge, results):
    for ss, p, raw, res in results:
        o = raw[0]
        ss = list(ss)
        impl_ok = res[0] == "ok"
        impl_ty = res[1] if impl_ok else None
        rk = rank(o, p, ss)
        replay = {"grid": "A", "op": o, "sorts": [sort_name(s) for s in ss], "payload": repr(p),
                  "impl": repr(res), "rules": repr(rk), "term": show_raw(raw)}
        ctx.case(("A", show_raw(raw), payload_key(p)) if (impl_ok or rk is not None) else None)
        ctx.count("A_" + ("ok" if impl_ok else "err"))
        judge_repeat(ctx, res, {"via": "create_node", "op": o, "shape": "%s(%s) payload %s" % (o, sorts_key(ss), payload_key(p))},
                     "create_node(%s) on (%s) payload %s" % (o, sorts_key(ss), payload_key(p)), replay)
        # ---- S: the implementation against the sorting rules
        hole = classify_node(o, p, ss)
        hk = homonym_key(list(sorts_of_raw(raw)))
        if impl_ok and rk is None:
            if o == "symbol" and p is not None and p[0] == "y" and is_fn(p[2]) and not ss:
                pass        # a function symbol: a declaration, not a term
            else:
                ctx.report_s({"oracle": "sort-rules", "via": "create_node", "kind": "accepted-ill-sorted",
                              "op": o, "hole": hole, "shape": hole_shape(o, p, ss, hole), "homonym": hk},
                             "create_node(%s) on (%s) payload %s returned a formula of type %s; the rules say ill-sorted"
                             % (o, sorts_key(ss), payload_key(p), sort_name(impl_ty) if isinstance(impl_ty, tuple) else impl_ty),
                             replay)
        elif impl_ok and rk != impl_ty:
            ctx.report_s({"oracle": "sort-rules", "via": "create_node", "kind": "wrong-type", "op": o,
                          "sorts": sorts_key(ss), "homonym": hk},
                         "create_node(%s): reported type %r, the rules give %r" % (o, impl_ty, rk), replay)
        elif (not impl_ok) and rk is not None:
            shape = "rotate-step-exceeds-width" if o in ("bvRol", "bvRor") and p[2] > p[1] else "sorts=" + sorts_key(ss)
            ctx.report_s({"oracle": "sort-rules", "via": "create_node", "kind": "rejected-well-sorted", "op": o,
                          "shape": shape, "homonym": hk},
                         "create_node(%s) on (%s) payload %s raised %s; the rules give %r"
                         % (o, sorts_key(ss), payload_key(p), res[1], rk), replay)
        # ---- K: the implementation against typeOf / wt
        if any(is_fn(s) for s in ss) or (o == "symbol" and p is not None and p[0] == "y" and is_fn(p[2])):
            ctx.count("A_k_skipped_function_symbol")
            continue
        if outside_model(raw):
            ctx.count("A_k_skipped_homonymous_sorts")
            continue

        def cont(chk, line, raw=raw, o=o, p=p, ss=ss, impl_ok=impl_ok, impl_ty=impl_ty, replay=replay):
            if chk is None:
                return
            ty, wt, so, nof06, rot = chk
            judge.spec_checks(raw, chk, line, "A")
            # K, exact on every raw call: the real checker against pyNode (typeOfRaw / wtRaw)
            lean_ok = chk.raw_wt and chk.raw_ty is not None
            if not (lean_ok == impl_ok and (not impl_ok or chk.raw_ty == canon_sort(impl_ty))):
                rep = dict(replay, request=line, lean="raw %r wt=%s" % (chk.raw_ty, chk.raw_wt))
                ctx.report_k("create_node(%s) on (%s) payload %s: implementation %r, model typeOfRaw=%r wtRaw=%s"
                             % (o, sorts_key(ss), payload_key(p), (impl_ok, impl_ty), chk.raw_ty, chk.raw_wt), rep)
                return
            # where typeOf (Core) differs from the real rule: only off the operator's arity (boundary theorem)
            core_ok = wt and ty is not None
            if core_ok != lean_ok or (core_ok and ty != chk.raw_ty):
                b = model_boundary(o, p, len(ss), impl_ok, core_ok)
                if b is None or chk.arity_ok:
                    ctx.report_k("typeOf differs from the real rule on a node of the operator's arity: %s" % show_raw(raw),
                                 dict(replay, request=line))
                else:
                    ctx.count("A_typeOf_differs_off_arity_" + b)
        if not judge.ask(raw, cont):
            ctx.count("A_k_skipped_not_encodable")


PASSTHROUGH_NARY = set(NARY_CTORS)


def classify_ctor(name, args, extra, pred):
    """shape class of a constructor call (for matching known findings)"""
    ss = [sort_of(a) if a[0] != "symbol" else a[1][2] for a in args]
    if name in ("ForAll", "Exists"):
        vs = extra[0]
        if len(vs) == 0:
            return "empty-binder-passthrough"
        if any(v[0] != "symbol" for v in vs):
            return "non-symbol-bound-variable"
        if any(is_fn(sym_sort(v)) for v in vs):
            return "function-bound-variable"
    if name == "Function" and len(args) == 0:
        return "no-parameter-passthrough"
    if name in PASSTHROUGH_NARY and len(args) == 1:
        return "single-argument-passthrough"
    if name in ("BVRol", "BVRor") and type(extra[0]) is int:
        if extra[0] < 0:
            return "negative-rotate-step"
        if is_bv(ss[0]) and extra[0] > ss[0][1]:
            return "rotate-step-exceeds-width"
    if name == "BVRepeat" and extra[0] < 1:
        return "repeat-count-below-one"
    if name == "BVRepeat" and extra[0] == 1:
        return "repeat-once-passthrough"
    if any(is_fn(s) for s in ss):
        return "function-symbol-argument"
    if name == "Pow":
        if is_const(args[0]) and is_const(args[1]):
            if ss[0] == ss[1] and ss[0] in (I, R):
                return "pow-zero-to-negative" if py_value(args[0]) == 0 and py_value(args[1]) < 0 else "pow-constants"
            return "pow-constant-folding"
        return "pow-non-numeric"
    rep = ""
    if len(args) >= 2 and len(set(args)) < len(args):
        rep = " same-operand@" + ",".join(str(i) for i, a in enumerate(args) if list(args).count(a) > 1)
    return "sorts=" + sorts_key(ss) + rep + (" extra=%r" % (extra,) if extra else "")


def extra_key(extra):
    def k(x):
        if isinstance(x, tuple) and len(x) == 3 and isinstance(x[0], str) and x[0] in wire.OPID \
                and isinstance(x[2], tuple):
            return show_raw(x)
        if isinstance(x, tuple) and x and x[0] in ("P", "A", "C", "B", "I", "R", "S", "V", "F") and x in SNAME:
            return SNAME[x]
        if isinstance(x, tuple):
            return "(" + ",".join(k(y) for y in x) + ")"
        return repr(x)
    return k(tuple(extra))


def judge_grid_b(ctx, judge, name, results):
    for args, extra, res, raw in results:
        ss = [a[1][2] if a[0] == "symbol" else sort_of(a) for a in args]
        impl_ok = res[0] == "ok"
        impl_ty = res[1] if impl_ok else None
        deep = is_deep_case(name, extra)
        pred = ("deep",) if deep else predicted(name, args, extra)
        rk = crank(name, ss, (is_const(args[1]),) if name == "Pow" else extra)
        shape = classify_ctor(name, args, extra, pred)
        key = ("B", name, ",".join(show_raw(a) for a in args), extra_key(extra))
        ctx.case(key if (impl_ok or rk is not None) else None)
        ctx.count("B_" + ("ok" if impl_ok else "err"))
        replay = {"grid": "B", "ctor": name, "sorts": [sort_name(s) if s else "?" for s in ss],
                  "args": [show_raw(a) for a in args], "extra": extra_key(extra), "impl": repr(res),
                  "rules": repr(rk), "predicted": pred[0] + (": " + pred[1] if pred[0] == "reject" else "")}
        if impl_ok and len(ctx.samples) < 4 and len(args) >= 2 and not any(
                isinstance(x, dict) and x.get("ctor") == name for x in ctx.samples):
            ctx.sample({"ctor": name, "sorts": replay["sorts"], "extra": replay["extra"], "type": sort_name(impl_ty)})
        judge_repeat(ctx, res, {"via": "constructor", "ctor": name, "shape": shape},
                     "%s on (%s)%s" % (name, sorts_key(ss), extra_key(extra)), replay)
        # ---- S
        allsorts = set()
        for a_ in args:
            sorts_of_raw(a_, allsorts)
        for x_ in extra:
            if isinstance(x_, tuple) and len(x_) == 3 and isinstance(x_[0], str) and isinstance(x_[2], tuple) \
                    and x_[0] in wire.OPID:
                sorts_of_raw(x_, allsorts)
            elif isinstance(x_, tuple) and x_ and x_[0] in ("P", "A", "C"):
                sorts_in(x_, allsorts)
            elif isinstance(x_, tuple):
                for y_ in x_:
                    if isinstance(y_, tuple) and len(y_) == 3 and y_[0] in wire.OPID:
                        sorts_of_raw(y_, allsorts)
        sig = {"oracle": "sort-rules", "via": "constructor", "ctor": name, "shape": shape,
               "homonym": homonym_key(list(allsorts))}
        if impl_ok:
            if isinstance(raw, tuple):
                if pred[0] == "tree" and canon_raw(pred[1]) == raw:
                    rs = sort_of(pred[1])          # the same structure, with the sorts told apart
                    bad = rs != impl_ty
                else:
                    rs = sort_of(raw)
                    bad = canon_sort(rs) != canon_sort(impl_ty)
                if bad and not (raw[0] == "symbol" and is_fn(raw[1][2])):
                    ctx.report_s(dict(sig, kind="result-ill-sorted"),
                                 "%s(%s)%s returned %s of reported type %r; by the rules its sort is %r"
                                 % (name, sorts_key(ss), extra_key(extra), show_raw(raw), impl_ty, rs), replay)
            if rk is None:
                ctx.report_s(dict(sig, kind="accepted-ill-sorted"),
                             "%s on (%s)%s returned a formula (type %r); the rules say the application is ill-sorted"
                             % (name, sorts_key(ss), extra_key(extra), impl_ty), replay)
            elif rk != impl_ty:
                ctx.report_s(dict(sig, kind="wrong-type"),
                             "%s on (%s)%s: reported type %r, the rules give %r"
                             % (name, sorts_key(ss), extra_key(extra), impl_ty, rk), replay)
        elif rk is not None:
            ctx.report_s(dict(sig, kind="rejected-well-sorted"),
                         "%s on (%s)%s raised %s; the rules give %r" % (name, sorts_key(ss), extra_key(extra), res[1], rk),
                         replay)
        # ---- K
        if deep:
            ctx.count("B_deep_chain_judged_by_rank_only")
            continue
        if pred[0] == "reject":
            ctx.count("B_ctor_check")
            if impl_ok:
                ctx.report_k("%s on (%s)%s: a constructor check (%s) should refuse, implementation returned %r"
                             % (name, sorts_key(ss), extra_key(extra), pred[1], impl_ty), replay)
            continue
        if pred[0] == "array":
            _, idx, d, pairs = pred
            if impl_ok:
                okshape = (isinstance(raw, tuple) and raw[0] == "arrayValue" and raw[1] == ("t", canon_sort(idx))
                           and raw[2][0] == canon_raw(d)
                           and frozenset(zip(raw[2][1::2], raw[2][2::2])) == frozenset(
                               (canon_raw(k_), canon_raw(v_)) for k_, v_ in pairs)
                           and len(raw[2]) == 1 + 2 * len(pairs))
                if not okshape:
                    ctx.report_k("Array: returned structure differs from the constructor table", replay)
                tree = raw
            else:
                flat = [d]
                for k_, v_ in sorted(pairs):
                    flat += [k_, v_]
                tree = ("arrayValue", ("t", idx), tuple(flat))
        else:
            tree = pred[1]
            if impl_ok and raw == "out-of-fragment":
                ctx.count("B_k_structure_not_encodable")
            elif impl_ok and raw != canon_raw(tree) and outside_model(tree):
                ctx.count("B_k_structure_homonymous_sorts")     # sorts that print alike: S only (F61)
            elif impl_ok and raw != canon_raw(tree):
                ctx.report_k("%s on (%s)%s: returned structure %s, constructor table says %s"
                             % (name, sorts_key(ss), extra_key(extra),
                                show_raw(raw) if isinstance(raw, tuple) else raw, show_raw(tree)), replay)
        if has_fn_term(tree):
            ctx.count("B_k_skipped_function_symbol")
            continue
        if outside_model(tree):
            ctx.count("B_k_skipped_homonymous_sorts")
            continue
        if lean_cost(tree)[1] > 60000:
            ctx.count("B_k_skipped_huge_term")       # structure and sort are still compared (above)
            continue

        def cont(chk, line, tree=tree, impl_ok=impl_ok, impl_ty=impl_ty, replay=replay, name=name):
            if chk is None:
                return
            ty, wt, so, nof06, rot = chk
            judge.spec_checks(tree, chk, line, "B")
            lean_ok = wt and ty is not None
            if lean_ok == impl_ok and (not impl_ok or ty == canon_sort(impl_ty)):
                return
            ctx.report_k("%s: implementation %r, model typeOf=%r wt=%s on %s"
                         % (name, (impl_ok, impl_ty), ty, wt, show_raw(tree)),
                         dict(replay, request=line, lean="%r wt=%s" % (ty, wt)))
        if not judge.ask(tree, cont):
            ctx.count("B_k_skipped_not_encodable")


# =====================================================================================
# constant / symbol constructors (explicit list: value corners)
# =====================================================================================
def const_cases():
    """(label, call(mgr, env), expected raw tree | Reject-reason string)"""
    F_ = Fraction
    cs = []

    def add(label, fn, exp):
        cs.append((label, fn, exp))
    add("Int(5)", lambda m, e: m.Int(5), int_t(5))
    add("Int(-7)", lambda m, e: m.Int(-7), int_t(-7))
    add("Int(10**30)", lambda m, e: m.Int(10 ** 30), int_t(10 ** 30))
    add("Int(True)", lambda m, e: m.Int(True), "reject")
    add("Int(1.0)", lambda m, e: m.Int(1.0), "reject")
    add("Int('1')", lambda m, e: m.Int("1"), "reject")
    add("Real(1)", lambda m, e: m.Real(1), real_t(1))
    add("Real(0.5)", lambda m, e: m.Real(0.5), real_t(F_(1, 2)))
    add("Real((1,3))", lambda m, e: m.Real((1, 3)), real_t(F_(1, 3)))
    add("Real(Fraction(-2,4))", lambda m, e: m.Real(F_(-2, 4)), real_t(F_(-1, 2)))
    add("Real(True)", lambda m, e: m.Real(True), "reject")
    add("Real('x')", lambda m, e: m.Real("x"), "reject")
    add("Real((1,0))", lambda m, e: m.Real((1, 0)), "reject")
    add("String('ab')", lambda m, e: m.String("ab"), str_t("ab"))
    add("String('')", lambda m, e: m.String(""), str_t(""))
    add("String(5)", lambda m, e: m.String(5), "reject")
    add("Bool(True)", lambda m, e: m.Bool(True), TRUE_T)
    add("Bool(False)", lambda m, e: m.Bool(False), FALSE_T)
    add("Bool(1)", lambda m, e: m.Bool(1), "reject")
    add("TRUE()", lambda m, e: m.TRUE(), TRUE_T)
    add("FALSE()", lambda m, e: m.FALSE(), FALSE_T)
    for (v, w) in [(5, 8), (255, 8), (256, 8), (-1, 8), (0, 1), (1, 1), (2, 1), (0, 0), (5, None), ("101", None),
                   ("#b101", 3), ("#b101", 4), ("12", None), ("", None), (1.0, 8), (True, 8), (3, -1)]:
        try:
            exp = m_bvconst(v, w)
        except Reject:
            exp = "reject"
        add("BV(%r,%r)" % (v, w), (lambda m, e, v=v, w=w: m.BV(v, w)), exp)
    for (v, w) in [(-1, 8), (-128, 8), (-129, 8), (127, 8), (128, 8), (0, 1), (-1, 1), (1, 1), (5, None), ("101", None),
                   (-1, 0)]:
        try:
            exp = m_sbv(v, w)
        except Reject:
            exp = "reject"
        add("SBV(%r,%r)" % (v, w), (lambda m, e, v=v, w=w: m.SBV(v, w)), exp)
    for w in (1, 8, 0, -1):
        for nm, val in (("BVOne", 1), ("BVZero", 0)):
            try:
                exp = m_bvconst(val, w)
            except Reject:
                exp = "reject"
            add("%s(%r)" % (nm, w), (lambda m, e, nm=nm, w=w: getattr(m, nm)(w)), exp)
    for n, s in UNIVERSE:
        add("Symbol(s_%s,%s)" % (n, n), (lambda m, e, n=n, s=s: m.Symbol("s_" + n, to_pysmt(e, s))), sym("s_" + n, s))
        add("FreshSymbol(%s)" % n, (lambda m, e, s=s: m.FreshSymbol(to_pysmt(e, s))), ("fresh", s))
    add("Symbol(s_Int,Bool) redefinition", lambda m, e: m.Symbol("s_Int", to_pysmt(e, B)), "reject")
    add("Symbol('',Int)", lambda m, e: m.Symbol("", to_pysmt(e, I)), "reject")
    add("Symbol('x','Int') (type is a string)", lambda m, e: m.Symbol("zz", "Int"), "reject")
    add("FreshSymbol(Int,'v%d')", lambda m, e: m.FreshSymbol(to_pysmt(e, I), "v%d"), ("fresh", I))
    return cs


def run_constants(ctx, judge):
    env = Environment()
    mgr = env.formula_manager
    for label, fn, exp in const_cases():
        res = outcome_of(lambda: fn(mgr, env))
        ctx.count("C_" + res[0])
        rep = {"grid": "constants", "call": label, "impl": repr(res[:1]), "expected": repr(exp)}
        if res[0] == "err":
            ctx.case(None)
            if exp != "reject":
                ctx.report_s({"oracle": "sort-rules", "via": "constructor", "ctor": label.split("(")[0],
                              "kind": "rejected-well-sorted", "shape": label},
                             "%s raised %s" % (label, res[1]), rep)
            continue
        ctx.case(("C", label))
        f = res[1]
        ty = from_pysmt(env.stc.get_type(f))
        try:
            raw = raw_of_fnode(f)
        except wire.OutOfFragment:
            raw = ("bvConst", ("v",) + tuple(f._content.payload), ()) if f.is_bv_constant() else ("?", None, ())
        if exp == "reject":
            shape = "non-positive-width-bit-vector" if (raw[0] == "bvConst" and raw[1][2] <= 0) else label
            ctx.report_s({"oracle": "sort-rules", "via": "constructor", "ctor": label.split("(")[0],
                          "kind": "accepted-ill-sorted", "shape": shape},
                         "%s returned %s : %s" % (label, show_raw(raw), sort_name(ty)), rep)
            continue
        if isinstance(exp, tuple) and exp[0] == "fresh":
            if not (raw[0] == "symbol" and raw[1][2] == exp[1] and ty == exp[1]):
                ctx.report_k("%s returned %s : %r" % (label, show_raw(raw), ty), rep)
            continue
        if raw != exp:
            ctx.report_k("%s returned %s, constructor table says %s" % (label, show_raw(raw), show_raw(exp)), rep)
        want = exp[1][2] if exp[0] == "symbol" else sort_of(exp)
        if raw[0] == "bvConst" and raw[1][2] <= 0:
            ctx.report_s({"oracle": "sort-rules", "via": "constructor", "ctor": label.split("(")[0],
                          "kind": "accepted-ill-sorted", "shape": "non-positive-width-bit-vector"},
                         "%s returned a constant of sort (_ BitVec %d)" % (label, raw[1][2]), rep)
            continue
        if ty != want:
            ctx.report_s({"oracle": "sort-rules", "via": "constructor", "ctor": label.split("(")[0],
                          "kind": "wrong-type", "shape": label},
                         "%s : reported %r, rules %r" % (label, ty, want), rep)
        if not is_fn(ty):
            def cont(chk, line, raw=raw, ty=ty, rep=rep, label=label):
                if chk is None:
                    return
                judge.spec_checks(raw, chk, line, "constants")
                if not (chk[1] and chk[0] == ty):
                    ctx.report_k("%s: implementation type %r, model typeOf=%r wt=%s" % (label, ty, chk[0], chk[1]),
                                 dict(rep, request=line))
            judge.ask(raw, cont)


# =====================================================================================
# K for Impl/CreateNode.lean: random histories of create_node calls (driver `hist`)
# =====================================================================================
HIST_PALETTE = [
    ("symbol", [("y", "hx", I), ("y", "hy", I), ("y", "hp", B), ("y", "hv", V(8)), ("y", "ha", A(I, I))], 0),
    ("intConst", [("i", 1), ("i", 0)], 0), ("boolConst", [("b", True), ("b", False)], 0),
    ("bvConst", [("v", 3, 8)], 0),
    ("plus", [None], 2), ("plus", [None], 3), ("times", [None], 2), ("le", [None], 2), ("equals", [None], 2),
    ("not", [None], 1), ("and", [None], 2), ("or", [None], 3), ("iff", [None], 2), ("ite", [None], 3),
    ("bvAdd", [ints(8), ints(4)], 2), ("bvNot", [ints(8)], 1), ("bvUlt", [None], 2),
    ("bvExtract", [ints(4, 0, 3), ints(4, 6, 9)], 1), ("bvZext", [ints(12, 4)], 1),
    ("arraySelect", [None], 2), ("arrayStore", [None], 3), ("toReal", [None], 1),
    ("forall", [("Q", ("hq", I))], 1),
]


def run_histories(ctx, n_hist):
    rng = ctx.rng
    lines, metas = [], []
    for h in range(n_hist):
        env = Environment()
        mgr = env.formula_manager
        mgr.Symbol("hq", env.type_manager.INT())      # the bound variable of the palette (payload only)
        base = len(mgr.formulae)
        calls, results, outs = [], [], []
        for i in range(rng.randint(4, 14)):
            o, pls, ar = rng.choice(HIST_PALETTE)
            p = rng.choice(pls)
            # arguments: results of earlier calls (also failed ones, with small probability)
            idxs = []
            for _ in range(ar):
                if not results:
                    break
                okpos = [j for j, r in enumerate(results) if r is not None]
                if okpos and rng.random() < 0.93:
                    idxs.append(rng.choice(okpos))
                else:
                    idxs.append(rng.randrange(len(results)))
            if len(idxs) != ar:
                continue
            calls.append("%s %s %d%s" % (o, enc_payload(p), len(idxs), "".join(" %d" % j for j in idxs)))
            if any(results[j] is None for j in idxs):
                results.append(None)
                outs.append("skip")
                continue
            rp = real_payload(env, o, p)
            res = outcome_of(lambda: mgr.create_node(wire.OPID[o], tuple(results[j] for j in idxs), rp))
            results.append(res[1] if res[0] == "ok" else None)
            outs.append("ok" if res[0] == "ok" else "err")
        lines.append("hist %d %s" % (len(calls), " ".join(calls)))
        metas.append(" ".join(outs + ["+%d" % (len(mgr.formulae) - base)]))
    try:
        answers = ctx.lean_run("C03", lines)
    except common.LeanError as e:
        ctx.report_l("driver C03 does not run", str(e))
        return
    for line, want, got in zip(lines, metas, answers):
        ctx.case(("H", line))
        ctx.count("H_histories")
        if want != got:
            ctx.report_k("create_node history: implementation [%s], model [%s]" % (want, got),
                         {"grid": "hist", "request": line, "impl": want, "lean": got})


# =====================================================================================
# S on transformation outputs
# =====================================================================================
def transformations(env):
    import io
    from pysmt.rewritings import nnf, prenex_normal_form, aig, cnf, Ackermannizer
    from pysmt.smtlib.script import smtlibscript_from_formula
    from pysmt.smtlib.parser import SmtLibParser
    mgr = env.formula_manager

    def t_simplify(f):
        return env.simplifier.simplify(f)

    def t_substitute(f, rng):
        fv = sorted(env.fvo.get_free_variables(f), key=lambda s: s.symbol_name())
        fv = [v for v in fv if not v.symbol_type().is_function_type()]
        if not fv:
            return f
        v = rng.choice(fv)
        return env.substituter.substitute(f, {v: rng.choice([mgr.FreshSymbol(v.symbol_type(), "sb%d"), v])})

    def t_parse_print(f):
        # hand-made script (declarations + one assert): smtlibscript_from_formula needs a logic and
        # refuses the mixed-theory formulas of the generator
        from pysmt.smtlib.printers import to_smtlib
        lines = []
        seen_sorts = set()
        for v in sorted(env.fvo.get_free_variables(f), key=lambda s_: s_.symbol_name()):
            t = v.symbol_type()
            stack = [t]
            while stack:
                x = stack.pop()
                if x.is_custom_type() and x.basename not in seen_sorts:
                    seen_sorts.add(x.basename)
                    lines.insert(0, "(declare-sort %s %d)" % (x.basename, x.arity))
                stack.extend(x.args or ())
            lines.append("(declare-fun %s %s)" % (v.symbol_name(), t.as_smtlib()))
        lines.append("(assert %s)" % to_smtlib(f, daggify=True))
        script = SmtLibParser(env).get_script(io.StringIO("\n".join(lines)))
        return script.get_last_formula(mgr)
    return {
        "simplify": (t_simplify, False, False),
        "substitute": (t_substitute, False, True),
        "parse(print)": (t_parse_print, True, False),
        "nnf": (lambda f: nnf(f, env), True, False),
        "prenex": (lambda f: prenex_normal_form(f, env), True, False),
        "aig": (lambda f: aig(f, env), True, False),
        "cnf": (lambda f: cnf(f, env), True, False),
        "ackermannize": (lambda f: Ackermannizer(env).do_ackermannization(f), True, False),
    }


def check_transformations(ctx, judge, env, tr, f, only=None):
    try:
        fraw = raw_of_fnode(f)
    except wire.OutOfFragment:
        ctx.count("T_out_of_fragment")
        return
    fty = from_pysmt(env.stc.get_type(f))
    isbool = fty == B
    for tname, (fn, need_bool, need_rng) in tr.items():
        if (need_bool and not isbool) or (only is not None and tname != only):
            continue
        try:
            res = ("ok", fn(f, ctx.rng) if need_rng else fn(f))
        except Exception as e:      # noqa  (failing transformations belong to their owner properties)
            res = ("err", type(e).__name__)
        ctx.count("T_" + tname)
        rep = {"grid": "transform", "transform": tname, "formula": show_raw(fraw), "type": sort_name(fty),
               "request_in": "chk " + enc_raw(fraw)}
        root = fraw[0]
        if res[0] == "err":
            ctx.case(None)
            ctx.count("T_unsupported" if res[1] == "NotImplementedError" else "T_err_" + tname + "_" + res[1])
            continue            # (C01/C05/C07-C11 own the behaviour of the transformations themselves)
        g = res[1]
        try:
            graw = raw_of_fnode(g)
        except wire.OutOfFragment:
            ctx.count("T_out_of_fragment")
            continue
        ctx.case(("T", tname, enc_raw(fraw)) if graw != fraw else None)
        try:
            gty = from_pysmt(env.stc.get_type(g))
        except Exception as e:      # noqa
            gty = "get_type:" + type(e).__name__
        has_pow = "pow(" in show_raw(fraw)
        sig = {"oracle": "transform", "transform": tname, "root": root, "pow": "yes" if has_pow else "no"}
        if graw != fraw and len(ctx.samples) < 6 and not any(
                isinstance(x, dict) and x.get("transform") == tname for x in ctx.samples):
            ctx.sample({"transform": tname, "formula": show_raw(fraw)[:160], "result": show_raw(graw)[:160],
                        "type": sort_name(fty)})
        if gty != fty:
            ctx.report_s(dict(sig, kind="type-changed"),
                         "%s changed the type of %s from %r to %r (result %s)"
                         % (tname, show_raw(fraw), fty, gty, show_raw(graw)), dict(rep, result=show_raw(graw)))
            continue

        def cont(chk, line, graw=graw, fty=fty, rep=rep, tname=tname, sig=sig, fraw=fraw):
            if chk is None:
                return
            ty, wt, so, nof06, rot = chk
            judge.spec_checks(graw, chk, line, "transform")
            if not wt or ty != fty:
                ctx.report_s(dict(sig, kind="result-not-wt"),
                             "%s(%s) = %s: model says wt=%s typeOf=%r, expected %r"
                             % (tname, show_raw(fraw), show_raw(graw), wt, ty, fty),
                             dict(rep, result=show_raw(graw), request=line))
            elif so != fty and nof06:
                ctx.report_s(dict(sig, kind="result-ill-sorted"),
                             "%s(%s) = %s is not well-sorted by the rules (%r)" % (tname, show_raw(fraw), show_raw(graw), so),
                             dict(rep, result=show_raw(graw), request=line))
        judge.ask(graw, cont)


def other_sort(s_):
    """a different sort for a clashing declaration of the same name"""
    if s_ == I:
        return R
    if s_ == R:
        return I
    if is_bv(s_):
        return V(2 * s_[1])
    if is_fn(s_):
        return F(R, *([R] * len(s_[2])))
    return I


def check_normalize(ctx, env, f, clash_name=None):
    """the transformation FormulaManager.normalize (FormulaContextualizer): a formula of environment A
    re-created in environment B is the same formula (same structure, same declared sorts, same type);
    when B already declares one of its symbols with ANOTHER sort, normalize must raise (the clash of
    declarations), never return a formula typed differently from its source"""
    try:
        fraw = raw_of_fnode(f)
    except wire.OutOfFragment:
        return
    fty = from_pysmt(env.stc.get_type(f))
    rep = {"grid": "normalize", "formula": show_raw(fraw)[:400], "type": sort_name(fty), "request_in": "chk " + enc_raw(fraw)}
    # (1) into an empty environment
    envb = Environment()
    try:
        g = envb.formula_manager.normalize(f)
        res = ("ok", g)
    except Exception as e:      # noqa
        res = ("err", type(e).__name__)
    ctx.count("T_normalize")
    ctx.case(("N", rep["request_in"]))
    if res[0] == "err":
        ctx.report_s({"oracle": "transform", "transform": "normalize", "kind": "raised-on-fresh-environment",
                      "error": res[1], "root": fraw[0]},
                     "normalize into an empty environment raised %s on %s" % (res[1], rep["formula"]), rep)
    else:
        graw = raw_of_fnode(res[1])
        gty = from_pysmt(envb.stc.get_type(res[1]))
        # same structure up to the order of the pairs of an array value (Array() orders them by id())
        same = wire.term_key(f, ac_ops=set(), sort_qvars=False) == wire.term_key(res[1], ac_ops=set(), sort_qvars=False)
        if not same or canon_sort(gty) != canon_sort(fty):
            ctx.report_s({"oracle": "transform", "transform": "normalize", "kind": "changed-formula", "root": fraw[0]},
                         "normalize returned %s : %r for %s : %r" % (show_raw(graw)[:300], gty, rep["formula"], fty), rep)
    # (2) into an environment that declares one of the symbols with another sort
    syms = sorted({(t_[1][1], t_[1][2]) for t_ in _symbols_of(fraw)})
    if not syms:
        return
    if clash_name is None:
        nm, s_ = syms[ctx.rng.randrange(len(syms))]
    else:
        nm, s_ = [x for x in syms if x[0] == clash_name][0]
    envc = Environment()
    try:
        envc.formula_manager.Symbol(nm, to_pysmt(envc, other_sort(s_)))
    except Exception:           # noqa
        return
    try:
        g = envc.formula_manager.normalize(f)
        res = ("ok", g)
    except Exception as e:      # noqa
        res = ("err", type(e).__name__)
    ctx.count("T_normalize_clash_" + res[0])
    ctx.case(("NC", nm, rep["request_in"]))
    if res[0] == "ok":
        try:
            graw = show_raw(raw_of_fnode(res[1]))[:300]
            gty = from_pysmt(envc.stc.get_type(res[1]))
        except Exception as e:  # noqa
            graw, gty = "?", type(e).__name__
        ctx.report_s({"oracle": "transform", "transform": "normalize", "kind": "declaration-clash-accepted",
                      "symbol-sort": sort_name(s_).split("(")[0][:12]},
                     "normalize into an environment declaring %s : %s returned %s : %r for %s (where %s : %s) of type %r "
                     "instead of raising" % (nm, sort_name(other_sort(s_)), graw, gty, rep["formula"], nm, sort_name(s_), fty),
                     dict(rep, clash=nm))


def _symbols_of(t, acc=None, seen=None):
    """symbol leaves and function names of a raw tree, as symbol nodes"""
    if acc is None:
        acc, seen = [], set()
    if id(t) in seen:
        return acc
    seen.add(id(t))
    o, p, ch = t
    if o == "symbol":
        acc.append(t)
    elif o == "function" and p is not None and p[0] == "y":
        acc.append(("symbol", p, ()))
    for c in ch:
        _symbols_of(c, acc, seen)
    return acc


def run_transformations(ctx, judge, n):
    import gen
    import pysmt.environment
    env = Environment()
    # the SMT-LIB printer/parser and FNode.get_type use the global environment
    pysmt.environment.push_env(env)
    try:
        uni = gen.Universe(env)
        fg = gen.FormulaGen(ctx.rng, uni, max_depth=4, quant_prob=0.08)
        mgr = env.formula_manager
        tr = transformations(env)
        seeds = []
        b, x = mgr.Symbol("p", env.type_manager.BOOL()), mgr.Symbol("x", env.type_manager.INT())
        seeds.append(mgr.Pow(mgr.Ite(b, mgr.Int(3), mgr.Int(3)), mgr.Int(2)))      # F05
        seeds.append(mgr.Equals(mgr.Pow(mgr.ToReal(x), mgr.Real(2)), mgr.Real(4)))
        seeds.append(mgr.LE(x, mgr.Int(1)))
        seeds.append(mgr.BVNot(mgr.Symbol("b8", env.type_manager.BVType(8))))
        seeds.append(mgr.Function(mgr.Symbol("fn1", env.type_manager.FunctionType(env.type_manager.INT(),
                                                                                 [env.type_manager.INT()])), [x]))
        for i in range(n):
            if ctx.time_left() < 25:
                break
            if i < len(seeds):
                f = seeds[i]
            else:
                ty = fg.any_type(0.6)
                f = fg.gen(ty, ctx.rng.choice([2, 3, 4]))
                if not ty.is_bool_type() and ctx.rng.random() < 0.5:
                    # the Boolean-only transformations see theory terms as well: t = t'
                    f = mgr.Equals(f, fg.gen(ty, 2))
            check_transformations(ctx, judge, env, tr, f)
            check_normalize(ctx, env, f)
    finally:
        pysmt.environment.pop_env()


# =====================================================================================
# entry points
# =====================================================================================
def _pool_map(ctx, fn, jobs):
    from concurrent.futures import ProcessPoolExecutor
    import multiprocessing
    if ctx.workers <= 1:
        return [fn(j) for j in jobs]
    with ProcessPoolExecutor(ctx.workers, mp_context=multiprocessing.get_context("fork")) as ex:
        return list(ex.map(fn, jobs))


def run(ctx):
    tier = ctx.tier
    judge = Judge(ctx)
    t0 = time.time()
    # ---- grid A
    res_a = _pool_map(ctx, run_grid_a_op, [(o, tier, ctx.seed % REPEAT_STRIDE if tier == "quick" else None) for o in wire.OPNAMES])
    for r in res_a:
        judge_grid_a(ctx, judge, r)
    ctx.extra["grid_a_calls"] = sum(len(r) for r in res_a)
    ctx.extra["grid_a_s"] = round(time.time() - t0, 1)
    res_a = None
    judge.flush()
    # ---- grid B
    t1 = time.time()
    res_b = _pool_map(ctx, run_grid_b_ctor, [(n, tier, ctx.seed % REPEAT_STRIDE if tier == "quick" else None) for n in ALL_GRID_CTORS])
    for name, r in zip(ALL_GRID_CTORS, res_b):
        judge_grid_b(ctx, judge, name, r)
    ctx.extra["grid_b_calls"] = sum(len(r) for r in res_b)
    ctx.extra["grid_b_s"] = round(time.time() - t1, 1)
    ctx.extra["constructors"] = len(ALL_GRID_CTORS) + len({c[0].split("(")[0] for c in const_cases()})
    res_b = None
    run_constants(ctx, judge)
    judge.flush()
    # ---- create_node histories (Impl/CreateNode.lean)
    run_histories(ctx, 150 if tier == "quick" else 3000)
    # ---- transformations
    run_transformations(ctx, judge, 250 if tier == "quick" else 6000)
    judge.flush()
    ctx.extra["exhaustive"] = True
    ctx.extra["node_types"] = len(wire.OPNAMES)
    ctx.extra["universe"] = [n for n, _ in UNIVERSE]


def replay(ctx, rep):
    r = rep["replay"]
    print("recorded:", {k: v for k, v in r.items() if k != "request"})
    if "request" in r:
        try:
            print("lean:", ctx.lean_run("C03", [r["request"]])[0])
        except common.LeanError as e:
            print("driver does not run:", e)
    judge = Judge(ctx)
    g = r.get("grid")
    if g == "A":
        res = run_grid_a_op((r["op"], "thorough"))
        judge_grid_a(ctx, judge, [x for x in res if [sort_name(s) for s in x[0]] == r["sorts"] and repr(x[1]) == r["payload"]])
    elif g == "B":
        res = run_grid_b_ctor((r["ctor"], "thorough"))
        judge_grid_b(ctx, judge, r["ctor"], [x for x in res if [show_raw(a) for a in x[0]] == r["args"]
                                             and extra_key(x[1]) == r["extra"]])
    elif g == "constants":
        run_constants(ctx, judge)
    elif g == "transform":
        import pysmt.environment
        env = Environment()
        pysmt.environment.push_env(env)
        try:
            f = fnode_of_raw(env, raw_of_wire(r["request_in"]))
            check_transformations(ctx, judge, env, transformations(env), f, only=r["transform"])
        finally:
            pysmt.environment.pop_env()
    elif g == "normalize":
        env = Environment()
        f = fnode_of_raw(env, raw_of_wire(r["request_in"]))
        check_normalize(ctx, env, f, clash_name=r.get("clash"))
    elif g == "hist":
        print("lean:", ctx.lean_run("C03", [r["request"]])[0], " recorded implementation:", r["impl"])
    judge.flush()
    for v in ctx.s_violations:
        print("still fails (S):", v["what"])
    for v in ctx.k_divergences:
        print("still fails (K):", v["what"])
