"""C20 -- work linear in the number of distinct nodes, no call-stack recursion over the nesting depth.

Also hosts the helpers shared with c15.py / c14.py (structural keys, taps on walkers, the request
builder for the generic walker model `lean/PySMT/Impl/Walker.lean`).
"""
import collections
import io
import random
import sys
import time
import warnings

warnings.simplefilter("ignore")

import common

import pysmt.operators as op
import pysmt.typing as types
from pysmt.environment import Environment, push_env, pop_env
from pysmt.fnode import FNode
from pysmt.walkers.dag import DagWalker
from pysmt.oracles import SizeOracle
import pysmt.rewritings as rewritings
import pysmt.smtlib.printers as smt_printers
from pysmt.smtlib.parser import SmtLibParser
from pysmt.smtlib.script import smtlibscript_from_formula

LEAN_MODULES = ["PySMT.Props.C20"]
RULE = ("formula families over every nestable operator (Boolean, Int/Real arithmetic, bit-vectors, ITE of "
        "every sort, array stores): diamond chains (tree size 2^k, k<=60), combs (depth 3000..50000, >> the "
        "recursion limit 1000), wide nodes, random DAGs; every listed operation is run on the real pySMT objects "
        "with its walker's callbacks, work stack and (for parsing) create_node tapped from outside; a case is "
        "non-trivial when the DAG has sharing (tree size > DAG size) or depth > 1000")
ASSUMPTIONS = [
    "CPython's recursion limit is observed (default 1000 enforced by the check), not modelled",
    "the SMT-LIB parser is not modelled in Lean: its create_node calls per node are compared with a closed form "
    "(1 per interior node) and bounded by the number of textual occurrences",
    "wall time is recorded in the evidence and never compared; what is compared is the WORK METER: lines executed "
    "inside <checkout>/pysmt (sys.monitoring) + FNode comparisons through == / in + entries of memo / manager "
    "tables traversed as a whole, at size N and 4N (ratio <= 6 for linear work: the largest ratio of the unchanged "
    "tree is 4.54; ratio <= 1.5 for the same small requests in an environment with a 4 times longer history: "
    "exactly 1.0 on the unchanged tree).  Work done inside C-level built-ins on other containers is invisible to it; "
    "size:dag / size:symbols / size:bool_dag are excluded (their callback bodies build the set of all descendants)",
    "callback *bodies* are not part of the model: it predicts which callbacks run, in which order, the loop "
    "iterations, pushes, final stack and memo key set",
]

MODP = 1000003
ROLL = 2305843009213693951


# ----------------------------------------------------------------------------------------------
# structural keys (shared with C14 / C15)
# ----------------------------------------------------------------------------------------------
COMMUTATIVE = {op.AND, op.OR, op.PLUS, op.TIMES, op.IFF, op.EQUALS, op.BV_AND, op.BV_OR, op.BV_XOR,
               op.BV_ADD, op.BV_MUL, op.BV_COMP}
FRESH_RE = __import__("re").compile(r"^(FV\d+|_?[A-Za-z]*_?fresh_?\d+|\.def_\d+)$")


def _canon_payload(p, sub):
    if isinstance(p, FNode):
        return ("n", sub(p))
    if isinstance(p, types.PySMTType):
        return ("t", str(p))
    if isinstance(p, (tuple, list)):
        return ("T",) + tuple(_canon_payload(x, sub) for x in p)
    return (type(p).__name__, repr(p))


def structural_key(root, ac=False, anon_fresh=False, _cache=None, labels=None):
    """Environment-independent key of an FNode: (node_type, payload, children keys).  Iterative.
    ac=True sorts the children of commutative operators; anon_fresh=True replaces the names of fresh symbols
    (FV<n>) by their sort.  Keys are nested tuples hashed bottom-up into strings of bounded size."""
    import hashlib
    cache = {} if _cache is None else _cache

    def leafkey(n):
        # payload nodes (quantified variables, function names) are symbols
        return key_of(n)

    def key_of(n):
        k = cache.get(n)
        if k is not None:
            return k
        stack = [(n, False)]
        while stack:
            node, done = stack.pop()
            if node in cache:
                continue
            pend = [c for c in node.args() if c not in cache]
            payload = node._content.payload
            pnodes = []
            if isinstance(payload, FNode):
                pnodes = [payload]
            elif isinstance(payload, (tuple, list)):
                pnodes = [x for x in payload if isinstance(x, FNode)]
            pend += [c for c in pnodes if c not in cache and c is not node]
            if pend and not done:
                stack.append((node, True))
                for c in pend:
                    stack.append((c, False))
                continue
            nt = node.node_type()
            if labels is not None and node in labels:
                pk = ("label", labels[node])
            elif anon_fresh and nt == op.SYMBOL and FRESH_RE.match(node.symbol_name()):
                pk = ("fresh", str(node.symbol_type()))
            else:
                pk = _canon_payload(payload, lambda x: cache[x])
            ck = [cache[c] for c in node.args()]
            if ac and nt in COMMUTATIVE:
                ck = sorted(ck)
            raw = repr((nt, pk, ck)).encode()
            cache[node] = hashlib.blake2b(raw, digest_size=12).hexdigest()
        return cache[n]

    return key_of(root)


def result_key(r, ac=True):
    """Key of an arbitrary API result (FNode, collections of FNodes / types, numbers, strings, Theory...)."""
    if isinstance(r, FNode):
        return ("F", structural_key(r, ac=ac, anon_fresh=ac))
    if isinstance(r, (frozenset, set)):
        return ("S",) + tuple(sorted((result_key(x, ac) for x in r), key=repr))
    if isinstance(r, (list, tuple)):
        return ("L",) + tuple(result_key(x, ac) for x in r)
    if isinstance(r, dict):
        return ("D",) + tuple(sorted(((result_key(k, ac), result_key(v, ac)) for k, v in r.items()), key=repr))
    if isinstance(r, types.PySMTType):
        return ("t", str(r))
    if r is None or isinstance(r, (bool, int, str)):
        return (type(r).__name__, r)
    return (type(r).__name__, str(r))


# ----------------------------------------------------------------------------------------------
# taps: observe a walker from the outside
# ----------------------------------------------------------------------------------------------
class Runaway(Exception):
    """the tapped loop ran far beyond the proved bound: stopped by the harness"""


class CountingList(list):
    """a work stack that counts `append` and `pop` (and stops a runaway loop)"""
    pushes = 0
    pops = 0
    maxlen = 0
    limit = None

    def append(self, x):
        self.pushes += 1
        list.append(self, x)
        if len(self) > self.maxlen:
            self.maxlen = len(self)

    def pop(self, *a):
        self.pops += 1
        if self.limit is not None and self.pops > self.limit:
            raise Runaway(self.pops)
        return list.pop(self, *a)


class Injected(Exception):
    """exception injected at the k-th callback"""


class Tap(object):
    """Wraps `walker.functions[...]` (or another dispatch dict) and `walker.stack`."""

    def __init__(self, walker, fun_dict=None, fail_at=None, fail_nodes=(), limit=None, max_calls=None):
        self.max_calls = max_calls
        self.walker = walker
        self.d = walker.functions if fun_dict is None else fun_dict
        self.saved = dict(self.d)
        self.trace = []
        self.fail_at = fail_at          # 1-based index of the callback invocation that raises
        self.fail_nodes = set(fail_nodes)
        wrapped = {}
        for k, fn in self.saved.items():
            w = wrapped.get(id(fn))
            if w is None:
                w = self._wrap(fn)
                wrapped[id(fn)] = w
            self.d[k] = w
        self.saved_stack = walker.stack
        walker.stack = CountingList(walker.stack)
        walker.stack.limit = limit

    def _wrap(self, fn):
        tap = self
        walker = self.walker

        def w(formula, *a, **kw):
            kk = dict(kw)
            kk.pop("args", None)
            try:
                key = walker._get_key(formula, **kk)
            except TypeError:
                key = formula
            tap.trace.append(key)
            if tap.max_calls is not None and len(tap.trace) > tap.max_calls:
                raise Runaway(len(tap.trace))
            if tap.fail_at is not None and len(tap.trace) == tap.fail_at:
                raise Injected(len(tap.trace))
            if key in tap.fail_nodes:
                raise Injected(len(tap.trace))
            return fn(formula, *a, **kw)
        return w

    def restore(self):
        for k, fn in self.saved.items():
            self.d[k] = fn
        st = self.walker.stack
        self.walker.stack = list(st)
        return st


def abstract_graph(root_key, children, direct=lambda k: False):
    """Index the keys reachable from root_key, children before parents (index = rank).
    Returns (order, index, child_lists)."""
    index = {}
    order = []
    chl = []
    kids_cache = {}

    def kids(k):
        r = kids_cache.get(k)
        if r is None:
            r = [] if direct(k) else list(children(k))
            kids_cache[k] = r
        return r

    roots = root_key if isinstance(root_key, list) else [root_key]
    stack = [(rk, False) for rk in reversed(roots)]
    while stack:
        k, done = stack.pop()
        if k in index:
            continue
        if not done:
            stack.append((k, True))
            for c in kids(k):
                if c not in index:
                    stack.append((c, False))
        else:
            index[k] = len(order)
            order.append(k)
            chl.append([index[c] for c in kids(k)])
    return order, index, chl


def rolling(l):
    h = 0
    for x in l:
        h = (h * 1000003 + x + 1) % ROLL
    return h


def show_list(full, l):
    if full:
        return ",".join(map(str, l)) if l else "-"
    return "%d:%d" % (len(l), rolling(l))


def make_request(chl, direct_idx, inv, short, full, memo_idx, ops):
    ch = ";".join(",".join(map(str, c)) for c in chl)
    return "walker ch=%s direct=%s inv=%d short=%d full=%d memo=%s ops=%s" % (
        ch, ",".join(map(str, direct_idx)) or "-", int(bool(inv)), int(bool(short)), int(bool(full)),
        ",".join(map(str, memo_idx)) or "-", ";".join(ops))


def parse_answer(line):
    """-> list of dicts (one per op) or None for bad-op"""
    if line.startswith("bad-op"):
        return None
    res = []
    for part in line.split(" | "):
        toks = part.split(" ")
        d = {"out": toks[0]}
        for t in toks[1:]:
            k, _, v = t.partition("=")
            d[k] = v
        res.append(d)
    return res


def hcb(n, args):
    acc = (n + 1) % MODP
    for a in args:
        acc = (acc * 31 + a) % MODP
    return acc


class HashWalker(DagWalker):
    """A DagWalker whose callback is the model's hash: exercises walkers/dag.py itself, result included."""

    def __init__(self, env, index, invalidate_memoization=False, tagged=False):
        DagWalker.__init__(self, env=env, invalidate_memoization=invalidate_memoization)
        self.index = index
        self.tagged = tagged
        for k in list(self.functions):
            self.functions[k] = self.cbk
        self.fail_children = None       # `_get_children` raises on this formula
        self.fail_key = None            # `_get_key` raises on this key
        self.fault_hit = None

    def _get_children(self, formula):
        if self.fail_children is not None and formula is self.fail_children:
            self.fault_hit = formula
            raise Injected("children")
        return formula.args()

    def _get_key(self, formula, **kwargs):
        key = (kwargs["tag"], formula) if self.tagged else formula
        if self.fail_key is not None and key == self.fail_key:
            self.fault_hit = key
            raise Injected("key")
        return key

    def cbk(self, formula, args, **kwargs):
        return hcb(self.index[self._get_key(formula, **kwargs)], args)


# ----------------------------------------------------------------------------------------------
# formula families
# ----------------------------------------------------------------------------------------------
class Fam(object):
    """a generated formula: `phi` Boolean root, `leaf` -> `rep` a substitution that changes it"""

    def __init__(self, env, name, params, phi, leaf, rep, depth, decls, term=None):
        self.env, self.name, self.params = env, name, params
        self.phi, self.leaf, self.rep, self.depth, self.decls = phi, leaf, rep, depth, decls
        self.term = term if term is not None else phi


DIAMOND_KINDS = ["bool", "int", "real", "bv", "ite_bool", "ite_int", "ite_real", "ite_bv", "ite_arr", "store", "mixed",
                 "select2d", "str_let", "str_inline"]
DIAMOND_KMAX = {"mixed": 40, "select2d": 12, "str_let": 30, "str_inline": 7}
COMB_KINDS = ["and", "or_not", "plus", "times_minus", "bvadd", "bvmix", "ite_bv_then", "ite_int_else", "store",
              "ite_bool", "ite_arr_then", "str_concat"]
WIDE_KINDS = ["and", "plus", "or_atoms", "bvor_chain"]


def build_family(env, shape, kind, k):
    """Builds the formula with the environment's formula manager; every construction goes through create_node and
    is type-checked (that is operation `construct`)."""
    m = env.formula_manager
    INT, REAL, BOOL = types.INT, types.REAL, types.BOOL
    BV8 = types.BVType(8)
    ARR = types.ArrayType(INT, INT)
    x, y = m.Symbol("x", INT), m.Symbol("y", INT)
    r, q = m.Symbol("r", REAL), m.Symbol("q", REAL)
    v, w = m.Symbol("v", BV8), m.Symbol("w", BV8)
    a, b = m.Symbol("a", ARR), m.Symbol("b", ARR)
    ps = [m.Symbol("p%d" % i, BOOL) for i in range(7)]
    p, pp = ps[0], ps[1]
    depth = k

    def atom(t):
        ty = env.stc.get_type(t)
        if ty.is_bool_type():
            return t
        if ty.is_int_type():
            return m.LE(t, y)
        if ty.is_real_type():
            return m.LT(t, q)
        if ty.is_bv_type():
            return m.BVULE(t, w)
        if ty.is_string_type():
            return m.Equals(t, m.Symbol("s1", types.STRING))
        return m.Equals(m.Select(t, x), y)

    if shape == "diamond":
        if kind == "bool":
            t = p
            for i in range(k):
                c = ps[i % 7]
                t = [m.And(t, m.Or(t, c)), m.Or(m.Not(t), m.And(t, c)), m.Implies(t, m.Iff(t, c)),
                     m.Iff(m.Not(t), m.Or(t, c)), m.And(m.Or(t, c), m.Or(t, m.Not(c)), t)][i % 5]
            leaf, rep = p, pp
        elif kind == "int":
            t = x
            for i in range(k):
                t = [m.Plus(t, m.Times(m.Int(2), t)), m.Minus(m.Times(t, m.Int(3)), t),
                     m.Plus(t, t, m.Int(i % 3))][i % 3]
            leaf, rep = x, y
        elif kind == "real":
            t = r
            for i in range(k):
                t = [m.Plus(t, m.Times(m.Real((1, 2)), t)), m.Minus(t, m.Div(t, m.Real(3))),
                     m.Plus(m.ToReal(x), t, t)][i % 3]
            leaf, rep = r, q
        elif kind == "bv":
            t = v
            for i in range(k):
                c = m.BV(i % 5, 8)
                t = [m.BVAdd(t, m.BVXor(t, c)), m.BVAnd(m.BVNot(t), m.BVOr(t, c)), m.BVMul(t, m.BVSub(t, c)),
                     m.BVExtract(m.BVConcat(t, t), 4, 11), m.BVLShl(t, m.BVLShr(t, c)),
                     m.BVZExt(m.BVExtract(m.BVRol(t, 3), 0, 3), 4), m.BVNeg(m.BVUDiv(t, m.BVURem(t, c))),
                     m.BVAShr(m.BVSExt(m.BVExtract(t, 0, 3), 4), m.BVRor(t, 1))][i % 8]
            leaf, rep = v, w
        elif kind == "ite_bool":
            t = p
            for i in range(k):
                t = m.Ite(ps[i % 7], t, m.Not(t))
            leaf, rep = p, pp
        elif kind == "ite_int":
            t = x
            for i in range(k):
                t = m.Ite(ps[i % 7], t, m.Plus(t, m.Int(1)))
            leaf, rep = x, y
        elif kind == "ite_real":
            t = r
            for i in range(k):
                t = m.Ite(m.LT(t, q), m.Plus(t, q), t)
            leaf, rep = r, q
        elif kind == "ite_bv":
            t = v
            for i in range(k):
                t = m.Ite(m.BVULT(t, w), m.BVAdd(t, w), t)
            leaf, rep = v, w
        elif kind == "ite_arr":
            t = a
            for i in range(k):
                t = m.Ite(ps[i % 7], m.Store(t, m.Int(i), x), t)
            leaf, rep = a, b
        elif kind == "store":
            t = a
            for i in range(k):
                t = m.Store(t, m.Select(t, m.Int(i)), m.Select(t, m.Int(i + 1)))
            leaf, rep = a, b
        elif kind == "select2d":        # nested reads of a two-dimensional array: p' = m2[p][p]
            m2 = m.Symbol("m2", types.ArrayType(INT, ARR))
            t = x
            for i in range(k):
                t = m.Select(m.Select(m2, t), t) if i % 3 else m.Select(m.Select(m2, t), m.Plus(t, m.Int(1)))
            leaf, rep = x, y
        elif kind == "str_let":         # string operators that the DAG printer binds with let
            s0, s1 = m.Symbol("s0", types.STRING), m.Symbol("s1", types.STRING)
            t = s0
            for i in range(k):
                t = m.StrConcat(t, m.StrConcat(t, s1))
            leaf, rep = s0, s1
        elif kind == "str_inline":      # string operators that the DAG printer prints in place
            s0, s1 = m.Symbol("s0", types.STRING), m.Symbol("s1", types.STRING)
            t = s0
            for i in range(k):
                t = [m.StrReplace(t, s1, t), m.StrSubstr(t, m.StrLength(t), m.Int(1)),
                     m.StrCharAt(m.StrReplace(t, t, s1), m.StrIndexOf(t, s1, m.Int(0)))][i % 3]
            leaf, rep = s0, s1
        else:  # mixed: all sorts at once
            ti, tb, tv, ta = x, p, v, a
            for i in range(k):
                tb2 = m.And(tb, m.Or(tb, m.LE(ti, y)))
                ti2 = m.Ite(tb, m.Plus(ti, ti), m.Select(ta, ti))
                tv2 = m.Ite(tb, m.BVAdd(tv, tv), m.BVNot(tv))
                ta2 = m.Store(ta, ti, m.Ite(tb, ti, m.BVToNatural(tv)))
                ti, tb, tv, ta = ti2, tb2, tv2, ta2
            t = m.And(tb, m.LE(ti, y), m.BVULE(tv, w), m.Equals(m.Select(ta, x), y))
            leaf, rep = x, y
    elif shape == "comb":
        if kind == "and":
            t = p
            for i in range(k):
                t = m.And(t, ps[i % 7])
            leaf, rep = p, pp
        elif kind == "or_not":
            t = p
            for i in range(k):
                t = m.Or(m.Not(t), ps[i % 7]) if i % 2 else m.Implies(ps[i % 7], t)
            leaf, rep = p, pp
        elif kind == "plus":
            t = x
            for i in range(k):
                t = m.Plus(t, m.Int(i % 3))
            leaf, rep = x, y
        elif kind == "times_minus":
            t = r
            for i in range(k):
                t = m.Minus(m.Times(m.Real(2), t), q) if i % 2 else m.Plus(t, q)
            leaf, rep = r, q
        elif kind == "bvadd":
            t = v
            for i in range(k):
                t = m.BVAdd(t, w)
            leaf, rep = v, w
        elif kind == "bvmix":
            t = v
            for i in range(k):
                t = [m.BVXor(t, w), m.BVNot(t), m.BVMul(w, t), m.BVExtract(m.BVZExt(t, 8), 0, 7),
                     m.BVRol(t, 1), m.BVOr(t, m.BV(i % 7, 8))][i % 6]
            leaf, rep = v, w
        elif kind == "ite_bv_then":
            t = v
            for i in range(k):
                t = m.Ite(ps[i % 7], t, w)
            t = m.BVNot(t)          # FNode.bv_width() of the chain (F26)
            leaf, rep = v, w
        elif kind == "ite_int_else":
            t = x
            for i in range(k):
                t = m.Ite(ps[i % 7], y, t)
            leaf, rep = x, y
        elif kind == "ite_bool":
            t = p
            for i in range(k):
                t = m.Ite(ps[i % 7], t, ps[(i + 3) % 7])
            leaf, rep = p, pp
        elif kind == "ite_arr_then":
            t = a
            for i in range(k):
                t = m.Ite(ps[i % 7], t, b)
            leaf, rep = a, b
        elif kind == "str_concat":      # strings: outside the property's operator list (regression family, F46)
            s0, s1 = m.Symbol("s0", types.STRING), m.Symbol("s1", types.STRING)
            t = s0
            for i in range(k):
                t = m.StrConcat(t, s1)
            leaf, rep = s0, s1
        else:  # store
            t = a
            for i in range(k):
                t = m.Store(t, m.Int(i % 11), x)
            leaf, rep = a, b
    elif shape == "wide":
        depth = 3
        if kind == "and":
            t = m.And([m.Or(ps[i % 7], m.LE(m.Plus(x, m.Int(i)), y)) for i in range(k)])
            leaf, rep = x, y
        elif kind == "plus":
            sub = m.Times(m.Int(3), x)
            t = m.Plus([m.Plus(sub, m.Int(i)) for i in range(k)])
            leaf, rep = x, y
        elif kind == "or_atoms":
            sub = m.BVAdd(v, w)
            t = m.Or([m.BVULT(sub, m.BV(i % 256, 8)) if i % 2 else m.Equals(sub, m.BV(i % 256, 8))
                      for i in range(k)])
            leaf, rep = v, w
        else:
            t = m.And([m.Equals(m.Select(m.Store(a, m.Int(i), x), y), m.Int(i)) for i in range(k)])
            leaf, rep = a, b
    elif shape == "quant":
        # outside the property's operator list (quantifiers), kept as a regression family for the walkers that
        # override the push at quantifiers: a quantified sub-formula with several parents
        depth = 3
        if kind == "shared":
            body = p
            for i in range(k):
                body = m.And(body, m.Or(body, ps[i % 7]))
            qf_ = m.ForAll([ps[6]], body)
            t = m.And(qf_, m.Or(qf_, pp), m.Not(qf_))
        else:
            t = p
            for i in range(k):
                bx = m.Symbol("bx%d" % i, BOOL)
                t = m.Exists([bx], m.And(t, m.Or(t, bx))) if i % 2 else m.ForAll([bx], m.And(t, m.Or(t, bx)))
        leaf, rep = p, pp
    else:
        raise ValueError(shape)
    phi = atom(t)
    decls = [x, y, r, q, v, w, a, b] + ps
    return Fam(env, "%s/%s" % (shape, kind), {"shape": shape, "kind": kind, "k": k}, phi, leaf, rep, depth, decls,
               term=t)


def random_dag(env, rng, n):
    """random well-typed DAG with n operator applications over all sorts; returns a Boolean root"""
    m = env.formula_manager
    INT, REAL, BOOL = types.INT, types.REAL, types.BOOL
    BV8 = types.BVType(8)
    ARR = types.ArrayType(INT, INT)
    pool = {
        "b": [m.Symbol("p%d" % i, BOOL) for i in range(3)],
        "i": [m.Symbol("x", INT), m.Symbol("y", INT), m.Int(1)],
        "r": [m.Symbol("r", REAL), m.Symbol("q", REAL), m.Real((1, 2))],
        "v": [m.Symbol("v", BV8), m.Symbol("w", BV8), m.BV(3, 8)],
        "a": [m.Symbol("a", ARR), m.Symbol("b", ARR)],
    }
    pick = lambda s: rng.choice(pool[s][-12:] if rng.random() < 0.7 else pool[s])
    rules = [
        ("b", lambda: m.And(pick("b"), pick("b"))), ("b", lambda: m.Or(pick("b"), pick("b"), pick("b"))),
        ("b", lambda: m.Not(pick("b"))), ("b", lambda: m.Implies(pick("b"), pick("b"))),
        ("b", lambda: m.Iff(pick("b"), pick("b"))), ("b", lambda: m.Ite(pick("b"), pick("b"), pick("b"))),
        ("b", lambda: m.LE(pick("i"), pick("i"))), ("b", lambda: m.LT(pick("r"), pick("r"))),
        ("b", lambda: m.Equals(pick("i"), pick("i"))), ("b", lambda: m.BVULT(pick("v"), pick("v"))),
        ("b", lambda: m.Equals(pick("a"), pick("a"))), ("b", lambda: m.BVSLE(pick("v"), pick("v"))),
        ("i", lambda: m.Plus(pick("i"), pick("i"))), ("i", lambda: m.Minus(pick("i"), pick("i"))),
        ("i", lambda: m.Times(m.Int(rng.randint(-2, 3)), pick("i"))), ("i", lambda: m.Ite(pick("b"), pick("i"), pick("i"))),
        ("i", lambda: m.Select(pick("a"), pick("i"))), ("i", lambda: m.BVToNatural(pick("v"))),
        ("r", lambda: m.Plus(pick("r"), pick("r"))), ("r", lambda: m.ToReal(pick("i"))),
        ("r", lambda: m.Ite(pick("b"), pick("r"), pick("r"))), ("r", lambda: m.Div(pick("r"), m.Real(2))),
        ("v", lambda: m.BVAdd(pick("v"), pick("v"))), ("v", lambda: m.BVNot(pick("v"))),
        ("v", lambda: m.BVXor(pick("v"), pick("v"))), ("v", lambda: m.Ite(pick("b"), pick("v"), pick("v"))),
        ("v", lambda: m.BVExtract(m.BVConcat(pick("v"), pick("v")), 2, 9)), ("v", lambda: m.BVMul(pick("v"), pick("v"))),
        ("a", lambda: m.Store(pick("a"), pick("i"), pick("i"))), ("a", lambda: m.Ite(pick("b"), pick("a"), pick("a"))),
    ]
    for _ in range(n):
        s, mk = rng.choice(rules)
        pool[s].append(mk())
    tops = [pool["b"][-1], m.LE(pool["i"][-1], pool["i"][0]), m.LT(pool["r"][-1], pool["r"][0]),
            m.BVULE(pool["v"][-1], pool["v"][0]), m.Equals(m.Select(pool["a"][-1], pool["i"][0]), pool["i"][1])]
    phi = m.And(tops)
    decls = [f for s in pool for f in pool[s][:3] if f.is_symbol()]
    fam = Fam(env, "random", {"shape": "random", "n": n}, phi, pool["i"][0], pool["i"][1], 0, decls)
    fam.pool = pool
    return fam


# ----------------------------------------------------------------------------------------------
# operations: (name, how to obtain the walker, how to call it)
# ----------------------------------------------------------------------------------------------
def plain_children(walker):
    return lambda k: walker._get_children(k)


class OpSpec(object):
    """one tapped operation on a family"""

    def __init__(self, name, make, call, key=lambda f: f, children=None, direct=None, fun_dict=None,
                 bool_only=False):
        self.name, self.make, self.call = name, make, call
        self.key, self.children, self.direct, self.fun_dict = key, children, direct, fun_dict
        self.bool_only = bool_only


def size_spec(measure, mname):
    def key(f):
        return (measure, f)

    def children(w):
        return lambda k: [(k[0], c) for c in k[1].args()]

    return OpSpec("size:" + mname, lambda env: env.sizeo, lambda env, w, fam: w.get_size(fam.phi, measure=measure),
                  key=key, children=children, fun_dict=lambda w: w.measure_to_fun)


def make_ops():
    ops = [
        OpSpec("simplify", lambda env: env.simplifier, lambda env, w, fam: w.simplify(fam.phi)),
        OpSpec("substitute", lambda env: env.substituter,
               lambda env, w, fam: w.substitute(fam.phi, {fam.leaf: fam.rep}),
               direct=lambda k: k.is_quantifier()),
        OpSpec("free_vars", lambda env: env.fvo, lambda env, w, fam: w.get_free_variables(fam.phi)),
        OpSpec("atoms", lambda env: env.ao, lambda env, w, fam: w.get_atoms(fam.phi)),
        OpSpec("qf", lambda env: env.qfo, lambda env, w, fam: w.is_qf(fam.phi)),
        OpSpec("types", lambda env: env.typeso, lambda env, w, fam: w.get_types(fam.phi)),
        OpSpec("theory", lambda env: env.theoryo, lambda env, w, fam: w.get_theory(fam.phi)),
        OpSpec("get_type", lambda env: env.stc, lambda env, w, fam: w.get_type(fam.phi)),
        size_spec(SizeOracle.MEASURE_TREE_NODES, "tree"),
        size_spec(SizeOracle.MEASURE_DEPTH, "depth"),
        size_spec(SizeOracle.MEASURE_LEAVES, "leaves"),
        size_spec(SizeOracle.MEASURE_DAG_NODES, "dag"),
        size_spec(SizeOracle.MEASURE_SYMBOLS, "symbols"),
        size_spec(SizeOracle.MEASURE_BOOL_DAG, "bool_dag"),
        OpSpec("nnf", lambda env: rewritings.NNFizer(env), lambda env, w, fam: w.convert(fam.phi)),
        OpSpec("nnf_neg", lambda env: rewritings.NNFizer(env),
               lambda env, w, fam: w.convert(env.formula_manager.Not(fam.phi)),
               key=lambda f: f),
        OpSpec("prenex", lambda env: rewritings.PrenexNormalizer(env), lambda env, w, fam: w.normalize(fam.phi)),
        OpSpec("aig", lambda env: rewritings.AIGer(env), lambda env, w, fam: w.convert(fam.phi)),
        OpSpec("print_dag", lambda env: smt_printers.SmtDagPrinter(io.StringIO()),
               lambda env, w, fam: w.printer(fam.phi), direct=lambda k: k.is_quantifier()),
    ]
    return ops


TEXT_PER_ITEM = 120       # characters of `to_smtlib(daggify=True)` per node or edge (measured maximum: see evidence)

QUADRATIC_OPS = {"size:dag", "size:symbols", "size:bool_dag"}   # callback bodies build sets of all descendants


def root_of(spec, env, fam):
    if spec.name == "nnf_neg":
        return env.formula_manager.Not(fam.phi)
    return fam.phi


def run_op(ctx, spec, env, fam, fail_at=None, want_full=False):
    """Run one tapped operation; returns a record with everything observable and the model request."""
    w = spec.make(env)
    root_f = root_of(spec, env, fam)
    root_key = spec.key(root_f)
    children = spec.children(w) if spec.children else plain_children(w)
    direct = spec.direct or (lambda k: False)
    order, index, chl = abstract_graph(root_key, children, direct)
    pre_memo = sorted(index[k] for k in w.memoization if k in index)
    fd = spec.fun_dict(w) if spec.fun_dict else None
    tap = Tap(w, fun_dict=fd, fail_at=fail_at, limit=20 * (len(order) + sum(len(c) for c in chl)) + 1000)
    # the free-variables oracle is called from inside the callbacks of other walkers: count its work, too
    fvo_tap = Tap(env.fvo, max_calls=20 * len(order) + 1000) if w is not env.fvo else None
    t0 = time.time()
    exc = None
    try:
        res = spec.call(env, w, fam)
    except BaseException as e:     # noqa
        if isinstance(e, (KeyboardInterrupt, SystemExit)):
            raise
        exc = e
        res = None
    dt = time.time() - t0
    st = tap.restore()
    fvo_calls = 0
    if fvo_tap is not None:
        fvo_tap.restore()
        fvo_calls = len(fvo_tap.trace)
    text_len = len(w.stream.getvalue()) if spec.name == "print_dag" else None
    trace = []
    foreign = 0
    for k in tap.trace:
        i = index.get(k)
        if i is None:
            foreign += 1
        else:
            trace.append(i)
    post_memo = sorted(index[k] for k in w.memoization if k in index)
    full = want_full or len(order) <= 60
    short = root_key is root_f
    req = make_request(chl, [index[k] for k in order if direct(k)], w.invalidate_memoization, short, full,
                       pre_memo, ["w%d" % index[root_key] + ("@%d" % fail_at if fail_at else "")])
    counts = collections.Counter(trace)
    rec = {
        "op": spec.name, "nodes": len(order), "edges": sum(len(c) for c in chl), "req": req, "full": full,
        "out": "ok" if exc is None else ("err" if isinstance(exc, Injected) else "exc:" + type(exc).__name__),
        "exc": exc, "c": show_list(full, trace), "ncalls": len(trace), "foreign": foreign,
        "st": len(w.stack), "m": show_list(full, post_memo), "p": st.pushes, "i": st.pops, "maxstack": st.maxlen,
        "maxcount": max(counts.values()) if counts else 0, "time": dt, "res": res,
        "worst": [order[i] for i, c in counts.items() if c > 1][:1],
        "fvo_calls": fvo_calls, "text_len": text_len,
    }
    return rec


def compare_construction(ctx, fam, rec, ans):
    crec = rec["construct"]
    replay = {"family": fam.params, "op": "construct"}
    if ans is None:
        ctx.report_k("model rejected the construction request of %s" % fam.name, replay)
        return
    calls = []
    for a in ans:
        if not a["out"].startswith("ok") or a.get("st") != "0":
            ctx.report_k("construction of %s: model answers %s" % (fam.name, a), replay)
            return
        calls.append(a["c"])
    want = ["1:%d" % rolling([i]) for i in crec["trace_idx"]]
    p = sum(int(a["p"]) for a in ans)
    it = sum(int(a["i"]) for a in ans)
    if calls != want or p != crec["p"] or it != crec["i"]:
        ctx.report_k("construction of %s: callbacks/pushes/iterations model=(%d,%d,%d) impl=(%d,%d,%d)" % (
            fam.name, sum(1 for c in calls if c.startswith("1:")), p, it, crec["ncalls"], crec["p"], crec["i"]), replay)


def compare(ctx, fam, rec, ans, fam_sig):
    """K: model answer vs observation; S: the property's own bounds."""
    if rec["op"] == "construct":
        return compare_construction(ctx, fam, rec, ans)
    replay = {"family": fam.params, "op": rec["op"], "req": rec["req"][:2000]}
    sig = dict(fam_sig, op=rec["op"])
    bad = False
    # ---- S: independent of the model
    if isinstance(rec["exc"], RecursionError):
        ctx.report_s(dict(sig, oracle="recursion"), "RecursionError in %s on %s (recursion limit %d)" % (
            rec["op"], fam.name, sys.getrecursionlimit()), replay)
        bad = True
    if rec["maxcount"] > 1:
        ctx.report_s(dict(sig, oracle="visit-count"),
                     "%s invoked a callback %d times on one node of %s (%d distinct nodes, %d invocations)" % (
                         rec["op"], rec["maxcount"], fam.name, rec["nodes"], rec["ncalls"]), replay)
        bad = True
    if rec.get("fvo_calls", 0) > 8 * rec["nodes"] + 100:
        ctx.report_s(dict(sig, oracle="nested-oracle-calls"),
                     "%s on %s (%d distinct nodes): the free-variables oracle ran %d callbacks inside it" % (
                         rec["op"], fam.name, rec["nodes"], rec["fvo_calls"]), replay)
        bad = True
    if rec.get("text_len") is not None:
        r_ = rec["text_len"] / float(rec["nodes"] + rec["edges"] + 1)
        if fam.name != "diamond/str_inline":
            ctx.extra["max_dag_print_chars_per_item"] = max(ctx.extra.get("max_dag_print_chars_per_item", 0), round(r_, 1))
    if rec.get("text_len") is not None and rec["text_len"] > TEXT_PER_ITEM * (rec["nodes"] + rec["edges"]) + 2000:
        ctx.report_s(dict(sig, oracle="output-size"),
                     "DAG print of %s: %d characters for %d nodes and %d edges" % (
                         fam.name, rec["text_len"], rec["nodes"], rec["edges"]), replay)
        bad = True
    if isinstance(rec["exc"], Runaway) or rec["i"] > 2 * rec["edges"] + 2:
        ctx.report_s(dict(sig, oracle="iterations"), "%s: %d loop iterations > 2*%d+2" % (
            rec["op"], rec["i"], rec["edges"]), replay)
        bad = True
    # ---- K
    if ans is None:
        ctx.report_k("model rejected the request of %s on %s" % (rec["op"], fam.name), replay)
        return False
    a = ans[0]
    out_model = a["out"].split(":")[0]
    out_impl = "ok" if rec["out"] == "ok" else "err"
    diffs = []
    if out_model != out_impl:
        diffs.append("outcome model=%s impl=%s" % (a["out"], rec["out"]))
    for fld, mine in (("c", rec["c"]), ("st", str(rec["st"])), ("m", rec["m"]), ("p", str(rec["p"])),
                      ("i", str(rec["i"]))):
        if a.get(fld) != mine:
            diffs.append("%s model=%s impl=%s" % (fld, a.get(fld, "?")[:80], mine[:80]))
    if rec["foreign"]:
        diffs.append("%d callbacks on nodes outside the DAG" % rec["foreign"])
    if diffs:
        ctx.report_k("%s on %s: %s" % (rec["op"], fam.name, "; ".join(diffs)), replay)
        bad = True
    return not bad


# ----------------------------------------------------------------------------------------------
# construction (type check at create_node) and parsing
# ----------------------------------------------------------------------------------------------
def tapped_construction(ctx, shape, kind, k):
    """Build the family in a fresh environment with the type checker tapped."""
    env = Environment()
    push_env(env)
    try:
        tap = Tap(env.stc, limit=2000 * k + 200000)
        t0 = time.time()
        exc = None
        fam = None
        try:
            fam = build_family(env, shape, kind, k)
        except BaseException as e:   # noqa
            if isinstance(e, (KeyboardInterrupt, SystemExit)):
                raise
            exc = e
        dt = time.time() - t0
        st = tap.restore()
        counts = collections.Counter(tap.trace)
        crec = {"exc": exc, "counts": counts, "ncalls": len(tap.trace), "p": st.pushes, "i": st.pops,
                "time": dt, "maxstack": st.maxlen, "req": None}
        if exc is None and len(tap.trace) <= 1500 and len(counts) == len(tap.trace):
            # the same construction as a request to the model: one walk per created node, in creation order
            pre = []
            seen = set(tap.trace)
            for nd in tap.trace:
                for c in nd.args():
                    if c not in seen:
                        seen.add(c)
                        pre.append(c)
            order = pre + list(tap.trace)
            index = {nd: i for i, nd in enumerate(order)}
            chl = [[] for _ in pre] + [[index[c] for c in nd.args()] for nd in tap.trace]
            crec["req"] = make_request(chl, [], False, True, False, list(range(len(pre))),
                                       ["w%d" % index[nd] for nd in tap.trace])
            crec["trace_idx"] = [index[nd] for nd in tap.trace]
        return env, fam, crec
    finally:
        pop_env()


def check_construction(ctx, fam_params, env, fam, crec, fam_sig):
    replay = {"family": fam_params, "op": "construct"}
    sig = dict(fam_sig, op="construct")
    if crec["exc"] is not None:
        if isinstance(crec["exc"], Runaway):
            ctx.report_s(dict(sig, oracle="iterations"),
                         "type check at construction of %s: more than %s loop iterations" % (fam_params, crec["exc"]), replay)
        elif isinstance(crec["exc"], RecursionError):
            ctx.report_s(dict(sig, oracle="recursion"),
                         "RecursionError while constructing %s" % (fam_params,), replay)
        else:
            ctx.report_k("construction of %s raised %r" % (fam_params, crec["exc"]), replay)
        return False
    ok = True
    worst = max(crec["counts"].values()) if crec["counts"] else 0
    if worst > 1:
        ctx.report_s(dict(sig, oracle="visit-count"),
                     "type check at construction visited a node %d times (%s)" % (worst, fam_params), replay)
        ok = False
    # model (theorem typecheck_const): one callback per created node, 2 loop iterations, 2 pushes
    created = len(crec["counts"])
    if crec["ncalls"] != created or crec["i"] != 2 * created or crec["p"] != 2 * created or crec["maxstack"] > 1:
        ctx.report_k("construction of %s: %d callbacks for %d nodes, %d iterations, max stack %d" % (
            fam_params, crec["ncalls"], created, crec["i"], crec["maxstack"]), replay)
        ok = False
    return ok


def check_parse(ctx, env, fam, fam_sig, timings):
    """DAG printing -> text -> parsing: create_node calls per node."""
    m = env.formula_manager
    replay = {"family": fam.params, "op": "parse_dag"}
    sig = dict(fam_sig, op="parse_dag")
    try:
        t0 = time.time()
        buf = io.StringIO()
        smtlibscript_from_formula(fam.phi).serialize(buf, daggify=True)
        text = buf.getvalue()
        timings["print_script"] = time.time() - t0
    except RecursionError:
        ctx.report_s(dict(sig, oracle="recursion", op="print_script"), "RecursionError printing the script", replay)
        return False
    except Exception as e:      # noqa
        ctx.report_k("printing the script of %s raised %r" % (fam.name, e), replay)
        return False
    cnt = collections.Counter()
    orig = m.create_node

    def cn(node_type, args, payload=None):
        n = orig(node_type=node_type, args=args, payload=payload)
        cnt[n] += 1
        return n
    m.create_node = cn
    t0 = time.time()
    exc = None
    g = None
    script_obj = [None]
    try:
        script_obj[0] = SmtLibParser(env).get_script(io.StringIO(text))
        g = script_obj[0].get_last_formula()
    except BaseException as e:     # noqa
        if isinstance(e, (KeyboardInterrupt, SystemExit)):
            raise
        exc = e
    finally:
        del m.create_node
    timings["parse_dag"] = time.time() - t0
    if exc is None and script_obj[0] is not None:
        # the script that came from the parser, written again with daggify=True: DAG-sized output
        nn = len(abstract_graph(fam.phi, lambda k_: k_.args())[0])
        ne = sum(len(x.args()) for x in abstract_graph(fam.phi, lambda k_: k_.args())[0])
        bound = TEXT_PER_ITEM * (nn + ne) + 2000 + len(text)
        out = LimitedIO(4 * bound)
        t1 = time.time()
        try:
            script_obj[0].serialize(out, daggify=True)
            wrote = out.total
        except Runaway:
            wrote = out.total
        except RecursionError:
            ctx.report_s(dict(sig, oracle="recursion", op="serialize_parsed_script"),
                         "RecursionError writing the parsed script of %s" % fam.name, replay)
            wrote = 0
        timings["serialize_parsed_script"] = time.time() - t1
        if wrote > bound:
            ctx.report_s(dict(sig, oracle="output-size", op="serialize_parsed_script"),
                         "script parsed from the DAG print of %s and serialized with daggify=True: more than %d "
                         "characters for %d nodes and %d edges (the text it was parsed from has %d)" % (
                             fam.name, min(wrote, 4 * bound), nn, ne, len(text)), replay)
    if exc is not None:
        if isinstance(exc, RecursionError):
            ctx.report_s(dict(sig, oracle="recursion"), "RecursionError re-parsing the DAG print of %s" % fam.name, replay)
        else:
            ctx.report_k("re-parsing the DAG print of %s raised %r" % (fam.name, exc), replay)
        return False
    ok = True
    # closed form: every interior node of the DAG is created exactly once
    sub = set()
    st = [fam.phi]
    indeg = collections.Counter()
    while st:
        n = st.pop()
        if n in sub:
            continue
        sub.add(n)
        for c in n.args():
            indeg[c] += 1
            st.append(c)
    over = [(n, cnt[n]) for n in cnt if cnt[n] > max(1, indeg.get(n, 1))]
    if over:
        n, c = over[0]
        ctx.report_s(dict(sig, oracle="visit-count"),
                     "parser built node %s %d times (it occurs %d times in the text)" % (
                         op.op_to_str(n.node_type()), c, indeg.get(n, 1)), replay)
        ok = False
    total = sum(cnt.values())
    if total > 2 * (len(sub) + sum(indeg.values())) + 8:
        ctx.report_s(dict(sig, oracle="iterations"), "parser: %d create_node calls for %d nodes" % (total, len(sub)), replay)
        ok = False
    inner_wrong = [] if not ok else [n for n in sub if n.args() and not n.is_constant() and cnt[n] != 1]
    if g is not fam.phi and structural_key(g) != structural_key(fam.phi):
        ctx.report_k("re-parsed DAG print of %s is a different formula" % fam.name, replay)
        ok = False
    elif inner_wrong:
        ctx.report_k("parser created an interior node %d times (expected 1) on %s" % (cnt[inner_wrong[0]], fam.name), replay)
        ok = False
    return ok


def check_big_substitution(ctx, env, fam, fam_sig, timings):
    """substitutions whose KEY or VALUE is the big (deep / heavily shared) term: `substitute()` validates every key
    and value (`k in self.manager`); that validation must not walk them."""
    from pysmt.formula import FormulaManager
    m = env.formula_manager
    t = fam.term
    if t is fam.leaf or env.stc.get_type(t) != env.stc.get_type(fam.rep) or not fam.rep.is_symbol() \
            or fam.params.get("shape") == "quant":      # every quantifier level validates the map again
        return
    calls = [0]
    orig = FormulaManager.__contains__

    def counting(self, node):
        calls[0] += 1
        if calls[0] > 5000:
            raise Runaway(calls[0])
        return orig(self, node)
    for name, mk in (("substitute_big_value", lambda: atom_of(env, fam.rep).substitute({fam.rep: t})),
                     ("substitute_big_key", lambda: fam.phi.substitute({t: fam.rep}))):
        calls[0] = 0
        FormulaManager.__contains__ = counting
        t0 = time.time()
        exc = None
        try:
            mk()
        except BaseException as e:     # noqa
            if isinstance(e, (KeyboardInterrupt, SystemExit)):
                raise
            exc = e
        finally:
            FormulaManager.__contains__ = orig
        timings.setdefault(name, []).append((fam.params["shape"], fam.params["kind"], fam.params["k"],
                                             round(time.time() - t0, 3)))
        ctx.count("op:" + name)
        replay = {"family": fam.params, "op": name}
        sig = dict(fam_sig, op=name)
        if isinstance(exc, RecursionError):
            ctx.report_s(dict(sig, oracle="recursion"), "RecursionError in %s on %s" % (name, fam.name), replay)
        elif isinstance(exc, Runaway) or calls[0] > 8:
            ctx.report_s(dict(sig, oracle="visit-count"),
                         "%s on %s: FormulaManager.__contains__ called %s times for a map with one entry" % (
                             name, fam.name, "more than 5000" if isinstance(exc, Runaway) else calls[0]), replay)
        elif exc is not None:
            ctx.report_k("%s on %s raised %r" % (name, fam.name, exc), replay)


def atom_of(env, sym):
    """a small Boolean formula mentioning the symbol"""
    m = env.formula_manager
    ty = sym.symbol_type()
    if ty.is_bool_type():
        return m.Or(sym, m.Not(sym))
    if ty.is_array_type():
        return m.Equals(sym, sym)
    return m.Equals(sym, sym)


class LimitedIO(io.StringIO):
    """an output stream that stops a writer which produces far more than the bound"""

    def __init__(self, limit):
        io.StringIO.__init__(self)
        self.limit = limit
        self.total = 0

    def write(self, text):
        self.total += len(text)
        if self.total > self.limit:
            raise Runaway(self.total)
        return io.StringIO.write(self, text)


def check_error_paths(ctx, timings, quick):
    """operations that FAIL on heavily shared DAGs: the rejection of an ill-typed node built over a diamond chain is
    part of the work: one type-checker callback, an error message of bounded length (not the tree expansion)"""
    for k in ([16] if quick else [10, 18]):      # the tree is 2^k: a rejection that walks it still terminates
        env = Environment()
        push_env(env)
        try:
            m = env.formula_manager
            fb = build_family(env, "diamond", "bool", k)
            fi = build_family(env, "diamond", "int", k)
            fv = build_family(env, "diamond", "bv", k)
            fa = build_family(env, "diamond", "store", min(k, 30))
            tb, ti, tv, ta = fb.term, fi.term, fv.term, fa.term
            r = m.Symbol("r", types.REAL)
            bads = [
                ("equals-bool", lambda: m.Equals(tb, m.Not(tb))),
                ("equals-int-bool", lambda: m.Equals(ti, tb)),
                ("plus-int-real", lambda: m.Plus(ti, r)),
                ("and-int", lambda: m.And(tb, ti)),
                ("le-bool", lambda: m.LE(tb, ti)),
                ("ite-cond-int", lambda: m.Ite(ti, tb, tb)),
                ("ite-branches", lambda: m.Ite(tb, ti, tv)),
                ("bvadd-width", lambda: m.BVAdd(tv, m.BV(1, 4))),
                ("bvult-int", lambda: m.BVULT(tv, ti)),
                ("store-index", lambda: m.Store(ta, tb, ti)),
                ("select-index", lambda: m.Select(ta, tv)),
                ("function-arg", lambda: m.Function(m.Symbol("fn", types.FunctionType(types.INT, [types.INT])), [tb])),
                ("substitute-ill-typed", lambda: fi.phi.substitute({fi.leaf: r})),
                ("get_type-direct", lambda: env.stc.get_type(m.create_node(node_type=op.AND, args=(ti, tb))))
                if False else ("times-bool", lambda: m.Times(ti, tb)),
            ]
            for name, th in bads:
                tap = Tap(env.stc, max_calls=20000)
                t0 = time.time()
                exc = None
                try:
                    th()
                except BaseException as e:      # noqa
                    if isinstance(e, (KeyboardInterrupt, SystemExit)):
                        raise
                    exc = e
                dt = time.time() - t0
                tap.restore()
                timings.setdefault("reject:" + name, []).append(("diamond", name, k, round(dt, 3)))
                ctx.count("op:reject")
                ctx.case(("reject", name, k))
                sig = {"family": "diamond/ill-typed", "op": "reject:" + name}
                replay = {"family": {"shape": "reject", "kind": name, "k": k}, "op": "reject"}
                if exc is None:
                    ctx.report_k("the ill-typed construction %s (k=%d) was accepted" % (name, k), replay)
                    continue
                if isinstance(exc, RecursionError):
                    ctx.report_s(dict(sig, oracle="recursion"), "RecursionError while rejecting %s" % name, replay)
                    continue
                msg_len = len(str(exc))
                ctx.extra["max_error_message_chars"] = max(ctx.extra.get("max_error_message_chars", 0), msg_len)
                if msg_len > 20000 or isinstance(exc, Runaway):
                    ctx.report_s(dict(sig, oracle="output-size"),
                                 "rejecting the ill-typed %s over a diamond chain (k=%d): error message of %d "
                                 "characters" % (name, k, msg_len), replay)
                if len(tap.trace) > 60:
                    ctx.report_s(dict(sig, oracle="visit-count"),
                                 "rejecting %s (k=%d): %d type-checker callbacks" % (name, k, len(tap.trace)), replay)
        finally:
            pop_env()


def check_big_arguments(ctx, timings):
    """constructors with an integer 'size' argument or thousands of arguments, and the parser on the corresponding
    text, under the default recursion limit"""
    env = Environment()
    push_env(env)
    try:
        m = env.formula_manager
        BV8 = types.BVType(8)
        v = m.Symbol("v", BV8)
        n = 3000
        ps = [m.Symbol("p%d" % i) for i in range(n)]
        xs = [m.Symbol("x%d" % i, types.INT) for i in range(n)]
        decl = "(declare-fun v () (_ BitVec 8))" + "".join("(declare-fun p%d () Bool)" % i for i in range(n)) + \
               "".join("(declare-fun x%d () Int)" % i for i in range(n))

        def parse(t):
            return SmtLibParser(env).get_script(io.StringIO(decl + t)).get_last_formula()
        wide = m.BVZExt(v, 5000)
        cases = [
            ("BVRepeat", lambda: m.BVRepeat(v, n)), ("BVZExt", lambda: m.BVZExt(v, 5000)),
            ("BVSExt", lambda: m.BVSExt(v, 5000)), ("BVRol", lambda: m.BVRol(wide, 4999)),
            ("BVRor", lambda: m.BVRor(wide, 4999)), ("BVExtract", lambda: m.BVExtract(wide, 0, 4000)),
            ("And", lambda: m.And(ps)), ("Or", lambda: m.Or(ps)), ("Plus", lambda: m.Plus(xs)),
            ("Times", lambda: m.Times(xs)), ("BVConcat", lambda: m.BVConcat([v] * n)),
            ("AllDifferent", lambda: m.AllDifferent(xs[:100])), ("ExactlyOne", lambda: m.ExactlyOne(ps[:300])),
            ("AtMostOne", lambda: m.AtMostOne(ps[:300])), ("Min", lambda: m.Min(xs)), ("Max", lambda: m.Max(xs)),
            ("BV-wide-constant", lambda: m.BV(2 ** n - 1, n)), ("FNode.BVRepeat", lambda: v.BVRepeat(n)),
            ("parse-repeat", lambda: parse("(assert (= ((_ repeat %d) v) ((_ repeat %d) v)))" % (n, n))),
            ("parse-zero_extend", lambda: parse("(assert (= ((_ zero_extend 5000) v) ((_ zero_extend 5000) v)))")),
            ("parse-sign_extend", lambda: parse("(assert (= ((_ sign_extend 5000) v) ((_ sign_extend 5000) v)))")),
            ("parse-and", lambda: parse("(assert (and %s))" % " ".join("p%d" % i for i in range(n)))),
            ("parse-plus", lambda: parse("(assert (> (+ %s) 0))" % " ".join("x%d" % i for i in range(n)))),
            ("parse-distinct", lambda: parse("(assert (distinct %s))" % " ".join("x%d" % i for i in range(200)))),
            ("simplify-And", lambda: m.And(ps).simplify()), ("to_smtlib-Min", lambda: m.LE(m.Min(xs), xs[0]).to_smtlib()),
            ("simplify-BVRepeat", lambda: m.BVRepeat(v, n).simplify()),
        ]
        for name, th in cases:
            t0 = time.time()
            exc = None
            try:
                th()
            except BaseException as e:      # noqa
                if isinstance(e, (KeyboardInterrupt, SystemExit)):
                    raise
                exc = e
            timings.setdefault("big:" + name, []).append(("big", name, n, round(time.time() - t0, 3)))
            ctx.count("op:big-argument")
            ctx.case(("big", name))
            replay = {"family": {"shape": "big-argument", "kind": name, "k": n}, "op": "big"}
            if isinstance(exc, RecursionError):
                ctx.report_s({"family": "big-argument", "op": name, "oracle": "recursion"},
                             "RecursionError in %s with a size argument / argument count of %d" % (name, n), replay)
            elif exc is not None:
                ctx.report_k("%s with large arguments raised %r" % (name, exc), replay)
    finally:
        pop_env()


def check_let_towers(ctx, timings):
    """re-parsing of towers of lets that RE-DEFINE a name: (i) hand-written `(let ((x (+ x 1))) (let ((x (+ x 1))) ...`
    of depth 3000 (value checked), (ii) the DAG print of a deep formula with a quantifier in an earlier argument
    position than its deep sibling (the quantifier's sub-printer restarts the `.def_` numbering)."""
    depth = 3000
    # (i)
    env = Environment()
    push_env(env)
    try:
        m = env.formula_manager
        x = m.Symbol("x", types.INT)
        t = x
        for _ in range(depth):
            t = m.Plus(t, m.Int(1))
        want = m.GT(t, m.Int(0))
        text = "(declare-fun x () Int)(assert " + "(let ((x (+ x 1))) " * depth + "(> x 0)" + ")" * depth + ")"
        _reparse_check(ctx, env, text, want, "let_tower_handwritten", {"shape": "let-tower", "kind": "shadow", "k": depth},
                       timings)
    finally:
        pop_env()
    # (ii)
    for kind in ("and", "plus"):
        env = Environment()
        push_env(env)
        try:
            m = env.formula_manager
            p, q = m.Symbol("p"), m.Symbol("q")
            x, y = m.Symbol("x", types.INT), m.Symbol("y", types.INT)
            quant = m.ForAll([q], m.Or(q, m.And(p, m.Not(q)), m.LE(x, y)))
            if kind == "and":
                t = p
                for i in range(depth):
                    t = m.And(m.Or(t, m.Symbol("p%d" % (i % 5))), p)
                phi = m.And(quant, t)
            else:
                t = x
                for i in range(depth):
                    t = m.Plus(t, m.Int(i % 3))
                phi = m.And(m.Or(quant, p), m.LE(t, y), m.Exists([q], m.And(q, p)))
            buf = io.StringIO()
            smtlibscript_from_formula(phi).serialize(buf, daggify=True)
            _reparse_check(ctx, env, buf.getvalue(), phi, "let_tower_quantifier_first",
                           {"shape": "let-tower", "kind": "quant-first-" + kind, "k": depth}, timings)
        finally:
            pop_env()


def _reparse_check(ctx, env, text, want, name, params, timings):
    sig = {"family": "let-tower/" + params["kind"], "op": name}
    replay = {"family": params, "op": name}
    t0 = time.time()
    try:
        got = SmtLibParser(env).get_script(io.StringIO(text)).get_last_formula()
    except RecursionError:
        ctx.report_s(dict(sig, oracle="recursion"), "RecursionError re-parsing a tower of %d re-defining lets (%s)" % (
            params["k"], params["kind"]), replay)
        return
    except Exception as e:      # noqa
        ctx.report_k("%s (%s): parsing raised %r" % (name, params["kind"], e), replay)
        return
    finally:
        timings.setdefault(name, []).append((params["shape"], params["kind"], params["k"], round(time.time() - t0, 3)))
    ctx.count("op:" + name)
    ctx.case((name, params["kind"]))
    if got is not want:
        ctx.report_s(dict(sig, oracle="value"), "%s (%s): the re-parsed formula is not the original one" % (
            name, params["kind"]), replay)


def check_partitions(ctx, timings, quick):
    """conjunctive_partition / disjunctive_partition / propagate_toplevel on shared And/Or skeletons
    c' = (c & x) & (c & y): the tests `is_and()` / `is_or()` made from outside are counted"""
    for fn_name in ("conjunctive_partition", "disjunctive_partition", "propagate_toplevel"):
        for k in ([12, 40] if quick else [8, 20, 40, 60]):
            env = Environment()
            push_env(env)
            try:
                m = env.formula_manager
                mk, mk2 = (m.Or, m.And) if fn_name == "disjunctive_partition" else (m.And, m.Or)
                c = m.Symbol("c0")
                for i in range(k):
                    c = mk(mk(c, m.Symbol("x%d" % i)), mk(c, mk2(m.Symbol("y%d" % i), m.Symbol("x%d" % (i // 2)))))
                order, index, chl = abstract_graph(c, lambda n: n.args())
                size = len(order) + sum(len(a) for a in chl)
                calls = [0]
                orig_and, orig_or = FNode.is_and, FNode.is_or
                limit = 200 * size + 5000

                def c_and(self):
                    calls[0] += 1
                    if calls[0] > limit:
                        raise Runaway(calls[0])
                    return orig_and(self)

                def c_or(self):
                    calls[0] += 1
                    if calls[0] > limit:
                        raise Runaway(calls[0])
                    return orig_or(self)
                FNode.is_and, FNode.is_or = c_and, c_or
                t0 = time.time()
                exc = None
                try:
                    if fn_name == "propagate_toplevel":
                        rewritings.propagate_toplevel(c, env, do_simplify=False)
                    else:
                        list(getattr(rewritings, fn_name)(c))
                except BaseException as e:      # noqa
                    if isinstance(e, (KeyboardInterrupt, SystemExit)):
                        raise
                    exc = e
                finally:
                    FNode.is_and, FNode.is_or = orig_and, orig_or
                timings.setdefault(fn_name, []).append(("skeleton", fn_name, k, round(time.time() - t0, 3)))
                ctx.count("op:" + fn_name)
                ctx.case((fn_name, k))
                sig = {"family": "skeleton/shared", "op": fn_name}
                replay = {"family": {"shape": "skeleton", "kind": fn_name, "k": k}, "op": fn_name}
                if isinstance(exc, RecursionError):
                    ctx.report_s(dict(sig, oracle="recursion"), "RecursionError in %s (k=%d)" % (fn_name, k), replay)
                elif isinstance(exc, Runaway) or calls[0] > 20 * size + 100:
                    ctx.report_s(dict(sig, oracle="visit-count"),
                                 "%s on a shared skeleton with %d nodes+edges made %s is_and/is_or tests" % (
                                     fn_name, size, "more than %d" % limit if isinstance(exc, Runaway) else calls[0]),
                                 replay)
                elif exc is not None:
                    ctx.report_k("%s (k=%d) raised %r" % (fn_name, k, exc), replay)
                ctx.extra["max_partition_tests_per_item"] = max(ctx.extra.get("max_partition_tests_per_item", 0),
                                                                round(calls[0] / float(size), 2))
            finally:
                pop_env()


# ----------------------------------------------------------------------------------------------
# the work meter: deterministic count of the work done INSIDE pysmt during an operation
# ----------------------------------------------------------------------------------------------
import os as _os
import pysmt as _pysmt

PYSMT_DIR = _os.path.dirname(_os.path.abspath(_pysmt.__file__)) + _os.sep


class MeteredDict(dict):
    """a table whose whole-table traversals (iteration, keys/values/items, copy -- also through set(d), list(d),
    dict(d)) add its size to the running work meter; look-ups and insertions are not touched"""
    meter = None

    def _scan(self):
        if MeteredDict.meter is not None:
            MeteredDict.meter.scanned += len(self)

    def __iter__(self):
        self._scan()
        return dict.__iter__(self)

    def keys(self):
        self._scan()
        return dict.keys(self)

    def values(self):
        self._scan()
        return dict.values(self)

    def items(self):
        self._scan()
        return dict.items(self)

    def copy(self):
        self._scan()
        return dict.copy(self)


class WorkMeter(object):
    """work = lines executed in code objects of <checkout>/pysmt (sys.monitoring LINE events of Python 3.12, other
    code is switched off at its first event) + comparisons of two FNodes through `==` / `in` on sequences (FNode has
    no __eq__: one is installed for the duration, it counts and answers by identity as the default does)
    + entries of metered tables traversed as a whole.  All three are counts of events, not times: the same code
    on the same input gives the same number whatever the load of the machine."""

    def __init__(self):
        self.lines = self.eq = self.scanned = 0
        self.tool = None

    def __enter__(self):
        mon = sys.monitoring
        for tid in (4, 5, 2, 1):        # 3 is used by the runner's coverage
            try:
                mon.use_tool_id(tid, "verif-work-meter")
                self.tool = tid
                break
            except ValueError:
                continue
        me = self

        def on_line(code, lineno):
            if code.co_filename.startswith(PYSMT_DIR):
                me.lines += 1
                return None
            return mon.DISABLE

        def counting_eq(a, b):
            me.eq += 1
            return a is b
        if self.tool is not None:
            mon.register_callback(self.tool, mon.events.LINE, on_line)
            mon.set_events(self.tool, mon.events.LINE)
        FNode.__eq__ = counting_eq
        MeteredDict.meter = self
        return self

    def __exit__(self, *a):
        mon = sys.monitoring
        if self.tool is not None:
            mon.set_events(self.tool, 0)
            mon.register_callback(self.tool, mon.events.LINE, None)
            mon.free_tool_id(self.tool)
        del FNode.__eq__
        MeteredDict.meter = None
        return False

    @property
    def work(self):
        return self.lines + self.eq + self.scanned


def meter_tables(env):
    """the memo tables of the environment's walkers and the manager's tables become metered tables"""
    for w in [env.stc, env.simplifier, env.substituter, env.fvo, env.sizeo, env.qfo, env.theoryo, env.ao, env.typeso]:
        if type(getattr(w, "memoization", None)) is dict:
            w.memoization = MeteredDict(w.memoization)
    m = env.formula_manager
    m.formulae = MeteredDict(m.formulae)
    m.symbols = MeteredDict(m.symbols)


WORK_LINEAR_LIMIT = 6.0       # work(4N) / work(N) for an operation that is linear in N: 4 (+ lower-order terms)
WORK_CONSTANT_LIMIT = 1.5     # work(history of 4N nodes) / work(history of N nodes) for the same small requests: 1


def _scen_long_lived(N):
    """the same 20 small requests (construction, type, simplify, substitute, oracles, printing) in an environment
    that has already built and walked N nodes with every walker"""
    env = Environment()
    push_env(env)
    try:
        m = env.formula_manager
        fam = build_family(env, "comb", "plus", N)
        meter_tables(env)
        for spec in make_ops():
            try:
                spec.call(env, spec.make(env), fam)
            except Exception:      # noqa
                pass
        INT = types.INT
        with WorkMeter() as mt:
            for j in range(20):
                x, y = m.Symbol("ll_x%d" % j, INT), m.Symbol("ll_y%d" % j, INT)
                f = m.And(m.LE(m.Plus(x, m.Int(j)), y), m.Or(m.Equals(x, y), m.Not(m.LT(y, m.Int(3)))))
                env.stc.get_type(f)
                env.simplifier.simplify(f)
                env.substituter.substitute(f, {x: y})
                env.fvo.get_free_variables(f)
                env.sizeo.get_size(f)
                env.ao.get_atoms(f)
                env.qfo.is_qf(f)
                env.theoryo.get_theory(f)
                env.typeso.get_types(f)
                f.serialize()
                smt_printers.to_smtlib(f)
        return mt
    finally:
        pop_env()


def _scen_fresh_names(N):
    """N user symbols named FV0..FV<N-1> (the names of the fresh-symbol template), then N/2 fresh symbols and the
    CNF of a formula with N/4 definitions (one fresh symbol each)"""
    env = Environment()
    push_env(env)
    try:
        m = env.formula_manager
        INT, BOOL = types.INT, types.BOOL
        for i in range(N):
            m.Symbol("FV%d" % i, INT)
        bs = [m.Symbol("fb%d" % i, BOOL) for i in range(N // 4 + 2)]
        f = m.And([m.Or(m.And(bs[i], bs[i + 1]), m.Not(bs[(i * 7) % len(bs)])) for i in range(N // 4)])
        meter_tables(env)
        with WorkMeter() as mt:
            for i in range(N // 2):
                m.new_fresh_symbol(INT)
            rewritings.CNFizer(env).convert(f)
        return mt
    finally:
        pop_env()


def _scen_wide(ctor):
    def go(N):
        env = Environment()
        push_env(env)
        try:
            m = env.formula_manager
            xs = [m.Symbol("wa%d" % i, types.BOOL) for i in range(N)]
            f = getattr(m, ctor)(xs)
            meter_tables(env)
            with WorkMeter() as mt:
                env.simplifier.simplify(f)
            return mt
        finally:
            pop_env()
    return go


def _scen_op(shape, kind, spec):
    def go(N):
        env = Environment()
        push_env(env)
        try:
            fam = build_family(env, shape, kind, N // 4 if shape == "diamond" else N)
            meter_tables(env)
            w = spec.make(env)
            with WorkMeter() as mt:
                try:
                    spec.call(env, w, fam)
                except RecursionError:
                    raise
                except Exception:      # noqa
                    pass
            return mt
        finally:
            pop_env()
    return go


WORK_FAMILIES_QUICK = [("comb", "and"), ("comb", "bvmix"), ("wide", "or_atoms"), ("wide", "plus"), ("diamond", "bool")]


def work_scenarios(quick):
    out = [("long-lived-environment", "small-requests", _scen_long_lived, (200, 800), WORK_CONSTANT_LIMIT),
           ("colliding-fresh-names", "fresh-symbols+cnf", _scen_fresh_names, (200, 800), WORK_LINEAR_LIMIT),
           ("wide-and", "simplify", _scen_wide("And"), (400, 1600), WORK_LINEAR_LIMIT),
           ("wide-or", "simplify", _scen_wide("Or"), (400, 1600), WORK_LINEAR_LIMIT)]
    fams = WORK_FAMILIES_QUICK if quick else ([("comb", k) for k in COMB_KINDS] + [("wide", k) for k in WIDE_KINDS] +
                                              [("diamond", k) for k in ("bool", "int", "bv", "ite_int", "store")])
    for shape, kind in fams:
        for spec in make_ops():
            if spec.name in QUADRATIC_OPS:
                continue        # their callback bodies build the set of all descendants at every node (see evidence)
            out.append(("%s/%s" % (shape, kind), spec.name, _scen_op(shape, kind, spec), (100, 400), WORK_LINEAR_LIMIT))
    return out


def check_work_growth(ctx, timings, quick, only=None):
    """S: the deterministic work count of an operation at size 4N against size N"""
    ratios = ctx.extra.setdefault("work_ratios", {})
    worst = {"linear": 0.0, "constant": 0.0}
    for family, opname, scen, (n1, n4), limit in work_scenarios(quick):
        if only is not None and (family, opname) != only:
            continue
        if ctx.time_left() < 25:
            ctx.count("work-growth-cut-by-time-budget")
            break
        t0 = time.time()
        a, b = scen(n1), scen(n4)
        ratio = b.work / float(max(1, a.work))
        cls = "constant" if limit == WORK_CONSTANT_LIMIT else "linear"
        worst[cls] = max(worst[cls], ratio)
        ratios["%s %s" % (family, opname)] = round(ratio, 3)
        timings.setdefault("work:" + opname, []).append((family, opname, n4, round(time.time() - t0, 3)))
        ctx.count("op:work-growth")
        ctx.case(("work", family, opname))
        if ratio > limit:
            ctx.report_s({"family": family, "op": opname, "oracle": "work-growth"},
                         "%s on %s: work(N=%d) = %d (lines %d, node comparisons %d, table entries traversed %d), "
                         "work(N=%d) = %d (lines %d, comparisons %d, traversed %d): ratio %.2f > %.1f (%s)" % (
                             opname, family, n1, a.work, a.lines, a.eq, a.scanned, n4, b.work, b.lines, b.eq, b.scanned,
                             ratio, limit, "the requests are the same, only the environment's history is 4 times "
                             "larger" if cls == "constant" else "4 for linear work, 16 for quadratic"),
                         {"family": {"shape": "work-growth", "kind": family, "k": n4}, "op": opname})
    ctx.extra["work_meter"] = {
        "unit": "lines executed inside <checkout>/pysmt + FNode comparisons by == / in + entries of memo / manager "
                "tables traversed as a whole; deterministic event counts",
        "linear_limit": WORK_LINEAR_LIMIT, "constant_limit": WORK_CONSTANT_LIMIT,
        "worst_ratio_this_run": {k: round(v, 3) for k, v in worst.items()},
        "excluded": sorted(QUADRATIC_OPS),
        "why_no_false_alarm": "the counts do not depend on time or load; on the unchanged tree the largest linear "
                              "ratio measured over all families x operations is 4.54 (comb/bvmix simplify), the "
                              "long-lived-environment ratio is exactly 1.0",
    }


def harness_tree_size(f):
    """number of nodes of the tree expansion, computed by the harness"""
    memo = {}
    stack = [f]
    while stack:
        n = stack[-1]
        if n in memo:
            stack.pop()
            continue
        pend = [c for c in n.args() if c not in memo]
        if pend:
            stack.extend(pend)
        else:
            memo[n] = 1 + sum(memo[c] for c in n.args())
            stack.pop()
    return memo[f]


def tapped_tree_print(kind, f, env):
    """HRPrinter / SmtPrinter with their dispatch table wrapped: number of walk functions invoked"""
    import pysmt.printers as hr_printers
    buf = io.StringIO()
    pr = hr_printers.HRPrinter(buf, env) if kind == "hr_serialize" else smt_printers.SmtPrinter(buf)
    calls = [0]
    for k_, fn in list(pr.functions.items()):
        def w(formula, *a, _fn=fn, **kw):
            calls[0] += 1
            return _fn(formula, *a, **kw)
        pr.functions[k_] = w
    pr.printer(f)
    return calls[0]


def check_tree_walkers(ctx, env, fam, fam_sig, timings):
    """walkers/tree.py (generator-based TreeWalker: HR serialisation, tree-style SMT-LIB printing): not memoising,
    so only run where the tree is as small as the DAG (combs, wide nodes); S = no RecursionError at any depth;
    K = the number of walk functions invoked is the tree size (theorem `tree_walk_visits`)."""
    tsz = harness_tree_size(fam.phi)
    for name, th in (("hr_serialize", lambda: tapped_tree_print("hr_serialize", fam.phi, env)),
                     ("print_tree", lambda: tapped_tree_print("print_tree", fam.phi, env))):
        t0 = time.time()
        try:
            n_calls = th()
            # walk functions of quantifiers / some operators call `self.walk` themselves: every node is still one call
            if n_calls != tsz:
                ctx.report_k("%s on %s: %d walk functions invoked, tree size %d" % (name, fam.name, n_calls, tsz),
                             {"family": fam.params, "op": name})
        except RecursionError:
            ctx.report_s(dict(fam_sig, op=name, oracle="recursion"),
                         "RecursionError in %s on %s" % (name, fam.name), {"family": fam.params, "op": name})
        except Exception as e:     # noqa
            ctx.report_k("%s on %s raised %r" % (name, fam.name, e), {"family": fam.params, "op": name})
        timings.setdefault(name, []).append((fam.params["shape"], fam.params["kind"], fam.params["k"],
                                             round(time.time() - t0, 3)))
        ctx.count("op:" + name)


# ----------------------------------------------------------------------------------------------
# generic walker cases (walkers/dag.py itself, result included)
# ----------------------------------------------------------------------------------------------
def generic_case(ctx, rng, env, fam, n_ops=4):
    """HashWalker over the DAG of fam.phi: random walk sequence, with and without injected faults."""
    f = fam.phi
    tagged = rng.random() < 0.3
    inval = rng.random() < 0.3
    tags = [0, 1] if tagged else [None]
    base_order, base_index, base_chl = abstract_graph(f, lambda k: k.args())
    n = len(base_order)
    if tagged:
        order = [(t, x) for t in tags for x in base_order]
        index = {k: i for i, k in enumerate(order)}
        chl = [[index[(k[0], c)] for c in k[1].args()] for k in order]
    else:
        order, index, chl = base_order, base_index, base_chl
    w = HashWalker(env, index, invalidate_memoization=inval, tagged=tagged)
    ops = []
    obs = []
    for _ in range(n_ops):
        tag = rng.choice(tags)
        node = base_order[rng.randrange(n)] if rng.random() < 0.6 else f
        key = (tag, node) if tagged else node
        mode = rng.random()
        fail_at, fail_nodes = None, ()
        opstr = "w%d" % index[key]
        if mode < 0.3:
            fail_at = rng.randint(1, max(1, min(n, 12)))
            opstr += "@%d" % fail_at
        elif mode < 0.45:
            fn = order[rng.randrange(len(order))]
            fail_nodes = (fn,)
            opstr += "!%d" % index[fn]
        w.fail_children = w.fail_key = w.fault_hit = None
        if 0.45 <= mode < 0.6:
            # a crash point outside the callbacks: `_get_children` / `_get_key` raises on a node below the root
            below = abstract_graph(node, lambda k_: k_.args())[0]
            fn = below[rng.randrange(len(below))]
            if mode < 0.52:
                w.fail_children = fn
                opstr += "#c%d" % index[(tag, fn) if tagged else fn]
            else:
                w.fail_key = (tag, fn) if tagged else fn
                opstr += "#k%d" % index[(tag, fn) if tagged else fn]
        tap = Tap(w, fail_at=fail_at, fail_nodes=fail_nodes)
        try:
            r = w.walk(node, tag=tag) if tagged else w.walk(node)
            out = "ok:%d" % r
        except Injected:
            if w.fault_hit is not None:
                hit = w.fault_hit
                out = "err:%d" % index[hit if (tagged and isinstance(hit, tuple)) or not tagged else (tag, hit)]
            else:
                out = "err:%d" % index[tap.trace[-1]]
        except KeyError:
            out = "keyerr"
        except RecursionError as e:
            out = "exc:RecursionError"
        st = tap.restore()
        ops.append(opstr)
        obs.append({"out": out, "c": show_list(True, [index[k] for k in tap.trace]), "st": str(len(w.stack)),
                    "m": show_list(True, sorted(index[k] for k in w.memoization)), "p": str(st.pushes),
                    "i": str(st.pops)})
    req = make_request(chl, [], inval, not tagged, True, [], ops)
    return req, obs


# ----------------------------------------------------------------------------------------------
# driver
# ----------------------------------------------------------------------------------------------
def model_answers(ctx, driver, reqs):
    """answers for the distinct requests; None (and an L report) when the driver cannot run"""
    uniq = list(dict.fromkeys(reqs))
    try:
        # big requests are expensive for the interpreted driver: spread them evenly
        uniq.sort(key=len, reverse=True)
        shards = max(1, min(ctx.workers, len(uniq)))
        buckets = [[] for _ in range(shards)]
        for i, r in enumerate(uniq):
            buckets[i % shards].append(r)
        from concurrent.futures import ThreadPoolExecutor
        with ThreadPoolExecutor(shards) as ex:
            outs = list(ex.map(lambda b: ctx.lean_run(driver, b), buckets))
        table = {}
        for b, o in zip(buckets, outs):
            for r, a in zip(b, o):
                table[r] = a
        return table
    except common.LeanError as e:
        ctx.report_l("driver %s does not run" % driver, str(e))
        return None


def plan(ctx):
    """the (shape, kind, k) cases of this run"""
    rng = ctx.rng
    quick = ctx.tier == "quick"
    cases = []
    # diamond chains: every kind, k spread up to 60
    for kind in DIAMOND_KINDS:
        ks = [rng.choice([3, 5, 8]), rng.choice([17, 30, 44]), 60] if not quick else [rng.choice([4, 9, 23, 37]), 60]
        if kind in DIAMOND_KMAX:
            ks = sorted(set(min(k, DIAMOND_KMAX[kind]) for k in ks))
        for k in ks:
            cases.append(("diamond", kind, k, "all"))
    # combs: full depth for a few kinds (rotating with the seed), 3000 for the others
    kinds = list(COMB_KINDS)
    rng.shuffle(kinds)
    must = "ite_bv_then"
    kinds.remove(must)
    if quick:
        deep = [must] + kinds[:1]
    else:
        deep = [must] + kinds
    for kind in COMB_KINDS:
        if kind in deep:
            k = 20000 if quick else rng.choice([20000, 30000, 50000])
            cases.append(("comb", kind, k, "linear"))
            if not quick:
                cases.append(("comb", kind, rng.choice([1100, 1500]), "all"))
        else:
            cases.append(("comb", kind, rng.choice([1100, 1500, 2000]), "all"))
    for kind in WIDE_KINDS:
        cases.append(("wide", kind, 2000 if quick else 6000, "all"))
    cases.append(("quant", "shared", rng.choice([5, 20, 40]), "all"))
    cases.append(("quant", "nested", rng.choice([4, 5, 6]), "all"))   # prenex output is inherently 2^k here
    return cases


def run_family(ctx, shape, kind, k, opset, pending, timings, only_op=None):
    fam_params = {"shape": shape, "kind": kind, "k": k}
    fam_sig = {"family": "%s/%s" % (shape, kind)}
    env, fam, crec = tapped_construction(ctx, shape, kind, k)
    timings.setdefault("construct", []).append((shape, kind, k, round(crec["time"], 3)))
    ok = check_construction(ctx, fam_params, env, fam, crec, fam_sig)
    if crec.get("req"):
        pending.append((fam, {"op": "construct", "construct": crec, "req": crec["req"], "nodes": len(crec["counts"]),
                              "edges": 0, "exc": None}, fam_sig))
    if fam is None:
        ctx.case(None)
        return
    push_env(env)
    try:
        for spec in make_ops():
            if ctx.time_left() < 25:
                ctx.count("skipped_ops_time_budget")
                break
            if opset == "linear" and spec.name in QUADRATIC_OPS:
                continue
            if only_op is not None and spec.name != only_op:
                continue
            rec = run_op(ctx, spec, env, fam)
            timings.setdefault(spec.name, []).append((shape, kind, k, round(rec["time"], 3)))
            rec.pop("res", None)
            pending.append((fam, rec, fam_sig))
            ctx.count("op:" + spec.name)
        if shape in ("comb", "wide") and ctx.time_left() > 25 and only_op in (None, "hr_serialize", "print_tree"):
            check_tree_walkers(ctx, env, fam, fam_sig, timings)
        if ctx.time_left() > 25 and only_op in (None, "substitute_big_value", "substitute_big_key"):
            check_big_substitution(ctx, env, fam, fam_sig, timings)
        if ctx.time_left() > 25 and only_op in (None, "parse_dag", "print_script"):
            tm = {}
            check_parse(ctx, env, fam, fam_sig, tm)
            for kk, vv in tm.items():
                timings.setdefault(kk, []).append((shape, kind, k, round(vv, 3)))
            ctx.count("op:parse_dag")
    finally:
        pop_env()


def run(ctx):
    sys.setrecursionlimit(1000)
    rng = ctx.rng
    timings = {}
    pending = []      # (fam, rec, fam_sig) waiting for the model's answer
    # ---------- the work meter first: a change that makes everything slower would otherwise use up the time budget
    check_work_growth(ctx, timings, ctx.tier == "quick")
    # ---------- the families
    for shape, kind, k, opset in plan(ctx):
        if ctx.time_left() < 40:
            ctx.count("skipped_families_time_budget")
            break
        run_family(ctx, shape, kind, k, opset, pending, timings)
    if ctx.time_left() > 30:
        check_let_towers(ctx, timings)
        check_partitions(ctx, timings, ctx.tier == "quick")
        check_error_paths(ctx, timings, ctx.tier == "quick")
        check_big_arguments(ctx, timings)
    # ---------- random DAGs, all operations + generic walker with fault injection
    n_random = 25 if ctx.tier == "quick" else 300
    generic = []
    for i in range(n_random):
        if ctx.time_left() < 35:
            break
        env = Environment()
        push_env(env)
        try:
            fam = random_dag(env, rng, rng.choice([8, 20, 45, 90]))
            fam_sig = {"family": "random"}
            for spec in make_ops():
                rec = run_op(ctx, spec, env, fam)
                rec.pop("res", None)
                pending.append((fam, rec, fam_sig))
            req, obs = generic_case(ctx, rng, env, fam, n_ops=rng.randint(2, 6))
            generic.append((fam, req, obs))
        finally:
            pop_env()
    # ---------- the model
    ctx.extra["phase_python_s"] = round(time.time() - ctx.t0, 1)
    reqs = [rec["req"] for _, rec, _ in pending] + [r for _, r, _ in generic]
    table = model_answers(ctx, "C20", reqs)
    ctx.extra["phase_model_s"] = round(time.time() - ctx.t0 - ctx.extra["phase_python_s"], 1)
    ctx.extra["distinct_requests"] = len(set(reqs))
    for fam, rec, fam_sig in pending:
        ans = parse_answer(table[rec["req"]]) if table is not None else None
        if table is None:
            # S only
            compare_s_only(ctx, fam, rec, fam_sig)
        else:
            compare(ctx, fam, rec, ans, fam_sig)
        nontriv = (rec["nodes"] < rec["edges"] + 1 and fam.params.get("shape") in ("diamond", "wide", "random")) \
            or fam.depth > 1000 or rec["op"] == "construct"
        ctx.case((fam.name, fam.params.get("k"), rec["op"]) if nontriv else None)
        if rec["nodes"] <= 60 and rec["op"] != "construct":
            ctx.sample({"family": fam.params, "op": rec["op"], "request": rec["req"][:300],
                        "impl": {k: rec[k] for k in ("out", "c", "st", "m", "p", "i")}})
        rec["exc"] = None
    if table is not None:
        for fam, req, obs in generic:
            ans = parse_answer(table[req])
            ctx.case(("generic", req[:200]))
            if ans is None or len(ans) != len(obs):
                ctx.report_k("generic walker: model rejected %s" % req[:300], {"req": req})
                continue
            for j, (a, o) in enumerate(zip(ans, obs)):
                d = [f for f in ("out", "c", "st", "m", "p", "i") if a.get(f) != o[f]]
                if d:
                    ctx.report_k("generic DagWalker op %d: %s" % (j, ", ".join(
                        "%s model=%s impl=%s" % (f, a.get(f), o[f]) for f in d)), {"req": req, "op": j})
                    if o["out"].startswith("exc:RecursionError"):
                        ctx.report_s({"oracle": "recursion", "op": "generic", "family": "random"},
                                     "RecursionError in DagWalker", {"req": req})
                    break
    ctx.extra["timings_s"] = {k: v[-6:] for k, v in timings.items()}
    ctx.extra["recursion_limit"] = sys.getrecursionlimit()
    ctx.extra["max_depth"] = max([p[2] for p in plan_depths(timings)] or [0])


def plan_depths(timings):
    return [t for t in timings.get("construct", []) if t[0] == "comb"]


def compare_s_only(ctx, fam, rec, fam_sig):
    if rec["op"] == "construct":
        return
    compare_dummy = [{"out": "ok" if rec["out"] == "ok" else "err", "c": rec["c"], "st": str(rec["st"]),
                      "m": rec["m"], "p": str(rec["p"]), "i": str(rec["i"])}]
    # run only the S part (the K part trivially agrees with the echo above)
    compare(ctx, fam, rec, compare_dummy, fam_sig)


def replay(ctx, rep):
    sys.setrecursionlimit(1000)
    r = rep.get("replay", {})
    if "family" not in r:
        req = r.get("req")
        ctx.report_k("replay of a generic request is re-run by ./check C20 with the recorded seed", r)
        return
    fp = r["family"]
    timings = {}
    pending = []
    if fp.get("shape") == "let-tower":
        check_let_towers(ctx, timings)
        return
    if fp.get("shape") == "skeleton":
        check_partitions(ctx, timings, False)
        return
    if fp.get("shape") == "reject":
        check_error_paths(ctx, timings, False)
        return
    if fp.get("shape") == "big-argument":
        check_big_arguments(ctx, timings)
        return
    if fp.get("shape") == "work-growth":
        check_work_growth(ctx, timings, False, only=(fp["kind"], r.get("op")))
        return
    if fp.get("shape") == "random":
        ctx.report_k("random-DAG cases are regenerated from the seed: VERIF_SEED=%s ./check C20" % rep.get("seed"), r)
        return
    run_family(ctx, fp["shape"], fp["kind"], fp["k"], "all" if fp["k"] <= 3000 else "linear", pending, timings,
               only_op=r.get("op"))
    table = model_answers(ctx, "C20", [rec["req"] for _, rec, _ in pending])
    for fam, rec, fam_sig in pending:
        if r.get("op") not in (None, rec["op"]) and r.get("op") not in ("construct", "parse_dag"):
            continue
        if table is None:
            compare_s_only(ctx, fam, rec, fam_sig)
        else:
            compare(ctx, fam, rec, parse_answer(table[rec["req"]]), fam_sig)
        ctx.case((fam.name, rec["op"]))
