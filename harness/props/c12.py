"""C12 — formula analyses are exact (FreeVarsOracle, AtomsOracle, QuantifierOracle, TypesOracle, SizeOracle).

K  the real oracles vs the Lean model `PySMT/Impl/Oracles.lean` (driver C12), results as sorted canonical lists;
   `get_types(custom_only=True)` vs `typesCustomO`; the regenerated operator-class tables vs `pysmt.operators`; `expand_types` on explicit lists, exact order.
S  (independent of the model; also on *query histories*: several formulas sharing sub-terms on one fresh
   environment, queried in random order and mode -- the answers must not depend on what was asked before)
   * direct structural definitions, written here from the property text, of: free symbols, atoms, quantifier
     freeness, sorts (+ "sub-sorts first, no duplicates" for the returned list), the six size measures;
   * semantic dependence through the shared `Sem` driver (`evalc`): two interpretations that differ only on a
     symbol that occurs in the formula but is *not reported free* must give the same value; for a quantifier-free
     Boolean formula two interpretations that give every *reported atom* the same truth value must give the
     formula the same value.
"""
import random
import warnings
from fractions import Fraction

import pysmt.operators as op
from pysmt.environment import Environment
from pysmt.typing import BOOL, INT, REAL, STRING, BVType, ArrayType, FunctionType

import common
import gen
import semantic
import wire

LEAN_MODULES = ["PySMT.Props.C12"]
RULE = ("type-directed random formulas and terms of every sort (Bool/Int/Real/BV/String/Array/uninterpreted sort) "
        "with nested quantifiers binding fresh variables and variables that also occur free (in the body's "
        "siblings and elsewhere), uninterpreted functions and predicates (also with Boolean and array parameters), "
        "Boolean terms inside theory terms (ITE conditions, Boolean arguments, Boolean array elements), shared "
        "sub-DAGs; every oracle and all six size measures on every case; a case is non-trivial when the formula "
        "has at least two nodes; distinct = distinct wire encodings. Extra streams: parametric custom sorts "
        "(S only: the wire format has no sort arguments), explicit type lists for expand_types, and query "
        "histories: on a fresh environment 3-10 formulas sharing sub-terms (a quantifier whose body is directly a "
        "predicate application over the bound variables + that application + formulas sharing it; atoms in which "
        "a sort occurs only on a constant; declared sorts named Int/Bool/Real/String next to the built-in sort; "
        "random formulas with their sub-terms) queried 2n+3 times in random order over fv / types / "
        "types(custom_only) / atoms / qf / size, every answer compared with the structural definition. "
        "Extreme but legal inputs (S ONLY: the Lean driver never sees them; expected values from the iterative "
        "structural definitions in this file; an exception of an oracle is a violation): one formula of ~80 000 "
        "distinct nodes and depth 40 000 (thorough 240 000 / 120 000), Boolean structure with re-binding "
        "quantifiers nested 3 500 levels (12 000), sorts nested 1 500 levels (3 000) -- arrays and instances of a "
        "declared unary sort, on free symbols, a bound variable, a function signature --, and a session of 7 500 "
        "(25 000) formulas with ten new nodes each on ONE environment sharing the oldest symbols and old atoms; "
        "every oracle (fv, atoms, qf, types in both modes, six sizes) on each.")
ASSUMPTIONS = [
    "a bare function-typed symbol used as a term (Symbol('f', FunctionType(..)) itself) is outside the Lean model "
    "(Core typeOf gives it no sort, so no theorem speaks about it); the real oracles are still checked on such "
    "symbols against the structural definitions (S only)",
    "hash-consing (C04): distinct FNode objects are distinct structures, so DAG measures count objects",
    "interpretations sampled, not enumerated: the semantic dependence tests are one-sided (they can only refute)",
    "interpretations under which a division by zero is evaluated are skipped in the semantic tests",
    "MEASURE_SYMBOLS counts symbol *nodes* (function names are not arguments and are not counted; "
    "pysmt/test/test_size.py asserts leaves >= symbols)",
]

MEASURES = [0, 1, 2, 3, 4, 5]
MEASURE_NAMES = ["TREE_NODES", "DAG_NODES", "LEAVES", "DEPTH", "SYMBOLS", "BOOL_DAG"]
CLASS_NAMES = ["ALL_TYPES", "QUANTIFIERS", "BOOL_CONNECTIVES", "BOOL_OPERATORS", "CONSTANTS", "BV_RELATIONS",
               "IRA_RELATIONS", "STR_RELATIONS", "RELATIONS", "BV_OPERATORS", "STR_OPERATORS", "IRA_OPERATORS",
               "ARRAY_OPERATORS", "THEORY_OPERATORS"]
SKELETON = (op.AND, op.OR, op.NOT, op.IMPLIES, op.IFF, op.FORALL, op.EXISTS)


# ------------------------------------------------------------------------------------------ generation
class Gen12(gen.FormulaGen):
    """adds the shapes C12 is about on top of the shared generator"""

    def _gen_op(self, ty, depth):
        m, r, u = self.m, self.rng, self.u
        if ty.is_bool_type() and "quant" in u.theories and "uf" in u.theories and r.random() < 0.05:
            # a quantifier whose body is *directly* a predicate application over the bound variables, the
            # same application used again outside the binder
            q, app = direct_application_quantifier(r, u, lambda t, d: self.gen(t, d), depth)
            if q is not None:
                k = r.random()
                if k < 0.5:
                    parts = [q, app]
                elif k < 0.75:
                    parts = [q, self._pick([m.Not, lambda a: m.Or(a, self.gen(BOOL, depth - 2))])(app)]
                else:
                    parts = [q, self.gen(BOOL, depth - 2)]
                r.shuffle(parts)
                return self._pick([m.And, m.Or, m.Implies, m.Iff])(parts[0], parts[1])
        if ty.is_bool_type() and "quant" in u.theories and r.random() < 0.12:
            # a quantifier whose bound variable also occurs free in a sibling
            v = self._pick(u.qvars)

            def occ(v=v):
                vt = v.symbol_type()
                if vt.is_bool_type():
                    return v
                return self._pick([m.Equals, m.Equals] + ([m.LE] if vt.is_int_type() else []))(
                    v, self.gen(vt, max(depth - 2, 0)))
            vs = [v] + ([self._pick(u.qvars)] if r.random() < 0.45 else [])
            if r.random() < 0.15:
                vs.append(self._pick(u.qvars))
            vs = list(dict.fromkeys(vs))
            r.shuffle(vs)
            # every bound variable occurs in the body
            body = self._pick([m.And, m.Or])([occ(w) for w in vs] + [self.gen(BOOL, depth - 2)])
            if r.random() < 0.5:
                body = m.Implies(self.gen(BOOL, depth - 2), body)
            q = (m.ForAll if r.random() < 0.5 else m.Exists)(vs, body)
            sib = occ() if r.random() < 0.8 else self.gen(BOOL, depth - 2)
            parts = [q, sib] if r.random() < 0.5 else [sib, q]
            if r.random() < 0.3:
                # nested binder of the same variable
                parts.append((m.Exists if r.random() < 0.5 else m.ForAll)([v], m.Or(occ(), q)))
                return m.And(parts)
            return self._pick([m.And, m.Or, m.Iff, m.Implies])(parts[0], parts[1])
        if (ty.is_int_type() or ty.is_real_type()) and r.random() < 0.15:
            # Boolean structure under a theory term
            c = self.gen(BOOL, depth - 1)
            return m.Ite(c, self.gen(ty, depth - 1), self.gen(ty, depth - 1))
        return gen.FormulaGen._gen_op(self, ty, depth)


def direct_application_quantifier(r, u, gen_term, depth):
    """-> (Q vs . P(.., v, ..) possibly nested Q v1. Q' v2. P(..), the application P(..)) or (None, None)"""
    m = u.mgr
    preds = [f for f in u.funs if f.symbol_type().return_type.is_bool_type()]
    r.shuffle(preds)
    for P in preds:
        pts = list(P.symbol_type().param_types)
        cands = [[v for v in u.qvars if v.symbol_type() == t] for t in pts]
        pos = [i for i, c in enumerate(cands) if c]
        if not pos:
            continue
        chosen = r.sample(pos, r.randint(1, len(pos)))
        args, vs = [], []
        for i, t in enumerate(pts):
            if i in chosen:
                v = r.choice(cands[i])
                args.append(v)
                if v not in vs:
                    vs.append(v)
            else:
                args.append(gen_term(t, min(1, max(depth - 2, 0))))
        app = m.Function(P, args)
        Q = lambda: (m.ForAll if r.random() < 0.5 else m.Exists)
        if len(vs) >= 2 and r.random() < 0.6:
            q = Q()(vs[:1], Q()(vs[1:], app))
        else:
            q = Q()(vs, app)
        return q, app
    return None, None


def make_universe(env):
    uni = gen.Universe(env)
    m = env.formula_manager
    if INT in uni.syms:
        uni.funs.append(m.Symbol("kB", FunctionType(INT, [BOOL])))
        uni.funs.append(m.Symbol("pI", FunctionType(BOOL, [INT])))
    ab = ArrayType(BVType(2), BOOL)
    if ab in uni.syms:
        uni.funs.append(m.Symbol("pA", FunctionType(BOOL, [ab, BVType(2)])))
    return uni


# ------------------------------------------------------------------------------------------ DAG helpers
_DAG_LAST = [None, None]


def dag_nodes(f):
    """distinct nodes, children before parents (iterative; the last result is cached: the structural
    definitions below traverse the same -- possibly huge -- formula several times)"""
    if _DAG_LAST[0] is f:
        return _DAG_LAST[1]
    out = _dag_nodes(f)
    _DAG_LAST[0], _DAG_LAST[1] = f, out
    return out


def _dag_nodes(f):
    seen, out, stack = set(), [], [(f, False)]
    while stack:
        n, done = stack.pop()
        if id(n) in seen:
            continue
        if done:
            seen.add(id(n))
            out.append(n)
        else:
            stack.append((n, True))
            for c in n.args():
                if id(c) not in seen:
                    stack.append((c, False))
    return out


def is_quant(n):
    return n.node_type() in (op.FORALL, op.EXISTS)


# ------------------------------------------------------------------------------------------ direct definitions (S)
def d_fv(f):
    """free symbols by the textbook definition (function names included, bound variables removed)"""
    memo = {}
    for n in dag_nodes(f):
        nt = n.node_type()
        if nt == op.SYMBOL:
            r = frozenset([n])
        else:
            r = frozenset().union(*[memo[id(c)] for c in n.args()]) if n.args() else frozenset()
            if nt == op.FUNCTION:
                r = r | frozenset([n.function_name()])
            elif is_quant(n):
                r = r - frozenset(n.quantifier_vars())
        memo[id(n)] = r
    return memo[id(f)]


def syntactic_symbols(f):
    """every symbol written in the formula: leaves, bound variables, function names"""
    out = set()
    for n in dag_nodes(f):
        nt = n.node_type()
        if nt == op.SYMBOL:
            out.add(n)
        elif nt == op.FUNCTION:
            out.add(n.function_name())
        elif is_quant(n):
            out.update(n.quantifier_vars())
    return out


def is_skeleton(n, get_type):
    nt = n.node_type()
    if nt in SKELETON or nt == op.BOOL_CONSTANT:
        return True
    return nt == op.ITE and get_type(n).is_bool_type()


def d_atoms(f, get_type):
    """maximal Boolean sub-terms that are not connectives / quantifiers / Boolean ITE / Boolean constants"""
    out, seen, stack = set(), set(), [f]
    while stack:
        n = stack.pop()
        if id(n) in seen:
            continue
        seen.add(id(n))
        if is_skeleton(n, get_type):
            stack.extend(n.args())
        else:
            out.add(n)
    return frozenset(out)


def d_qf(f):
    return not any(is_quant(n) for n in dag_nodes(f))


def type_args(t):
    if t.is_array_type():
        return [t.index_type, t.elem_type]
    if t.is_function_type():
        return [t.return_type] + list(t.param_types)
    if t.is_custom_type():
        return list(t.args or ())
    return []


_TK_MEMO = {}      # id(sort) -> (sort, key)    (the sort object is kept so that the id stays valid)
_TK_INTERN = {}    # structural description -> small integer


def tkey(t):
    """structural identity of a sort, independent of PySMTType.__eq__/__hash__: the built-in sorts are
    recognised by their class predicates, a declared sort by (name, arity, argument keys) -- so the declared
    sort |Int| and the built-in Int have different keys. Iterative (sorts nested thousands of levels deep),
    keys are interned small integers."""
    stack = [t]
    while stack:
        u = stack[-1]
        h = _TK_MEMO.get(id(u))
        if h is not None and h[0] is u:
            stack.pop()
            continue
        kids = type_args(u)
        pending = [k for k in kids if not (id(k) in _TK_MEMO and _TK_MEMO[id(k)][0] is k)]
        if pending:
            stack.extend(pending)
            continue
        ck = tuple(_TK_MEMO[id(k)][1] for k in kids)
        if u.is_function_type():
            raw = ("fun", ck)
        elif u.is_array_type():
            raw = ("array", ck)
        elif u.is_bv_type():
            raw = ("bv", u.width)
        elif u.is_bool_type():
            raw = ("bool",)
        elif u.is_int_type():
            raw = ("int",)
        elif u.is_real_type():
            raw = ("real",)
        elif u.is_string_type():
            raw = ("string",)
        else:
            raw = ("decl", u.basename, u.arity, ck)
        _TK_MEMO[id(u)] = (u, _TK_INTERN.setdefault(raw, len(_TK_INTERN)))
        stack.pop()
    return _TK_MEMO[id(t)][1]


def short(t, n=70):
    s_ = str(t)
    return s_ if len(s_) <= n else s_[:n] + "...(%d chars)" % len(s_)


def shorts(ts, k=12):
    ts = list(ts)
    return "[" + ", ".join(short(t) for t in ts[:k]) + (", ... %d more" % (len(ts) - k) if len(ts) > k else "") + "]"


def is_declared(t):
    return not (t.is_bool_type() or t.is_int_type() or t.is_real_type() or t.is_bv_type() or
                t.is_array_type() or t.is_string_type())


def close_types(base):
    """closure under sub-sorts; -> {key: sort}"""
    out, stack = {}, list(base)
    while stack:
        t = stack.pop()
        k = tkey(t)
        if k in out:
            continue
        out[k] = t
        stack.extend(type_args(t))
    return out


def d_types(f, get_type):
    """sorts written in the formula: of symbols, bound variables, function signatures, constants and array
    values; closed under sub-sorts"""
    base = []
    for n in dag_nodes(f):
        nt = n.node_type()
        if nt == op.SYMBOL:
            base.append(n.symbol_type())
        elif nt == op.FUNCTION:
            ft = n.function_name().symbol_type()
            base.append(ft.return_type)
            base.extend(ft.param_types)
        elif is_quant(n):
            base.extend(v.symbol_type() for v in n.quantifier_vars())
        elif nt == op.BOOL_CONSTANT:
            base.append(BOOL)
        elif nt == op.INT_CONSTANT:
            base.append(INT)
        elif nt in (op.REAL_CONSTANT, op.ALGEBRAIC_CONSTANT):
            base.append(REAL)
        elif nt == op.STR_CONSTANT:
            base.append(STRING)
        elif nt == op.BV_CONSTANT:
            base.append(BVType(n.bv_width()))
        elif nt == op.ARRAY_VALUE:
            base.append(ArrayType(n.array_value_index_type(), get_type(n.array_value_default())))
    return close_types(base)


def types_problems(f, get_type, tys, custom_only=False):
    """[(check, kind, message)] : what is wrong with the list `tys` returned by get_types(f, custom_only)"""
    out = []
    dt = d_types(f, get_type)
    if custom_only:
        dt = {k: t for k, t in dt.items() if is_declared(t)}
    keys = [tkey(t) for t in tys]
    if set(keys) != set(dt):
        missing = sorted(short(dt[k]) + ("" if not is_declared(dt[k]) else " (declared)")
                         for k in set(dt) - set(keys))
        out.append(("structural", "missing" if missing else "extra",
                    "types reported %s%s, definition gives %s%s" % (
                        shorts(tys), " (custom_only)" if custom_only else "",
                        shorts(sorted(short(t) + (" (declared)" if is_declared(t) else "") for t in dt.values())),
                        (", missing " + ", ".join(missing[:6])) if missing else "")))
    if len(set(keys)) != len(keys):
        out.append(("duplicates", None, "get_types returned duplicates: %s" % shorts(tys)))
    pos = {}
    for i, k in enumerate(keys):
        pos.setdefault(k, i)
    for i, t in enumerate(tys):
        bad = [a for a in type_args(t) if pos.get(tkey(a), len(keys)) >= i]
        if bad and not custom_only:
            out.append(("order", None, "get_types lists %s before its sub-sort %s: %s" % (
                short(t), short(bad[0]), shorts(tys))))
            break
    return out


def is_theory_atom_leaf(n, get_type):
    nt = n.node_type()
    if nt in op.RELATIONS:
        return True
    return nt in (op.FUNCTION, op.ARRAY_SELECT) and get_type(n).is_bool_type()


def d_size(f, m, get_type):
    nodes = dag_nodes(f)
    if m == 0:      # nodes of the tree
        memo = {}
        for n in nodes:
            memo[id(n)] = 1 + sum(memo[id(c)] for c in n.args())
        return memo[id(f)]
    if m == 1:      # distinct sub-terms
        return len(nodes)
    if m == 2:      # leaves of the tree
        memo = {}
        for n in nodes:
            memo[id(n)] = 1 if not n.args() else sum(memo[id(c)] for c in n.args())
        return memo[id(f)]
    if m == 3:      # nodes on the longest root-to-leaf path
        memo = {}
        for n in nodes:
            memo[id(n)] = 1 + max([memo[id(c)] for c in n.args()], default=0)
        return memo[id(f)]
    if m == 4:      # distinct symbol leaves
        return sum(1 for n in nodes if n.node_type() == op.SYMBOL)
    if m == 5:      # distinct nodes reachable without entering a theory atom
        seen, stack = set(), [f]
        while stack:
            n = stack.pop()
            if id(n) in seen:
                continue
            seen.add(id(n))
            if not is_theory_atom_leaf(n, get_type):
                stack.extend(n.args())
        return len(seen)
    raise ValueError(m)


# ------------------------------------------------------------------------------------------ canonical forms
def canon_sym(s):
    return "%s %s" % (wire.hexs(s.symbol_name()), wire.enc_symty(s.symbol_type()))


def canon_items(ans):
    ans = ans.strip()
    if not ans:
        return []
    return sorted(set(x.strip() for x in ans.split(" ; ")))


def impl_atoms(env, f):
    try:
        r = env.ao.walk(f)
    except AssertionError:
        return "err", None
    if r is None:
        return "theory", None
    return "atoms", r


# ------------------------------------------------------------------------------------------ wire -> FNode (replay)
def ty_of(env, t):
    if t[0] == "B":
        return BOOL
    if t[0] == "I":
        return INT
    if t[0] == "R":
        return REAL
    if t[0] == "S":
        return STRING
    if t[0] == "V":
        return BVType(t[1])
    if t[0] == "A":
        return ArrayType(ty_of(env, t[1]), ty_of(env, t[2]))
    if t[0] == "F":
        return FunctionType(ty_of(env, t[1]), [ty_of(env, p) for p in t[2]])
    if t[0] == "C":
        return env.type_manager.Type(t[1], 0)
    raise ValueError(t)


def build_fnode(env, nodes):
    m = env.formula_manager
    built = []
    for (o, p, ch) in nodes:
        args = tuple(built[c] for c in ch)
        nt = wire.OPID[o]
        if o == "symbol":
            n = m.Symbol(p[1], ty_of(env, p[2]))
        elif o == "function":
            n = m.create_node(nt, args, m.Symbol(p[1], ty_of(env, p[2])))
        elif o == "boolConst":
            n = m.Bool(p[1])
        elif o == "intConst":
            n = m.Int(p[1])
        elif o == "realConst":
            n = m.Real(p[1])
        elif o == "strConst":
            n = m.String(p[1])
        elif o == "bvConst":
            n = m.BV(p[1], p[2])
        elif o in ("forall", "exists"):
            n = m.create_node(nt, args, tuple(m.Symbol(nm, ty_of(env, t)) for nm, t in p[1:]))
        elif o == "arrayValue":
            n = m.create_node(nt, args, ty_of(env, p[1]))
        elif p is None:
            n = m.create_node(nt, args)
        else:
            n = m.create_node(nt, args, tuple(p[1:]))
        built.append(n)
    return built[-1]


def report_s(ctx, sig, what, rep):
    ctx.count("S_%s_%s" % (sig.get("oracle"), sig.get("check")))
    ctx.report_s(sig, what, rep)


# ------------------------------------------------------------------------------------------ one batch of formulas
class Case:
    def __init__(self, f, subseed, wire_ok=True):
        self.f = f
        self.subseed = subseed
        self.wire_ok = wire_ok
        self.line = None


def other_value(ig, ty, v, rng):
    for _ in range(20):
        w = ig.value(ty)
        if w != v:
            return w
    return None


def process(ctx, env, uni, cases, do_k=True):
    """runs K and S on the cases; returns nothing, reports through ctx"""
    get_type = env.stc.get_type
    root = lambda f: wire.OPNAMES[f.node_type()] if f.node_type() < len(wire.OPNAMES) else "custom"
    k_lines, k_meta = [], []
    s_lines, s_jobs = [], []
    for c in cases:
        f = c.f
        rd = semantic.readable(f)
        try:
            c.line = wire.enc_term(f) if c.wire_ok else None
        except wire.OutOfFragment:
            c.line = None
            ctx.count("out_of_fragment")
        nontriv = (c.line or rd) if f.args() else None
        ctx.case(nontriv)
        ctx.count("root_" + root(f))
        rep0 = {"formula": rd, "term": c.line, "subseed": c.subseed}
        ftype = get_type(f)

        # ---- implementation answers
        fv = f.get_free_variables()
        akind, atoms = impl_atoms(env, f)
        try:
            ga = f.get_atoms()
            ga_kind = "atoms"
        except AssertionError:
            ga, ga_kind = None, "err"
        qf = env.qfo.is_qf(f)
        tys = env.typeso.get_types(f)
        tys_custom = env.typeso.get_types(f, custom_only=True)
        sizes = [f.size(m) for m in MEASURES]
        if f.size() != sizes[0]:
            report_s(ctx, {"oracle": "size", "check": "default-measure", "root": root(f)},
                         "size() = %r differs from size(MEASURE_TREE_NODES) = %r" % (f.size(), sizes[0]), rep0)

        # ---- S: direct structural definitions
        dfv = d_fv(f)
        if dfv != fv:
            report_s(ctx, {"oracle": "fv", "check": "structural", "root": root(f),
                          "kind": "missing" if dfv - fv else "extra"},
                         "free symbols reported %s, definition gives %s" % (
                             sorted(map(str, fv)), sorted(map(str, dfv))), rep0)
        if ftype.is_bool_type():
            datoms = d_atoms(f, get_type)
            if akind != "atoms" or ga_kind != "atoms":
                report_s(ctx, {"oracle": "atoms", "check": "exception", "root": root(f)},
                             "atoms walk of a Boolean formula gave %s / get_atoms %s" % (akind, ga_kind), rep0)
            elif atoms != datoms or ga != datoms:
                report_s(ctx, {"oracle": "atoms", "check": "structural", "root": root(f),
                              "kind": "missing" if datoms - atoms else "extra"},
                             "atoms reported %s, definition gives %s" % (
                                 sorted(map(str, atoms)), sorted(map(str, datoms))), rep0)
        else:
            if akind != "theory" or ga_kind != "err":
                report_s(ctx, {"oracle": "atoms", "check": "theory-term", "root": root(f)},
                             "atoms walk of a non-Boolean term gave %s (expected None), get_atoms %s" % (
                                 akind, ga_kind), rep0)
        if qf != d_qf(f):
            report_s(ctx, {"oracle": "qf", "check": "structural", "root": root(f)},
                         "is_qf = %r but the formula %s a quantifier" % (qf, "contains" if qf else "has no"), rep0)
        for chk, kind, msg in types_problems(f, get_type, tys):
            sig = {"oracle": "types", "check": chk, "root": root(f)}
            if kind:
                sig["kind"] = kind
            report_s(ctx, sig, msg, rep0)
        want_custom = [tkey(t) for t in tys if is_declared(t)]
        if [tkey(t) for t in tys_custom] != want_custom or types_problems(f, get_type, tys_custom, True):
            report_s(ctx, {"oracle": "types", "check": "custom_only", "root": root(f)},
                         "custom_only=True gives %s, all types are %s" % (tys_custom, tys), rep0)
        for m in MEASURES:
            ds = d_size(f, m, get_type)
            if ds != sizes[m]:
                report_s(ctx, {"oracle": "size", "check": "structural", "measure": MEASURE_NAMES[m],
                              "root": root(f)},
                             "size(%s) = %d, definition gives %d" % (MEASURE_NAMES[m], sizes[m], ds), rep0)
        ctx.sample({"formula": rd, "fv": sorted(map(str, fv)), "atoms": akind if atoms is None else
                    sorted(map(str, atoms)), "qf": qf, "types": list(map(str, tys)), "sizes": sizes})

        if c.line is None:
            continue

        # ---- K requests
        if do_k:
            try:
                want = {
                    "fvo": sorted(set(canon_sym(s) for s in fv)),
                    "atoms": (akind, None if atoms is None else sorted(set(wire.enc_term(a) for a in atoms))),
                    "qf": "true" if qf else "false",
                    "types": sorted(set(wire.enc_type(t) for t in tys)),
                    "ctypes": [wire.enc_type(t) for t in tys_custom],
                }
                for req in ("fvo", "atoms", "qf", "types", "ctypes"):
                    k_lines.append("%s %s" % (req, c.line))
                    k_meta.append((c, req, want[req], rep0))
                for m in MEASURES:
                    k_lines.append("size %d %s" % (m, c.line))
                    k_meta.append((c, "size %s" % MEASURE_NAMES[m], str(sizes[m]), rep0))
            except wire.OutOfFragment:
                ctx.count("out_of_fragment")

        # ---- S: semantic dependence
        rng = random.Random(c.subseed)
        ig = gen.InterpGen(rng, uni)
        try:
            syms, fns, doms = ig.for_formula(f)      # values for the symbols *reported* free
        except Exception as e:
            ctx.infra("interpretation generator failed on %s: %r" % (rd, e))
            continue
        reported = set(fv)
        hidden = sorted(syntactic_symbols(f) - reported, key=lambda s: s.symbol_name())
        for s in hidden[:3]:
            t = s.symbol_type()
            if t.is_function_type():
                d1 = ig.value(t.return_type)
                d2 = other_value(ig, t.return_type, d1, rng)
                if d2 is None:
                    continue
                i1 = (syms, fns + [(s.symbol_name(), t, [], d1)], doms)
                i2 = (syms, fns + [(s.symbol_name(), t, [], d2)], doms)
            else:
                v1 = ig.value(t)
                v2 = other_value(ig, t, v1, rng)
                if v2 is None:
                    continue
                i1 = (syms + [(s.symbol_name(), t, v1)], fns, doms)
                i2 = (syms + [(s.symbol_name(), t, v2)], fns, doms)
            try:
                l1 = "evalc %s %s" % (wire.enc_interp(*i1), c.line)
                l2 = "evalc %s %s" % (wire.enc_interp(*i2), c.line)
            except (wire.OutOfFragment, ValueError):
                continue
            s_jobs.append(("hidden", c, rep0, str(s), len(s_lines), 2))
            s_lines += [l1, l2]
        if ftype.is_bool_type() and qf and akind == "atoms" and atoms is not None:
            try:
                atom_lines = [wire.enc_term(a) for a in sorted(atoms, key=str)]
            except wire.OutOfFragment:
                atom_lines = None
            if atom_lines is not None:
                cands = [("sym", i) for i in range(len(syms))] + [("fn", i) for i in range(len(fns))]
                rng.shuffle(cands)
                base = (syms, fns, doms)
                for kind, i in cands[:4]:
                    if kind == "sym":
                        nm, t, v = syms[i]
                        w = other_value(ig, t, v, rng)
                        if w is None:
                            continue
                        alt = (syms[:i] + [(nm, t, w)] + syms[i + 1:], fns, doms)
                        what = nm
                    else:
                        nm, t, tab, d = fns[i]
                        w = other_value(ig, t.return_type, d, rng)
                        if w is None:
                            continue
                        alt = (syms, fns[:i] + [(nm, t, tab, w)] + fns[i + 1:], doms)
                        what = nm
                    try:
                        ib = wire.enc_interp(*base)
                        ia = wire.enc_interp(*alt)
                    except (wire.OutOfFragment, ValueError):
                        continue
                    start = len(s_lines)
                    for I in (ib, ia):
                        s_lines.append("evalc %s %s" % (I, c.line))
                        for al in atom_lines:
                            s_lines.append("evalc %s %s" % (I, al))
                    s_jobs.append(("atoms", c, rep0, what, start, 2 * (1 + len(atom_lines))))

    # ---------------------------------------------------------------- K
    if k_lines:
        try:
            answers = ctx.lean_run_sharded("C12", k_lines)
        except common.LeanError as e:
            ctx.report_l("driver C12 does not run", str(e))
            answers = None
        if answers is not None:
            for line, ans, (c, req, want, rep0) in zip(k_lines, answers, k_meta):
                rep = dict(rep0, request=line[:200], lean=ans, impl=repr(want))
                if ans.startswith("bad-op"):
                    ctx.infra("C12 driver rejected a request: %s :: %s" % (ans, rep0["formula"]))
                    continue
                if req == "atoms":
                    kind, lst = want
                    if kind != "atoms":
                        ok = ans == kind
                    else:
                        ok = ans.startswith("atoms") and canon_items(ans[5:]) == lst
                elif req == "ctypes":
                    # exact order among the declared sorts is not comparable (set iteration order of the walk):
                    # compared as a set, no duplicates
                    have = [x.strip() for x in ans.split(" ; ")] if ans.strip() else []
                    ok = sorted(have) == sorted(want) and len(set(want)) == len(want)
                elif req in ("fvo", "types"):
                    ok = canon_items(ans) == want
                else:
                    ok = ans == want
                ctx.count("k_compared")
                if not ok:
                    ctx.report_k("oracle %s: model and implementation disagree" % req, rep)

    # ---------------------------------------------------------------- S semantic
    if s_lines:
        try:
            answers = ctx.lean_run_sharded("Sem", s_lines)
        except common.LeanError as e:
            ctx.report_l("driver Sem does not run", str(e))
            return
        for kind, c, rep0, what, start, n in s_jobs:
            ans = answers[start:start + n]
            if any(a.startswith("bad-op") for a in ans):
                ctx.infra("Sem driver rejected a request: %s :: %s" % (ans, rep0["formula"]))
                continue
            if any(a == "div0" for a in ans):
                ctx.count("skipped_div0")
                continue
            rep = dict(rep0, symbol=what, requests=[l[:4000] for l in s_lines[start:start + n]], answers=ans)
            if kind == "hidden":
                ctx.count("sem_fv_pairs")
                if ans[0] != ans[1]:
                    report_s(ctx, {"oracle": "fv", "check": "semantic",
                                  "root": wire.OPNAMES[c.f.node_type()]},
                                 "the value changes (%s -> %s) with the value of %s, which is not reported free" % (
                                     ans[0], ans[1], what), rep)
            else:
                h = n // 2
                fa, fb = ans[0], ans[h]
                if ans[1:h] == ans[h + 1:]:
                    ctx.count("sem_atoms_pairs_agree")
                    if fa != fb:
                        report_s(ctx, {"oracle": "atoms", "check": "semantic",
                                      "root": wire.OPNAMES[c.f.node_type()]},
                                     "two interpretations (differing on %s) give every reported atom the same "
                                     "truth value but the formula %s and %s" % (what, fa, fb), rep)
                else:
                    ctx.count("sem_atoms_pairs_differ")


# ------------------------------------------------------------------------------------------ extra streams
def check_tables(ctx):
    """K (translator validation): regenerated operator classes vs the imported module"""
    try:
        answers = ctx.lean_run("C12", ["opclass " + n for n in CLASS_NAMES])
    except common.LeanError as e:
        ctx.report_l("driver C12 does not run", str(e))
        return
    for n, a in zip(CLASS_NAMES, answers):
        want = " ".join(str(i) for i in sorted(getattr(op, n)))
        ctx.count("k_compared")
        if a != want:
            ctx.report_k("operator class %s: generated table differs from pysmt.operators" % n,
                         {"class": n, "lean": a, "impl": want})


def random_type(rng, uni, depth=2):
    base = [BOOL, INT, REAL, STRING, BVType(1), BVType(2), BVType(8)] + ([uni.U] if uni.U is not None else [])
    if depth <= 0 or rng.random() < 0.45:
        return rng.choice(base)
    return ArrayType(random_type(rng, uni, depth - 1), random_type(rng, uni, depth - 1))


def check_expand(ctx, env, uni, n, given=None):
    """expand_types on explicit lists: K exact order; S closure / no duplicates / sub-sorts first"""
    lines, meta = [], []
    for _ in range(n):
        ts = given if given is not None else [random_type(ctx.rng, uni, 3) for _ in range(ctx.rng.randint(0, 5))]
        got = env.typeso.expand_types(list(ts))
        rep = {"types": list(map(str, ts)), "impl": list(map(str, got)),
               "expand": "expand %d %s" % (len(ts), " ".join(wire.enc_type(t) for t in ts))}
        ctx.case("expand " + repr(rep["types"]) if ts else None)
        if set(map(tkey, got)) != set(close_types(ts)) or len(set(map(tkey, got))) != len(got):
            report_s(ctx, {"oracle": "types", "check": "expand-closure"},
                         "expand_types(%s) = %s is not the duplicate-free closure under sub-sorts" % (
                             rep["types"], rep["impl"]), rep)
        for i, t in enumerate(got):
            if any(tkey(a) not in [tkey(x) for x in got[:i]] for a in type_args(t)):
                report_s(ctx, {"oracle": "types", "check": "order"},
                             "expand_types(%s) lists %s before one of its sub-sorts: %s" % (
                                 rep["types"], t, rep["impl"]), rep)
                break
        lines.append("expand %d %s" % (len(ts), " ".join(wire.enc_type(t) for t in ts)))
        meta.append((rep, [wire.enc_type(t) for t in got]))
    try:
        answers = ctx.lean_run("C12", lines)
    except common.LeanError as e:
        ctx.report_l("driver C12 does not run", str(e))
        return
    for line, ans, (rep, want) in zip(lines, answers, meta):
        have = [x.strip() for x in ans.split(" ; ")] if ans.strip() else []
        ctx.count("k_compared")
        if have != want:
            ctx.report_k("expand_types: model and implementation disagree (exact order)",
                         dict(rep, request=line, lean=ans))


def parametric_cases(ctx, env, n):
    """formulas over parametric custom sorts (S only)"""
    tm, m = env.type_manager, env.formula_manager
    P = tm.Type("Pair", 2)
    Bx = tm.Type("Box", 1)
    V0 = tm.Type("V0", 0)
    out = []
    names = {}

    def sym(prefix, t):
        k = (prefix, t)
        if k not in names:
            names[k] = m.Symbol("%s%d" % (prefix, len(names)), t)
        return names[k]
    for i in range(n):
        r = ctx.rng

        def ty(d):
            if d <= 0 or r.random() < 0.4:
                return r.choice([INT, BOOL, V0, BVType(3)])
            k = r.choice(["P", "B", "A"])
            if k == "P":
                return tm.get_type_instance(P, ty(d - 1), ty(d - 1))
            if k == "B":
                return tm.get_type_instance(Bx, ty(d - 1))
            return ArrayType(ty(d - 1), ty(d - 1))
        parts = []
        for j in range(r.randint(1, 3)):
            t = ty(3)
            a, b = sym("pc", t), sym("pd", t)
            if t.is_bool_type():
                parts.append(m.Iff(a, b))
            else:
                parts.append(m.Equals(a, b))
            if r.random() < 0.4:
                fs = sym("pf", FunctionType(BOOL, [t]))
                parts.append(m.Function(fs, [a]))
        out.append(Case(m.And(parts) if len(parts) > 1 else parts[0], r.getrandbits(48), wire_ok=False))
    # bare function symbols: outside the Lean model's terms (Core typeOf gives them no sort), S only
    for k, t in names:
        if t.is_function_type():
            out.append(Case(names[(k, t)], ctx.rng.getrandbits(48), wire_ok=False))
    for ft in (FunctionType(INT, [INT]), FunctionType(BOOL, [ArrayType(INT, V0), BVType(3)])):
        out.append(Case(sym("bf", ft), ctx.rng.getrandbits(48), wire_ok=False))
    return out


# ------------------------------------------------------------------------------------------ query histories
QUERY_WEIGHTS = [("fv", 4), ("types", 3), ("ctypes", 3), ("atoms", 1), ("qf", 1), ("size", 1)]


def sub_formulas(f, rng, k):
    """a few proper sub-terms, bodies of quantifiers first"""
    nodes = [n for n in dag_nodes(f) if n is not f and n.args()]
    bodies = [n.arg(0) for n in dag_nodes(f) if is_quant(n)]
    out = list(dict.fromkeys(bodies + (rng.sample(nodes, min(k, len(nodes))) if nodes else [])))
    return out[:k + 2]


def history_formulas(rng, env, uni):
    """formulas that share sub-terms, built on a fresh environment"""
    m, tm = env.formula_manager, env.type_manager
    fg = Gen12(rng, uni, max_depth=3, quant_prob=0.15, share_prob=0.5)
    gb = lambda d=2: fg.gen(BOOL, d)
    out = []
    kinds = rng.sample(["app", "const-sort", "named", "random"], rng.randint(1, 3))
    if "app" in kinds:
        q, app = direct_application_quantifier(rng, uni, lambda t, d: fg.gen(t, d), 3)
        if q is not None:
            out.append(q)
            if is_quant(q.arg(0)):
                out.append(q.arg(0))
            out.append(app)
            out.append(rng.choice([m.And, m.Or])(app, gb()))
            out.append(rng.choice([m.And, m.Or])(q, app))
    if "const-sort" in kinds:
        # atoms in which a sort occurs only as the sort of a constant
        k = rng.choice(["strlen", "toreal", "bv2nat", "extract", "zext", "select"])
        s_ = uni.syms.get(STRING, [None])[0]
        x_ = uni.syms[INT][0]
        if k == "strlen" and s_ is not None:
            atom = m.LT(m.Int(rng.choice([0, 3])), m.StrLength(fg.gen(STRING, 1) if rng.random() < 0.5 else s_))
        elif k == "toreal":
            atom = m.LT(m.ToReal(x_), m.Real(2))
        elif k == "bv2nat":
            atom = m.LE(m.BVToNatural(uni.syms[BVType(4)][0]), m.Int(3))
        elif k == "extract":
            atom = m.BVULT(m.BVExtract(uni.syms[BVType(8)][0], 0, 3), m.BV(5, 4))
        elif k == "zext":
            atom = m.Equals(m.BVZExt(uni.syms[BVType(2)][0], 1), m.BV(5, 3))
        else:
            atom = m.Equals(m.Select(uni.syms[ArrayType(BVType(2), BVType(2))][0], m.BV(1, 2)),
                            uni.syms[BVType(2)][1])
        out.append(rng.choice([m.And, m.Or])(atom, gb()))
        out.append(rng.choice([m.And, m.Or, m.Implies])(gb(), atom))
        out.append(atom)
    if "named" in kinds:
        # declared sorts named like built-in ones, together with the built-in sort
        nm = rng.choice(["Int", "Bool", "Real", "String"])
        D = tm.Type(nm, 0)
        builtin = {"Int": INT, "Bool": BOOL, "Real": REAL, "String": STRING}[nm]
        xd, yd = m.Symbol("xd" + nm, D), m.Symbol("yd" + nm, D)
        bs = m.Symbol("zb" + nm, builtin)
        eqd = m.Equals(xd, yd)
        eqb = m.Iff(bs, gb(1)) if nm == "Bool" else m.Equals(bs, fg.gen(builtin, 1))
        parts = [eqd, eqb]
        rng.shuffle(parts)
        out.append(m.And(parts))
        pd = m.Symbol("pd" + nm, FunctionType(BOOL, [D]))
        fd = m.Symbol("fd" + nm, FunctionType(builtin, [D]))
        ud = m.Symbol("ud" + nm, D)
        out.append((m.ForAll if rng.random() < 0.5 else m.Exists)([ud], m.Function(pd, [ud])))
        out.append(m.Iff(m.Function(pd, [xd]), bs) if nm == "Bool" else
                   m.Equals(m.Function(fd, [xd]), bs))
    if "random" in kinds or not out:
        f = fg.gen(BOOL, rng.choice([2, 3]))
        out.append(f)
        out.extend(sub_formulas(f, rng, 2))
        out.append(rng.choice([m.And, m.Or])(f, gb()))
    if out and rng.random() < 0.5:
        out.extend(sub_formulas(rng.choice(out), rng, 1))
    return list(dict.fromkeys(out))


def history_queries(rng, n):
    kinds = [k for k, w in QUERY_WEIGHTS for _ in range(w)]
    qs = []
    for _ in range(2 * n + 3):
        k = rng.choice(kinds)
        qs.append([k, rng.randrange(n), rng.choice(MEASURES) if k == "size" else 0])
    return qs


def exec_history(ctx, env, formulas, queries, rep_base):
    """run the queries in order on the one environment; every answer is compared with the structural
    definition (computed from the node accessors only, no oracle involved)"""
    get_type = env.stc.get_type
    for j, (kind, i, arg) in enumerate(queries):
        f = formulas[i]
        rep = dict(rep_base, failed_query=j, formula=semantic.readable(f),
                   query="%s(#%d%s)" % (kind, i, (", " + MEASURE_NAMES[arg]) if kind == "size" else ""))
        sig = {"check": "history", "query": kind}
        ctx.count("hq_" + kind)
        if kind == "fv":
            got, want = f.get_free_variables(), d_fv(f)
            if set(got) != want:
                report_s(ctx, dict(sig, oracle="fv", kind="missing" if want - set(got) else "extra"),
                         "query %d of the history: free symbols of %s reported %s, definition gives %s" % (
                             j, rep["formula"], sorted(map(str, got)), sorted(map(str, want))), rep)
        elif kind in ("types", "ctypes"):
            co = kind == "ctypes"
            got = env.typeso.get_types(f, custom_only=co)
            for chk, knd, msg in types_problems(f, get_type, got, co):
                report_s(ctx, dict(sig, oracle="types", sub=chk, kind=knd or ""),
                         "query %d of the history on %s: %s" % (j, rep["formula"], msg), rep)
        elif kind == "atoms":
            akind, atoms = impl_atoms(env, f)
            if get_type(f).is_bool_type():
                want = d_atoms(f, get_type)
                if akind != "atoms" or atoms != want:
                    report_s(ctx, dict(sig, oracle="atoms"),
                             "query %d of the history: atoms of %s reported %s, definition gives %s" % (
                                 j, rep["formula"], akind if atoms is None else sorted(map(str, atoms)),
                                 sorted(map(str, want))), rep)
            elif akind != "theory":
                report_s(ctx, dict(sig, oracle="atoms"),
                         "query %d of the history: atoms walk of the non-Boolean %s gave %s" % (
                             j, rep["formula"], akind), rep)
        elif kind == "qf":
            if env.qfo.is_qf(f) != d_qf(f):
                report_s(ctx, dict(sig, oracle="qf"),
                         "query %d of the history: is_qf(%s) = %r" % (j, rep["formula"], not d_qf(f)), rep)
        elif kind == "size":
            got, want = f.size(arg), d_size(f, arg, get_type)
            if got != want:
                report_s(ctx, dict(sig, oracle="size", measure=MEASURE_NAMES[arg]),
                         "query %d of the history: size(%s, %s) = %d, definition gives %d" % (
                             j, rep["formula"], MEASURE_NAMES[arg], got, want), rep)


def check_histories(ctx, n):
    """query histories on one (fresh) environment: the answers must not depend on what was asked before"""
    for _ in range(n):
        sub = ctx.rng.getrandbits(48)
        rng = random.Random(sub)
        env = Environment()
        uni = make_universe(env)
        try:
            formulas = history_formulas(rng, env, uni)
            terms = [wire.enc_term(f) for f in formulas]
        except wire.OutOfFragment:
            ctx.count("out_of_fragment")
            continue
        queries = history_queries(rng, len(formulas))
        ctx.case("history " + repr((terms, queries)))
        ctx.count("histories")
        exec_history(ctx, env, formulas, queries,
                     {"history": {"terms": terms, "queries": queries}, "subseed": sub,
                      "formulas": [semantic.readable(f, 160) for f in formulas]})


# ------------------------------------------------------------------------------------------ extreme but legal inputs
def no_type(n):
    raise AssertionError("the type of a %s node is not expected to be needed here" % wire.OPNAMES[n.node_type()])


def check_all_oracles(ctx, env, f, label, rep, is_bool, get_type=no_type, measures=MEASURES):
    """every oracle on `f` against the iterative structural definitions; an exception of the oracle on a
    legal formula is a violation. S only (the Lean driver never sees these inputs). -> number of failures"""
    shape = rep["extreme"]["kind"]
    fails = [0]

    def bad(oracle, what, **kw):
        fails[0] += 1
        r = rep
        if "formula" not in r and len(dag_nodes(f)) < 400:
            r = dict(rep, formula=semantic.readable(f, 600))
        report_s(ctx, dict({"check": "extreme", "shape": shape, "oracle": oracle}, **kw),
                 "%s: %s" % (label, what), r)

    def call(oracle, fn, **kw):
        try:
            return True, fn()
        except Exception as e:       # KeyError, RecursionError, ... on a legal input
            bad(oracle, "%s raised %s" % (oracle, repr(e)[:160]), error=type(e).__name__, **kw)
            return False, None

    ok, got = call("fv", lambda: f.get_free_variables())
    if ok:
        want = d_fv(f)
        if set(got) != want:
            bad("fv", "free symbols reported %s, definition gives %s" % (
                shorts(sorted(map(str, got))), shorts(sorted(map(str, want)))),
                kind="missing" if want - set(got) else "extra")
    ok, got = call("atoms", lambda: impl_atoms(env, f))
    if ok:
        akind, atoms = got
        if is_bool:
            want = d_atoms(f, get_type)
            if akind != "atoms" or atoms != want:
                bad("atoms", "atoms walk gave %s with %s atoms, definition gives %d atoms" % (
                    akind, "no" if atoms is None else len(atoms), len(want)))
        elif akind != "theory":
            bad("atoms", "atoms walk of a non-Boolean term gave %s" % akind)
    ok, got = call("qf", lambda: env.qfo.is_qf(f))
    if ok and got != d_qf(f):
        bad("qf", "is_qf = %r" % got)
    for co in (False, True):
        ok, got = call("types", lambda: env.typeso.get_types(f, custom_only=co), custom_only=str(co))
        if ok:
            for chk, knd, msg in types_problems(f, get_type, got, co):
                bad("types", msg, sub=chk, custom_only=str(co))
    for m in measures:
        ok, got = call("size", lambda: f.size(m), measure=MEASURE_NAMES[m])
        if ok:
            want = d_size(f, m, get_type)
            if got != want:
                bad("size", "size(%s) = %d, definition gives %d" % (MEASURE_NAMES[m], got, want),
                    measure=MEASURE_NAMES[m])
    ctx.count("extreme_oracle_runs")
    return fails[0]


def extreme_chain(ctx, n):
    """one formula with ~2n distinct nodes and depth n+2: ((..((x+0)+1)..+(n-1)) < x) & p"""
    env = Environment()
    m = env.formula_manager
    x, pb = m.Symbol("x", INT), m.Symbol("p", BOOL)
    acc = x
    for i in range(n):
        acc = m.Plus(acc, m.Int(i))
    f = m.And(m.LT(acc, x), pb)
    rep = {"extreme": {"kind": "chain", "n": n}, "formula": "((..((x+0)+1)..+%d) < x) & p" % (n - 1)}
    ctx.case("extreme chain %d" % n)
    ctx.count("extreme_nodes", len(dag_nodes(f)))
    # the set-valued measures keep one frozenset of all descendants per node, also below a relation (quadratic
    # in the depth of a chain): DAG_NODES and BOOL_DAG are left to the shallower inputs
    check_all_oracles(ctx, env, f, "arithmetic chain of %d additions (%d nodes)" % (n, len(dag_nodes(f))), rep, True,
                      measures=[0, 2, 3, 4])
    check_all_oracles(ctx, env, acc, "the chain term itself (%d nodes)" % len(dag_nodes(acc)), rep, False,
                      measures=[0, 2, 3, 4])


def extreme_boolchain(ctx, depth):
    """Boolean structure nested `depth` levels, connectives and binders (re-binding x and z) alternating"""
    env = Environment()
    m = env.formula_manager
    x, y, z = m.Symbol("x", INT), m.Symbol("y", INT), m.Symbol("z", INT)
    pb = m.Symbol("p", BOOL)
    acc = m.LT(x, y)
    for k in range(depth):
        a = m.LT(m.Plus(x, m.Int(k % 11)), z) if k % 3 else m.Equals(z, m.Int(k))
        r = k % 7
        if r == 0:
            acc = m.And(acc, a)
        elif r == 1:
            acc = m.Or(a, acc, pb)
        elif r == 2:
            acc = m.Implies(a, acc)
        elif r == 3:
            acc = m.Not(acc)
        elif r == 4:
            acc = m.ForAll([x] if k % 2 else [z, x], acc)
        elif r == 5:
            acc = m.Iff(acc, a)
        else:
            acc = m.Exists([z], m.And(a, acc))
    rep = {"extreme": {"kind": "boolchain", "n": depth},
           "formula": "connectives and binders nested %d levels over x<y, x+c<z, z=c, p" % depth}
    ctx.case("extreme boolchain %d" % depth)
    check_all_oracles(ctx, env, acc, "Boolean structure nested %d levels" % depth, rep, True,
                      measures=MEASURES if depth <= 1000 else [0, 2, 3, 4])


def extreme_sorts(ctx, depth):
    """sorts nested `depth` levels (arrays; instances of a declared unary sort) on a free symbol, a bound
    variable and a function signature"""
    env = Environment()
    m, tm = env.formula_manager, env.type_manager
    arr = INT
    for _ in range(depth):
        arr = tm.ArrayType(INT, arr)
    N1 = tm.Type("Nest", 1)
    u = tm.Type("S0", 0)
    for _ in range(depth):
        u = tm.get_type_instance(N1, u)
    rep = {"extreme": {"kind": "sorts", "n": depth}}
    for nm, T in (("array", arr), ("declared", u)):
        a1, a2, bv_ = m.Symbol("a1" + nm, T), m.Symbol("a2" + nm, T), m.Symbol("bv" + nm, T)
        g = m.Symbol("g" + nm, FunctionType(BOOL, [T, INT]))
        h = m.Symbol("h" + nm, FunctionType(T, [INT]))
        gt = lambda n: BOOL
        cases = [("free symbols", m.Equals(a1, a2)),
                 ("bound variable", m.ForAll([bv_], m.Function(g, [bv_, m.Int(0)]))),
                 ("function signature", m.Function(g, [m.Function(h, [m.Int(1)]), m.Int(2)]))]
        for what, f in cases:
            ctx.case("extreme sorts %s %s %d" % (nm, what, depth))
            r = dict(rep, formula="%s sort nested %d levels: %s" % (nm, depth, what))
            check_all_oracles(ctx, env, f, "%s sort nested %d levels (%s)" % (nm, depth, what), r, True,
                              get_type=gt)


def extreme_session(ctx, n):
    """a long session on ONE environment: n small formulas, ten new nodes each, all sharing the oldest
    symbols and an atom of an earlier formula; every oracle after every formula"""
    env = Environment()
    m = env.formula_manager
    x, y, u, v = (m.Symbol(k, INT) for k in "xyuv")
    pb = m.Symbol("p", BOOL)
    old = [m.LT(x, y)]
    rep = {"extreme": {"kind": "session", "n": n}}
    failures = 0
    for i in range(n):
        a1 = m.LT(m.Plus(u, m.Int(i)), m.Times(m.Int(i), v))
        a2 = m.Equals(m.Plus(x, m.Int(i)), m.Int(-i - 1))
        a3 = m.Or(pb, m.LE(m.Int(i), u))
        f = m.And(old[0], old[i // 2], a1, a2, a3)
        old.append(a1)
        r = dict(rep, step=i)
        failures += check_all_oracles(ctx, env, f, "formula %d of the session" % i, r, True,
                                      measures=MEASURES if i % 8 == 0 else sorted({1, i % 6}))
        if failures >= 3:
            break
    ctx.case("extreme session %d" % n)
    ctx.count("extreme_session_formulas", i + 1)


def check_extreme(ctx, quick, only=None):
    plan = [("chain", 40000 if quick else 120000), ("boolchain", 3500 if quick else 12000), ("boolchain", 800),
            ("sorts", 1500 if quick else 3000), ("session", 7500 if quick else 25000)]
    fns = {"chain": extreme_chain, "boolchain": extreme_boolchain, "sorts": extreme_sorts,
           "session": extreme_session}
    for kind, n in plan:
        if only is not None:
            if only[0] != kind:
                continue
            n = only[1]
        elif ctx.time_left() < (60 if quick else 200):
            ctx.count("extreme_skipped_" + kind)
            continue
        t0 = __import__("time").time()
        if only is not None and ctx.extra.get("extreme_%s_s" % kind) is not None:
            continue
        fns[kind](ctx, n)
        ctx.extra["extreme_%s_s" % kind] = round(__import__("time").time() - t0, 2)


# ------------------------------------------------------------------------------------------ entry points
def run(ctx):
    warnings.filterwarnings("ignore")
    quick = ctx.tier == "quick"
    n = 2400 if quick else 30000
    env = Environment()
    uni = make_universe(env)
    check_tables(ctx)
    check_expand(ctx, env, uni, 150 if quick else 3000)
    check_histories(ctx, 250 if quick else 5000)
    check_extreme(ctx, quick)
    batch = 1200 if quick else 3000
    done = 0
    while done < n:
        if ctx.time_left() < (100 if quick else 240) and done > 0:
            ctx.count("stopped_for_time")
            break
        fg = Gen12(ctx.rng, uni, max_depth=4, quant_prob=0.12, share_prob=0.3)
        cases = []
        for _ in range(min(batch, n - done)):
            ty = fg.any_type(0.7)
            f = fg.gen(ty, ctx.rng.choice([2, 3, 3, 4]))
            cases.append(Case(f, ctx.rng.getrandbits(48)))
        process(ctx, env, uni, cases)
        done += len(cases)
    process(ctx, env, uni, parametric_cases(ctx, env, 60 if quick else 1500), do_k=False)


def replay(ctx, rep):
    warnings.filterwarnings("ignore")
    r = rep["replay"]
    env = Environment()
    uni = make_universe(env)
    if "extreme" in r:
        e = r["extreme"]
        print("extreme input: %s, n = %d (regenerated deterministically on a fresh environment)" % (e["kind"], e["n"]))
        check_extreme(ctx, True, only=(e["kind"], e["n"]))
        if not ctx.s_violations:
            print("replay: the case does not fail on this tree")
        for v in ctx.s_violations[:8]:
            print("S:", v["what"])
        return
    if "history" in r:
        h = r["history"]
        formulas = [build_fnode(env, wire.dec_term(t)) for t in h["terms"]]
        for i, f in enumerate(formulas):
            print("#%d: %s" % (i, semantic.readable(f)))
        print("queries:", " ".join("%s(#%d)" % (k, i) for k, i, _ in h["queries"]))
        exec_history(ctx, env, formulas, [tuple(q) for q in h["queries"]], {"history": h})
        if not ctx.s_violations:
            print("replay: the history does not fail on this tree")
        for v in ctx.s_violations:
            print("S:", v["what"])
        return
    if "expand" in r:
        tk = wire.Tok(r["expand"])
        tk.next()
        k = tk.nat()
        ts = [ty_of(env, wire.dec_type(tk)) for _ in range(k)]
        print("expand_types(%s)" % list(map(str, ts)))
        check_expand(ctx, env, uni, 1, given=ts)
        if not ctx.s_violations and not ctx.k_divergences:
            print("replay: the case does not fail on this tree")
        for v in ctx.s_violations:
            print("S:", v["what"])
        for v in ctx.k_divergences:
            print("K:", v["what"], v["replay"].get("lean"), v["replay"].get("impl"))
        return
    if not r.get("term"):
        print("case without wire form (parametric sorts): %s" % r.get("formula"))
        return
    f = build_fnode(env, wire.dec_term(r["term"]))
    print("formula:", semantic.readable(f))
    process(ctx, env, uni, [Case(f, r.get("subseed", 0))])
    if not ctx.s_violations and not ctx.k_divergences:
        print("replay: the case does not fail on this tree")
    for v in ctx.s_violations:
        print("S:", v["what"])
    for v in ctx.k_divergences:
        print("K:", v["what"], v["replay"].get("lean"), v["replay"].get("impl"))
