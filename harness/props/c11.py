"""C11 — both CNF conversions and Ackermannization: advertised form + model-by-model equisatisfiability.

K  implementation (pysmt/rewritings.py CNFizer, PolarityCNFizer, Ackermannizer) vs the Lean models
   (lean/PySMT/Impl/Rewritings/{CNF,PolCNF,Ackermann}.lean through Drivers/C11.lean): clause sets compared as
   sets of sets after renaming the definition variables along the sub-formula -> variable map both sides
   expose (`_introduced_variables` / `get_term_to_const_dict` vs the model's key table); formulas compared
   modulo AC of and/or and symmetry of =/iff (Props/C11.lean: canon_*).  The simplifier used for literal
   negation is an input of the model: the harness sends the finitely many values of `simplify` it needs.
S  independent of the model, on the implementation's own output, with the reference semantics (Sem driver):
   for sampled (exhaustive when the input is propositional over <= 4 symbols) interpretations I of the original
   symbols *all* values of the auxiliary symbols are enumerated (truth tables as bit sets):
     soundness     every extension satisfying the CNF has eval I f = true
     completeness  eval I f = true  =>  some extension satisfies the CNF
   plus the shape predicates (driver `shape cnf|nouf`, specification side) on the implementation's output;
   Ackermannization: no application left; completeness with c_app := value of app under I; soundness for
   enumerated/sampled values of the fresh constants, with the functions recovered level by level from them.
"""
import itertools

import pysmt.operators as op
from pysmt.environment import Environment
from pysmt.rewritings import CNFizer, PolarityCNFizer, Ackermannizer
import pysmt.rewritings as rewritings_mod
from pysmt.typing import BOOL, INT, FunctionType, ArrayType, BVType

import common
import gen
import semantic
import wire

LEAN_MODULES = ["PySMT.Props.C11"]
RULE = ("instance reuse: sequences of 2-3 formulas sharing sub-formulas / applications through ONE CNFizer / "
        "PolarityCNFizer / Ackermannizer instance, every result checked by S (K: CNF results against the per-call model "
        "modulo the persistent variable table; Ackermann results of a reused instance are S-only, the model is per call); "
        "rule-directed enumeration (every connective over a palette: symbols, their negations, True/False, theory atoms, "
        "Boolean array reads, predicates, nested connectives; negated roots; IFF/ITE with constants) + type-directed random "
        "QF formulas (shared sub-formulas, nested applications f(g(x)+1), predicates, ITE at term and Boolean level); "
        "a CNF case is non-trivial when at least one definition variable occurs in the result, an Ackermann case when at "
        "least one application was replaced; distinct = distinct (procedure, formula) wire encodings")
ASSUMPTIONS = [
    "the simplifier used by the CNFizers to negate literals enters the Lean theorems as a hypothesis (SimpSound/SimpSym/"
    "SimpShape, what C01 proves); S checks the composite on the real code without this assumption",
    "freshness of the definition variables / Ackermann constants: proved for the model of new_fresh_symbol, checked for the "
    "real manager on every K case",
    "interpretations under which a division by zero is evaluated are skipped",
    "arrays: finitely supported interpretations; reals are rationals",
    "S enumerates the auxiliary symbols exhaustively up to 16 of them (larger cases are counted and skipped)",
]

MAX_AUX = 16
CONNECTIVES = (op.AND, op.OR, op.NOT, op.IMPLIES, op.IFF)


# ------------------------------------------------------------------------------------------ generation
class Case:
    """`group`: cases of one group go, in order, through ONE converter instance (instance reuse: the
    memoisation / `_introduced_variables` / `_terms_dict` / `_funs_to_args` tables persist between the calls);
    `ctxf`: the formula whose free symbols the sampled interpretations cover (the whole group)"""
    __slots__ = ("kind", "f", "idx", "stream", "group", "pos", "ctxf", "prev", "env", "earlier_fresh")

    def __init__(self, kind, f, idx, stream, group=None, pos=0, ctxf=None):
        self.kind, self.f, self.idx, self.stream = kind, f, idx, stream
        self.group, self.pos, self.ctxf = group, pos, (ctxf if ctxf is not None else f)
        self.prev = []
        self.env = None            # the Environment of the formula (None: the shared one)
        self.earlier_fresh = 0     # fresh symbols created in that manager before the conversion


def palette(m, uni):
    p, q, r = uni.syms[BOOL]
    x, y = uni.syms[INT][0], uni.syms[INT][1]
    ab = uni.syms[ArrayType(BVType(2), BOOL)][0]
    b2 = uni.syms[BVType(2)][0]
    pU = [f for f in uni.funs if f.symbol_name().endswith("pU")][0]
    c = uni.syms[uni.U][0]
    return [p, q, m.Not(p), m.TRUE(), m.FALSE(), m.LT(x, y), m.Equals(m.Plus(x, m.Int(0)), y), m.Select(ab, b2),
            m.Function(pU, [c]), m.And(p, r), m.Or(q, m.Not(r)), m.Equals(x, x)]


def rule_directed(m, uni, rng, tier):
    pal = palette(m, uni)
    out = []
    bins = [m.And, m.Or, m.Implies, m.Iff]
    for C in bins:
        for a in pal:
            for b in pal:
                out.append(C(a, b))
    for a in pal[:8]:
        for b in pal[:8]:
            for c in pal[:8]:
                out.append(m.Ite(a, b, c))
    # an atom whose simplification is not an atom (F51): a read from a stored array value
    from pysmt.typing import BVType as _BV
    sel = m.Select(m.Store(m.Array(_BV(2), m.FALSE()), m.BV(0, 2), m.And(pal[0], pal[1])), m.BV(0, 2))
    extra = [m.Or(pal[0], m.Not(sel)), m.Iff(pal[1], sel), m.And(pal[0], m.Not(sel)), m.Not(sel), m.Ite(sel, pal[0], pal[1])]
    base = list(out)
    # negated roots, one more level, n-ary
    for f in rng.sample(base, 120 if tier == "quick" else len(base)):
        out.append(m.Not(f))
    for _ in range(110 if tier == "quick" else 3000):
        C = rng.choice(bins)
        out.append(C(rng.choice(base), rng.choice(pal)))
        out.append(m.And(rng.choice(pal), rng.choice(base), rng.choice(pal)))
        out.append(m.Or(rng.choice(pal), m.Not(rng.choice(base)), rng.choice(base)))
    if tier == "quick":
        keep = set(range(0, len(base), 5))
        out = [f for i, f in enumerate(out) if i >= len(base) or i in keep or rng.random() < 0.08]
    return out + extra


def converse_shapes(m, uni):
    """a connective together with the same connective over the same terms in other roles: an implication and its
    converse, two ITEs over the same three terms, iff/and/or with permuted arguments -- under both polarities and
    inside and/or/not contexts (a definition table that forgets the argument order shows up here)"""
    p, q, r = uni.syms[BOOL]
    x, y = uni.syms[INT][0], uni.syms[INT][1]
    lt = m.LT(x, y)
    out = []
    pairs = [(p, q), (p, m.Not(q)), (p, lt), (m.And(p, r), q), (lt, m.Equals(x, y))]
    for a, b in pairs:
        ab, ba = m.Implies(a, b), m.Implies(b, a)
        out += [m.Or(ab, ba), m.And(ab, m.Not(ba)), m.And(m.Not(ab), ba), m.Iff(ab, ba), m.Implies(ab, ba),
                m.Not(m.Or(ab, ba)), m.Not(m.And(ab, m.Not(ba))), m.And(r, m.Or(m.Not(ab), ba)),
                m.Or(r, m.And(ab, m.Not(ba))), m.Ite(ab, ba, r), m.Ite(r, ab, m.Not(ba))]
        for C in (m.And, m.Or, m.Iff):
            c1, c2 = C(a, b), C(b, a)
            out += [m.And(c1, m.Not(c2)), m.Or(m.Not(c1), c2), m.Iff(c1, m.Not(c2))]
    triples = [(p, q, r), (p, m.Not(q), lt), (lt, p, q)]
    for a, b, c in triples:
        i1, i2, i3 = m.Ite(a, b, c), m.Ite(b, a, c), m.Ite(c, b, a)
        for u, v in ((i1, i2), (i1, i3), (i2, i3)):
            out += [m.And(u, m.Not(v)), m.And(m.Not(u), v), m.Or(u, v), m.Iff(u, v), m.Implies(u, v),
                    m.Not(m.Or(u, m.Not(v))), m.And(m.Or(u, a), m.Not(v))]
    return out


def ack_shapes(m, uni):
    """functions of arity 2-3 over Int/Bool/BV; pairs of applications that share constants in some positions and have
    symbols in the others, with equalities / disequalities between the symbols and between the applications, also
    nested -- the shapes on which a missing or wrong consistency constraint is observable"""
    I2, B2 = INT, BVType(2)
    x, y, z = uni.syms[INT]
    p, q, _ = uni.syms[BOOL]
    b0, b1 = uni.syms[B2]
    funs = [m.Symbol("k2", FunctionType(INT, [INT, INT])),
            m.Symbol("k3", FunctionType(INT, [INT, BOOL, INT])),
            m.Symbol("kv", FunctionType(B2, [B2, INT])),
            m.Symbol("kp", FunctionType(BOOL, [INT, INT])),
            m.Symbol("kq", FunctionType(BOOL, [BOOL, B2, BOOL]))]
    consts = {INT: [m.Int(0), m.Int(7)], BOOL: [m.TRUE(), m.FALSE()], B2: [m.BV(0, 2), m.BV(3, 2)]}
    symsA = {INT: x, BOOL: p, B2: b0}
    symsB = {INT: y, BOOL: q, B2: b1}
    out = []
    for F in funs:
        pts = list(F.symbol_type().param_types)
        n = len(pts)
        for cpos in range(n):                      # the position that carries the same literal in both applications
            for ci in (0, 1):
                a1 = [consts[t][ci] if i == cpos else symsA[t] for i, t in enumerate(pts)]
                a2 = [consts[t][ci] if i == cpos else symsB[t] for i, t in enumerate(pts)]
                a3 = [consts[t][1 - ci] if i == cpos else symsB[t] for i, t in enumerate(pts)]
                A1, A2, A3 = m.Function(F, a1), m.Function(F, a2), m.Function(F, a3)
                eqs = m.And([m.EqualsOrIff(u, v) for i, (u, v) in enumerate(zip(a1, a2)) if i != cpos])
                same = m.EqualsOrIff(A1, A2)
                out += [m.And(eqs, m.Not(same)), m.Implies(eqs, same), m.Or(m.Not(eqs), same), m.Not(same),
                        m.And(m.Not(eqs), same), m.And(eqs, m.Not(same), m.Not(m.EqualsOrIff(A2, A3))),
                        m.Iff(eqs, same)]
                rt = F.symbol_type().return_type
                if rt in pts:                          # nested: the application again as an argument
                    j = pts.index(rt)
                    n1 = m.Function(F, [A1 if i == j else a for i, a in enumerate(a1)])
                    n2 = m.Function(F, [A2 if i == j else a for i, a in enumerate(a2)])
                    out += [m.And(eqs, m.Not(m.EqualsOrIff(n1, n2))), m.Implies(eqs, m.EqualsOrIff(n1, n2)),
                            m.And(same, m.Not(m.EqualsOrIff(n1, n2)))]
    # n-ary operators with >= 3 operands over applications (the identity walker rebuilds every node)
    from pysmt.typing import STRING
    sS, tS, uS = (m.Symbol(n, STRING) for n in ("s", "t", "u"))
    fs = m.Symbol("ks", FunctionType(STRING, [INT]))
    fl = m.Symbol("kl", FunctionType(INT, [STRING]))
    k2_ = funs[0]
    kx, ky = m.Function(k2_, [x, y]), m.Function(k2_, [y, x])
    out += [
        m.Equals(m.StrLength(m.StrConcat(sS, tS, uS)), m.Function(k2_, [x, m.Int(0)])),
        m.Equals(m.StrConcat(sS, m.Function(fs, [x]), tS, uS), m.StrConcat(m.Function(fs, [y]), uS, sS)),
        m.And(m.Equals(x, y), m.Not(m.Equals(m.Function(fl, [m.StrConcat(sS, tS, m.Function(fs, [x]))]),
                                             m.Function(fl, [m.StrConcat(sS, tS, m.Function(fs, [y]))])))),
        m.StrContains(m.StrConcat(sS, tS, uS, m.Function(fs, [x])), m.Function(fs, [m.Plus(x, y, m.Int(1))])),
        m.Equals(m.Plus(kx, ky, x, m.Int(1)), m.Times(m.Int(2), kx, m.Int(3))),
        m.LT(m.Plus(x, y, kx), m.Plus(ky, m.Int(1), z, kx)),
        m.And(p, q, m.Function(funs[3], [x, y]), m.Or(m.Not(p), q, m.Function(funs[3], [y, x]), m.Equals(kx, ky))),
        m.Or(m.Function(funs[3], [kx, y]), m.Not(p), m.Function(funs[3], [ky, x]), m.Iff(p, m.Function(funs[3], [x, x]))),
        m.Equals(m.Function(k2_, [m.Plus(x, y, z), m.Times(x, m.Int(2), m.Int(3))]), m.Plus(kx, m.Int(1), ky)),
    ]
    # both positions constant / mixed constants
    k2 = funs[0]
    out += [m.Not(m.Equals(m.Function(k2, [m.Int(0), m.Int(1)]), m.Function(k2, [m.Int(0), m.Int(1)]))),
            m.And(m.Equals(x, m.Int(1)), m.Not(m.Equals(m.Function(k2, [m.Int(0), x]), m.Function(k2, [m.Int(0), m.Int(1)])))),
            m.And(m.Equals(x, y), m.Equals(y, z),
                  m.Not(m.Equals(m.Function(k2, [m.Int(7), x]), m.Function(k2, [m.Int(7), z]))))]
    return out


def ack_directed(m, uni):
    x, y, z = uni.syms[INT]
    p = uni.syms[BOOL][0]
    f = [s for s in uni.funs if s.symbol_name().endswith("f") and s.symbol_type().return_type.is_int_type()
         and len(s.symbol_type().param_types) == 1][0]
    g = [s for s in uni.funs if s.symbol_name().endswith("g")][0]       # Bool x Int -> Bool
    h = [s for s in uni.funs if s.symbol_name().endswith("h")][0]       # Int x Int -> Int
    fx, fy = m.Function(f, [x]), m.Function(f, [y])
    return [
        m.Equals(m.Function(f, [m.Plus(fx, m.Int(1))]), fy),                      # F20
        m.And(m.Equals(x, y), m.Not(m.Equals(fx, fy))),
        m.Not(m.Equals(m.Function(f, [fx]), m.Function(f, [fy]))),
        m.And(m.Function(g, [p, x]), m.Not(m.Function(g, [m.Not(m.Not(p)), y])), m.Equals(x, y)),
        m.Iff(m.Function(g, [m.Function(g, [p, x]), fx]), p),
        m.Equals(m.Function(h, [fx, m.Function(h, [x, fy])]), m.Function(h, [fy, z])),
        m.Equals(m.Function(h, [m.Ite(p, fx, y), z]), m.Function(h, [y, z])),
        m.LT(m.Function(f, [m.Times(m.Int(2), fx)]), m.Function(f, [m.Plus(fx, fx)])),
        m.Equals(fx, x), m.Equals(fx, fx), m.Function(g, [m.TRUE(), fx]),
    ]


def fresh_name_cases(rng, tier, start):
    """inputs whose own symbols are named like the generated ones (`FV<n>` Boolean and of other sorts, `ack<n>` of
    Int / BV / Bool sort), each in a manager of its own in which 0-3 fresh symbols were created before: the
    definition variables / Ackermann constants must avoid them (what `KeysFresh` / `ConstsFresh` assume)"""
    out = []
    n_cnf = 36 if tier == "quick" else 400
    n_ack = 30 if tier == "quick" else 300
    for j in range(n_cnf + n_ack):
        env = Environment()
        m = env.formula_manager
        k = j % 4
        for _ in range(k):
            m.FreshSymbol()
        a, b = m.Symbol("a"), m.Symbol("b")
        if j < n_cnf:
            ns = rng.sample(range(k, 10), 3)
            v = [m.Symbol("FV%d" % n) for n in ns]
            w = m.Symbol("FV%d" % rng.choice([n for n in range(10) if n not in ns and n >= k]), INT)
            shapes = [
                m.And(m.Not(v[0]), m.Or(a, b), m.Implies(v[1], a)),
                m.Or(m.And(v[0], a), m.And(v[1], m.Not(a)), m.And(v[2], b)),
                m.Iff(v[2], m.And(a, m.Or(v[0], b))),
                m.And(m.Or(a, b), m.Not(v[0]), m.Or(m.Not(a), v[1], m.Equals(w, m.Int(1)))),
                m.Ite(v[0], m.Or(a, v[1]), m.And(b, m.Not(v[2]))),
                m.Not(m.Implies(m.Or(v[0], a), m.And(v[1], m.LT(w, m.Int(3))))),
            ]
            f = shapes[(j // 4) % len(shapes)]
            c = Case("cnf", f, start + len(out), "fresh-names")
        else:
            ns = rng.sample(range(k, 10), 3)
            x = m.Symbol("x", INT)
            ai = m.Symbol("ack%d" % ns[0], INT)
            ab = m.Symbol("ack%d" % ns[1], BOOL)
            av = m.Symbol("ack%d" % ns[2], BVType(2))
            fi = m.Symbol("f", FunctionType(INT, [INT]))
            fp = m.Symbol("pr", FunctionType(BOOL, [INT]))
            fv = m.Symbol("fb", FunctionType(BVType(2), [INT, BOOL]))
            shapes = [
                m.And(m.Equals(ai, m.Int(0)), m.Equals(m.Function(fi, [x]), m.Int(1))),
                m.And(m.Not(ab), m.Function(fp, [x]), m.Not(m.Function(fp, [ai]))),
                m.And(m.Equals(av, m.BV(0, 2)), m.Equals(m.Function(fv, [x, ab]), m.BV(3, 2)),
                      m.Equals(m.Function(fv, [ai, a]), m.BV(1, 2))),
                m.Or(m.Equals(m.Function(fi, [m.Function(fi, [ai])]), ai), m.Iff(ab, m.Function(fp, [m.Function(fi, [x])]))),
                m.And(m.Equals(x, ai), m.Not(m.Equals(m.Function(fi, [x]), m.Function(fi, [ai]))), ab),
            ]
            f = shapes[(j // 4) % len(shapes)]
            c = Case("ack", f, start + len(out), "fresh-names")
        c.env = env
        c.earlier_fresh = k
        out.append(c)
    return out


def gen_cases(rng, tier):
    env = Environment()
    m = env.formula_manager
    uni = gen.Universe(env, theories=("bool", "int", "bv", "arr", "uf"), widths=(1, 2, 3))
    cases = []
    for f in rule_directed(m, uni, rng, tier):
        cases.append(("cnf", f, "rule"))
    for f in converse_shapes(m, uni):
        cases.append(("cnf", f, "converse"))
    # Boolean constants in every position (the input is not simplified, so they survive into the walk)
    pa, pb = uni.syms[BOOL][0], uni.syms[BOOL][1]
    cpal = [pa, m.Not(pb), m.TRUE(), m.FALSE()]
    cbase = []
    for C in (m.And, m.Or, m.Implies, m.Iff):
        for u_ in cpal:
            for v_ in cpal:
                if u_.is_bool_constant() or v_.is_bool_constant():
                    cbase.append(C(u_, v_))
    for u_ in cpal:
        for v_ in cpal:
            for w_ in cpal:
                if sum(1 for z in (u_, v_, w_) if z.is_bool_constant()) >= 1:
                    cbase.append(m.Ite(u_, v_, w_))
    cbase += [m.Not(m.TRUE()), m.Not(m.FALSE()), m.TRUE(), m.FALSE(), m.And(pa, pb, m.FALSE()), m.Or(pa, pb, m.TRUE())]
    for g in cbase:
        cases.append(("cnf", g, "consts"))
    for g in (cbase if tier != "quick" else cbase[::3]):
        cases.append(("cnf", m.Not(g), "consts"))
        cases.append(("cnf", m.And(pb, g), "consts"))
        cases.append(("cnf", m.Or(m.Not(pa), g), "consts"))
        cases.append(("cnf", m.Implies(g, pa), "consts"))
    # roots that are not formulas (K only: both converters raise, the model says which exception)
    xi, yi = uni.syms[INT][0], uni.syms[INT][1]
    fi = [s for s in uni.funs if s.symbol_type().return_type.is_int_type() and len(s.symbol_type().param_types) == 1][0]
    ai = uni.syms[ArrayType(INT, INT)][0]
    bv = uni.syms[BVType(2)][0]
    for f in [m.Int(1), xi, m.Plus(xi, m.Int(1)), m.Ite(uni.syms[BOOL][0], xi, m.Int(2)), m.Select(ai, xi),
              m.Function(fi, [xi]), m.BV(1, 2), m.BVAdd(bv, bv), m.Store(ai, xi, yi), m.Times(xi, yi),
              m.Ite(m.And(uni.syms[BOOL][0], uni.syms[BOOL][1]), m.Function(fi, [xi]), yi)]:
        cases.append(("cnf", f, "non-boolean-root"))
    fg = gen.FormulaGen(rng, uni, max_depth=4, quant_prob=0.0, share_prob=0.3)
    n_rand = 200 if tier == "quick" else 9000
    for _ in range(n_rand):
        d = rng.choice([2, 3, 3, 4])
        f = fg.gen(BOOL, d)
        if rng.random() < 0.2:
            f = m.Not(f)
        cases.append(("cnf", f, "random"))
    shapes_ack = ack_directed(m, uni) + ack_shapes(m, uni)
    for f in shapes_ack:
        cases.append(("ack", f, "rule"))
    # a fresh Ackermannizer object per formula, in ONE environment, over applications earlier objects have seen:
    # the same shapes again in another order (every application of these was converted by an earlier object)
    again = list(reversed(shapes_ack))
    for f in (again if tier != "quick" else again[::2]):
        cases.append(("ack", f, "fresh-object-shared-apps"))
    fga = gen.FormulaGen(rng, uni, max_depth=4, quant_prob=0.0, share_prob=0.35)
    n_ack = 150 if tier == "quick" else 5000
    tries = 0
    while n_ack > 0 and tries < 40 * (150 if tier == "quick" else 5000):
        tries += 1
        f = fga.gen(BOOL, rng.choice([2, 3, 3, 4]))
        napp = sum(1 for s in subterms(f) if s.is_function_application())
        if napp == 0 and rng.random() < 0.9:
            continue
        if napp > 7:
            continue
        cases.append(("ack", f, "random"))
        n_ack -= 1
    out = [Case(k, f, i, s) for i, (k, f, s) in enumerate(cases)]
    # ---- instance reuse: sequences of 2-3 formulas sharing sub-formulas / applications through one instance
    seqs = []
    conv = converse_shapes(m, uni)
    step = 5 if tier == "quick" else 1
    for i in range(0, len(conv) - 2, step):
        seqs.append(("cnf", conv[i:i + 3]))
    pal = palette(m, uni)
    for C in (m.And, m.Or, m.Implies, m.Iff):
        for a, b in ((pal[0], pal[1]), (pal[5], pal[2]), (pal[9], pal[7])):
            g = C(a, b)
            seqs.append(("cnf", [g, m.Not(g), m.And(pal[1], m.Or(g, pal[3]))]))
            seqs.append(("cnf", [m.Or(pal[0], m.Not(g)), g]))
    shp = ack_shapes(m, uni)
    stepa = 9 if tier == "quick" else 1
    for i in range(0, len(shp) - 2, stepa):
        w = shp[i:i + 3]
        seqs.append(("ack", w if (i // stepa) % 2 == 0 else list(reversed(w))))
        seqs.append(("ack", [w[1], w[0]]))
    rnd = [c.f for c in out if c.kind == "ack" and c.stream == "random"]
    for i in range(0, min(len(rnd), 40 if tier == "quick" else 2000) - 1, 2):
        seqs.append(("ack", [rnd[i], rnd[i + 1], rnd[i]]))
    out.extend(fresh_name_cases(rng, tier, len(out)))
    for gi, (k, fs) in enumerate(seqs):
        ctxf = m.And(fs)
        for pos, f in enumerate(fs):
            c = Case(k, f, len(out), "reuse", group=gi, pos=pos, ctxf=ctxf)
            c.prev = [semantic.readable(g, 200) for g in fs[:pos]]
            out.append(c)
    return env, uni, out


def subterms(f):
    seen, out, stack = set(), [], [f]
    while stack:
        n = stack.pop()
        if id(n) in seen:
            continue
        seen.add(id(n))
        out.append(n)
        stack.extend(n.args())
    return out


# ------------------------------------------------------------------------------------------ helpers
def is_bool_ite(f, env):
    return f.is_ite() and env.stc.get_type(f).is_bool_type()


def bool_atoms(f, env):
    """atoms at Boolean positions (the walk of PolarityCNFizer)"""
    seen, out, stack = set(), [], [f]
    while stack:
        n = stack.pop()
        if id(n) in seen:
            continue
        seen.add(id(n))
        if n.node_type() in CONNECTIVES or is_bool_ite(n, env):
            stack.extend(n.args())
        else:
            out.append(n)
    return out


def simp_table(f, env):
    """the values of `simplify` the model needs: atoms, their simplifications, what a stripped negation exposes"""
    pairs, seen = [], set()
    work = [a for a in bool_atoms(f, env) if not a.is_bool_constant() and not a.is_symbol()]
    while work and len(pairs) < 60:
        t = work.pop()
        if id(t) in seen:
            continue
        seen.add(id(t))
        s = env.simplifier.simplify(t)
        if s is not t:
            pairs.append((t, s))
            work.append(s)
        if s.is_not():
            work.append(s.arg(0))
    return pairs


def node_keys(nodes, rename=None, ac=()):
    import hashlib
    keys = []
    for (o, p, ch) in nodes:
        if rename and p is not None and p[0] == "y" and p[1] in rename:
            p = ("y", rename[p[1]], p[2])
        ck = [keys[c] for c in ch]
        if o in ac:
            ck = sorted(ck)
        keys.append(hashlib.blake2b(repr((o, p, ck)).encode(), digest_size=12).hexdigest())
    return keys


def term_key(f, rename=None, ac=()):
    return node_keys(wire.dec_term(wire.enc_term(f)), rename, ac)[-1]


def is_atom(f, env):
    if not env.stc.get_type(f).is_bool_type():
        return False
    nt = f.node_type()
    if nt in CONNECTIVES or nt in (op.BOOL_CONSTANT, op.FORALL, op.EXISTS):
        return False
    if is_bool_ite(f, env):
        return False
    return True


def is_literal(f, env):
    if f.is_not():
        return is_atom(f.arg(0), env)
    return is_atom(f, env)


def shape_clauses_py(cs, mgr, env):
    """python-side reading of the advertised form (same definition as CNF.shapeClauses)"""
    if len(cs) == 1:
        (c,) = cs
        if len(c) == 0 or (len(c) == 1 and next(iter(c)).is_bool_constant()):
            return None
    for c in cs:
        for l in c:
            if not is_literal(l, env):
                return l
    return None


def root_name(f):
    return wire.OPNAMES[f.node_type()]


def truth_tables(n):
    N = 1 << n
    ALL = (1 << N) - 1
    tabs = []
    for i in range(n):
        blk = 1 << i
        unit = ((1 << blk) - 1) << blk
        rep = ALL // ((1 << (2 * blk)) - 1)
        tabs.append(unit * rep)
    return ALL, tabs


# ------------------------------------------------------------------------------------------ interpretation sampling
def interps_for(f, ig, rng, k):
    """-> list of (syms, fns, doms).  Exhaustive over <= 4 Boolean symbols when nothing else is free."""
    fv = sorted(f.get_free_variables(), key=lambda s: s.symbol_name())
    if fv and all(s.symbol_type().is_bool_type() for s in fv) and len(fv) <= 4:
        out = []
        for bits in itertools.product([False, True], repeat=len(fv)):
            out.append(([(s.symbol_name(), BOOL, b) for s, b in zip(fv, bits)], [], ig.domains()))
        return out
    out = []
    for j in range(k):
        syms, fns, doms = ig.for_formula(f)
        if j % 3 == 1:
            # small values make equalities between arguments likely
            syms = [(n, t, (rng.choice([0, 1]) if t.is_int_type() else
                            ("bv", t.width, rng.choice([0, 1])) if t.is_bv_type() else v)) for (n, t, v) in syms]
        elif j % 3 == 2:
            # all symbols of one sort get the same value: every equality between symbols holds
            per = {}
            syms = [(n, t, per.setdefault(str(t), v)) for (n, t, v) in syms]
        out.append((syms, fns, doms))
    return out


def case_rng(ctx, idx):
    """interpretations of a case depend on (seed, case index) only, so that a replay samples the same ones"""
    import random
    return random.Random((ctx.seed << 24) ^ (idx * 2654435761 % (1 << 24)))


def show_interp(I):
    syms, fns, _ = I
    d = {n: repr(v) for n, _, v in syms}
    for n, _, tab, dflt in fns:
        d[n] = "{%s; else %r}" % (", ".join("%r->%r" % (a, r) for a, r in tab), dflt)
    return d


# ------------------------------------------------------------------------------------------ CNF
class CnfRun:
    """one (formula, converter) pair on the implementation side"""

    def __init__(self, case, which, env, conv=None):
        self.case, self.which = case, which
        f = case.f
        if conv is None:
            conv = (CNFizer if which == "cnf" else PolarityCNFizer)(env)
        self.err = None
        self.cs = self.formula = None
        self.iv = {}
        try:
            self.cs = conv.convert(f)
            self.formula = conv.convert_as_formula(f)
            self.iv = dict(conv._introduced_variables)
        except (AssertionError, NotImplementedError, KeyError, TypeError, ValueError, AttributeError) as e:
            self.err = type(e).__name__
        if self.cs is not None:
            fv = f.get_free_variables()
            syms = set()
            for c in self.cs:
                for l in c:
                    syms |= set(l.get_free_variables())
            self.aux = sorted(syms - set(fv), key=lambda s: s.symbol_name())


def run_cnf(ctx, env, cases, ig):
    mgr = env.formula_manager
    runs, lines, meta = [], [], []
    shared = {}
    default_env = env
    for case in cases:
        f = case.f
        env = case.env or default_env
        try:
            fw = wire.enc_term(f)
            tbl = simp_table(f, env)
            tw = " ".join("%s %s" % (wire.enc_term(a), wire.enc_term(b)) for a, b in tbl)
        except wire.OutOfFragment:
            ctx.count("out_of_fragment")
            continue
        except Exception as e:      # simplify itself failed: not this property's business
            ctx.count("simplify_error_" + type(e).__name__)
            continue
        for which in ("cnf", "pcnf"):
            conv = None
            if case.group is not None:
                gk = (case.group, which)
                if gk not in shared:
                    shared[gk] = (CNFizer if which == "cnf" else PolarityCNFizer)(env)
                conv = shared[gk]
            r = CnfRun(case, which, env, conv)
            runs.append(r)
            lines.append("%s %s %d %s" % (which, fw, len(tbl), tw))
            meta.append(r)
            if r.formula is not None:
                lines.append("shape cnf " + wire.enc_term(r.formula))
                meta.append(("shape", r))
    # ---- K
    try:
        answers = ctx.lean_run_sharded("C11", lines)
    except common.LeanError as e:
        ctx.report_l("driver C11 does not run", str(e))
        answers = [None] * len(lines)
    shape_ans = {}
    for line, ans, mt in zip(lines, answers, meta):
        if isinstance(mt, tuple):
            shape_ans[id(mt[1])] = ans
            continue
        r = mt
        if ans is None:
            continue
        try:
            compare_cnf(ctx, r, line, ans, r.case.env or default_env)
        except Exception as e:
            ctx.report_k("%s: the results cannot be compared (%r)" % (r.which, e),
                         {"proc": r.which, "formula": semantic.readable(r.case.f), "index": r.case.idx})
    # ---- S
    search_cnf(ctx, default_env, runs, shape_ans, ig)


def compare_cnf(ctx, r, line, ans, env):
    f = r.case.f
    rep = {"proc": r.which, "formula": semantic.readable(f), "index": r.case.idx, "request": line[:6000], "lean": ans[:3000]}
    if ans.startswith("bad-op"):
        ctx.infra("C11 driver rejected a request: %s :: %s" % (ans, semantic.readable(f)))
        return
    if r.err is not None:
        if ans != "err " + r.err:
            rep["impl"] = "err " + r.err
            ctx.report_k("%s: implementation raises %s, model answers %s" % (r.which, r.err, ans[:40]), rep)
        return
    if not ans.startswith("ok "):
        rep["impl"] = str(r.cs)[:1000]
        ctx.report_k("%s: model answers %s, implementation returns clauses" % (r.which, ans[:40]), rep)
        return
    tk = wire.Tok(ans)
    tk.next()
    cont = wire.dec_term(tk)
    form = wire.dec_term(tk)
    m = tk.nat()
    mkeys = {}
    for _ in range(m):
        name = wire.unhex(tk.next())
        g = wire.dec_term(tk)
        mkeys[node_keys(g)[-1]] = name
    # rename implementation variables to the model's along the sub-formula
    rename, used_names = {}, set()
    for g, v in r.iv.items():
        try:
            k = term_key(g)
            if k in mkeys:
                rename[v.symbol_name()] = mkeys[k]
        except Exception:           # the implementation's table no longer maps formulas to symbols
            continue
    # freshness of the implementation's definition variables (what the theorems assume)
    fvnames = {s.symbol_name() for s in f.get_free_variables()}
    auxnames = [v.symbol_name() for v in r.iv.values() if hasattr(v, "symbol_name")]
    if len(set(auxnames)) != len(auxnames) or fvnames & set(auxnames):
        ctx.report_k("%s: definition variables are not fresh" % r.which, dict(rep, aux=auxnames))
    impl_set = set()
    for c in r.cs:
        impl_set.add(frozenset(term_key(l, rename) for l in c))
    ck = node_keys(cont)
    model_set = set()
    root = cont[-1]
    for ci in root[2]:
        model_set.add(frozenset(ck[li] for li in cont[ci][2]))
    if impl_set != model_set:
        rep["impl"] = sorted(sorted(str(l) for l in c) for c in r.cs)
        rep["rename"] = rename
        ctx.report_k("%s: clause sets differ" % r.which, rep)
        return
    fk_impl = term_key(r.formula, rename, ac=("and", "or"))
    fk_model = node_keys(form, None, ac=("and", "or"))[-1]
    if fk_impl != fk_model:
        rep["impl"] = semantic.readable(r.formula)
        ctx.report_k("%s: convert_as_formula differs" % r.which, rep)


def search_cnf(ctx, env, runs, shape_ans, ig):
    mgr = env.formula_manager
    k = 3 if ctx.tier == "quick" else 5
    sem_lines, sem_idx = [], {}

    def ask(I, iline, t):
        key = (id(I), id(t))
        if key not in sem_idx:
            sem_idx[key] = len(sem_lines)
            sem_lines.append("evalc %s %s" % (iline, wire.enc_term(t)))
        return sem_idx[key]

    plans = []
    by_case = {}
    for r in runs:
        by_case.setdefault(r.case.idx, []).append(r)
    default_env = env
    for idx, rs in by_case.items():
        f = rs[0].case.f
        env = rs[0].case.env or default_env
        mgr = env.formula_manager
        crng = case_rng(ctx, idx)
        ig.rng = crng
        interps = interps_for(rs[0].case.ctxf, ig, crng, k)
        ilines = [wire.enc_interp(*I) for I in interps]
        for r in rs:
            nontriv = None
            if r.err is None and r.aux:
                nontriv = r.which + " " + wire.enc_term(f)
            ctx.case(nontriv)
            ctx.count("proc_" + r.which)
            ctx.count("root_" + root_name(f))
            if r.err is not None and not env.stc.get_type(f).is_bool_type():
                ctx.count("non_boolean_root_raises_" + r.err)      # outside the property; K compares the exception
                continue
            if r.err is not None:
                atom = next((a for a in bool_atoms(f, env) if a.is_select()), None)
                ctx.report_s({"oracle": "total", "proc": r.which, "error": r.err,
                              "atom": "arraySelect" if atom is not None else "other"},
                             "%s raises %s on a quantifier-free Boolean formula" % (r.which, r.err),
                             {"proc": r.which, "formula": semantic.readable(f), "index": r.case.idx,
                              "stream": r.case.stream})
                continue
            # freshness: no introduced symbol is a symbol of the input
            clash = sorted(v.symbol_name() for v in set(r.iv.values()) & set(f.get_free_variables())
                           if hasattr(v, "symbol_name"))
            if clash:
                ctx.report_s({"oracle": "fresh", "proc": r.which},
                             "%s: the definition variable %s is a symbol of the input" % (r.which, clash[0]),
                             {"proc": r.which, "formula": semantic.readable(f), "index": r.case.idx,
                              "stream": r.case.stream, "clashing_symbols": clash,
                              "fresh_symbols_created_earlier_in_the_manager": r.case.earlier_fresh,
                              "clauses": sorted(sorted(str(l) for l in c) for c in r.cs)})
            # shape
            bad = shape_clauses_py(r.cs, mgr, env)
            sa = shape_ans.get(id(r))
            if bad is not None or sa == "false":
                kind = "negated-constant" if (bad is not None and bad.is_not() and bad.arg(0).is_bool_constant()) else \
                       "constant" if (bad is not None and bad.is_bool_constant()) else \
                       "negated-non-atom" if (bad is not None and bad.is_not()) else "other"
                # where does it come from: an atom of the input whose simplification is not a literal
                src = "other"
                for a in bool_atoms(f, env):
                    sa_ = env.simplifier.simplify(a)
                    if not sa_.is_bool_constant() and not is_literal(sa_, env) and bad is not None \
                            and bad.is_not() and bad.arg(0) is sa_:
                        src = "simplify(%s)" % root_name(a)
                ctx.report_s({"oracle": "shape", "proc": r.which, "literal": kind, "source": src},
                             "%s: a clause member is not a literal: %s" % (r.which, bad),
                             {"proc": r.which, "formula": semantic.readable(f), "index": r.case.idx,
                              "stream": r.case.stream, "clauses": sorted(sorted(str(l) for l in c) for c in r.cs),
                              "driver_shape": sa})
            elif sa is not None and sa != "true":
                ctx.infra("shape request answered %s" % sa)
            # the routes by which the result is delivered: the set (`convert`), the formula (`convert_as_formula`),
            # and for the plain CNFizer the module functions `cnf_as_set` / `cnf` (a fresh instance each)
            routes = [("convert", [list(c) for c in r.cs])]
            if r.formula is not None:
                fr = read_back(r.formula)
                routes.append(("convert_as_formula", fr))
                if norm_clauses(fr) != norm_clauses(r.cs):
                    ctx.report_s({"oracle": "formula-route", "proc": r.which},
                                 "%s: convert_as_formula is not the conjunction of the clauses of convert" % r.which,
                                 {"proc": r.which, "formula": semantic.readable(f), "index": r.case.idx,
                                  "stream": r.case.stream, "convert_as_formula": semantic.readable(r.formula, 1500),
                                  "clauses": sorted(sorted(str(l) for l in c) for c in r.cs)})
            if r.which == "cnf" and r.case.group is None and r.case.stream != "random":
                try:
                    routes.append(("cnf_as_set()", [list(c) for c in rewritings_mod.cnf_as_set(f, env)]))
                    routes.append(("cnf()", read_back(rewritings_mod.cnf(f, env))))
                except Exception as e:
                    ctx.report_s({"oracle": "total", "proc": "cnf()", "error": type(e).__name__},
                                 "cnf()/cnf_as_set() raise %s where CNFizer.convert answers" % type(e).__name__,
                                 {"proc": "cnf()", "formula": semantic.readable(f), "index": r.case.idx,
                                  "stream": r.case.stream})
            fvs = set(f.get_free_variables())
            for (route, rcs) in routes:
                syms = set()
                for c in rcs:
                    for l in c:
                        syms |= set(l.get_free_variables())
                aux = sorted(syms - fvs, key=lambda s_: s_.symbol_name())
                if len(aux) > MAX_AUX:
                    ctx.count("skipped_too_many_aux")
                    continue
                auxset = {id(a): i for i, a in enumerate(aux)}
                # literal -> ("aux", i, neg) | ("atom", term, neg)
                cl = []
                for c in rcs:
                    lits = []
                    for l in c:
                        neg = False
                        a = l
                        if l.is_not() and id(l.arg(0)) in auxset:
                            neg, a = True, l.arg(0)
                        if id(a) in auxset:
                            lits.append(("aux", auxset[id(a)], neg))
                        else:
                            lits.append(("atom", l, False))
                    cl.append(lits)
                for j, (I, il) in enumerate(zip(interps, ilines)):
                    try:
                        fi = ask(I, il, f)
                        need = {}
                        for lits in cl:
                            for (kind, t, _) in lits:
                                if kind == "atom":
                                    need[id(t)] = ask(I, il, t)
                    except wire.OutOfFragment:
                        ctx.count("out_of_fragment")
                        continue
                    plans.append((r, j, I, fi, need, cl, route, aux, rcs))
        if len(ctx.samples) < 4 and rs[0].cs is not None:
            ctx.sample({"formula": semantic.readable(f), "cnf": sorted(sorted(str(l) for l in c) for c in rs[0].cs)[:12]})
    try:
        sem = ctx.lean_run_sharded("Sem", sem_lines)
    except common.LeanError as e:
        ctx.report_l("driver Sem does not run", str(e))
        return
    tt_cache = {}
    for (r, j, I, fi, need, cl, route, aux, rcs) in plans:
        fv = sem[fi]
        if fv == "div0" or any(sem[i] == "div0" for i in need.values()):
            ctx.count("skipped_div0")
            continue
        if fv.startswith("bad-op") or any(sem[i].startswith("bad-op") for i in need.values()):
            ctx.infra("Sem driver rejected a request: %s" % fv)
            continue
        f_true = (fv == "b 1")
        n = len(aux)
        if n not in tt_cache:
            tt_cache[n] = truth_tables(n)
        ALL, tabs = tt_cache[n]
        sat = ALL
        for lits in cl:
            c = 0
            for (kind, t, neg) in lits:
                if kind == "aux":
                    c |= (ALL ^ tabs[t]) if neg else tabs[t]
                else:
                    if sem[need[id(t)]] == "b 1":
                        c = ALL
                        break
            sat &= c
            if sat == 0:
                break
        ctx.count("S_checked_" + r.which)
        ctx.count("S_route_" + route)
        f = r.case.f
        rep = {"proc": r.which, "route": route, "formula": semantic.readable(f), "index": r.case.idx,
               "stream": r.case.stream, "earlier_calls_on_the_same_instance": r.case.prev,
               "interpretation": show_interp(I), "clauses": sorted(sorted(str(l) for l in c) for c in rcs),
               "value_of_input": fv}
        if not f_true and sat != 0:
            w = (sat & -sat).bit_length() - 1
            rep["aux_assignment"] = {a.symbol_name(): bool((w >> i) & 1) for i, a in enumerate(aux)}
            ctx.report_s({"oracle": "equisat", "dir": "sound", "proc": r.which, "route": route, "shape": shape_sig(f)},
                         "%s (%s): an interpretation falsifying the input satisfies the CNF" % (r.which, route), rep)
        elif f_true and sat == 0:
            ctx.report_s({"oracle": "equisat", "dir": "complete", "proc": r.which, "route": route,
                          "shape": shape_sig(f)},
                         "%s (%s): the input holds but no values of the definition variables satisfy the CNF"
                         % (r.which, route), rep)


def read_back(F):
    """a formula produced by a formula route, read as a set of clauses (And of Or of literals; TRUE = no clause,
    FALSE = the empty clause)"""
    def clause(c):
        if c.is_false():
            return []
        return list(c.args()) if c.is_or() else [c]
    if F.is_true():
        return []
    if F.is_and():
        return [clause(c) for c in F.args()]
    return [clause(F)]


def norm_clauses(cs):
    """semantic normal form used to compare the set route with the formula route: clauses containing True dropped,
    False literals dropped, an emptied clause = unsatisfiable"""
    out = set()
    for c in cs:
        if any(l.is_true() for l in c):
            continue
        c2 = frozenset(l for l in c if not l.is_false())
        if not c2:
            return frozenset([frozenset()])
        out.add(c2)
    return frozenset(out)


def shape_sig(f):
    a = ",".join(sorted({root_name(c) for c in f.args()}))
    return "%s(%s)" % (root_name(f), a)


# ------------------------------------------------------------------------------------------ Ackermann
def type_values(ty, pool):
    if ty.is_bool_type():
        return [False, True]
    if ty.is_int_type():
        return sorted({0, 1} | {v for v in pool if isinstance(v, int) and not isinstance(v, bool)})[:3]
    if ty.is_bv_type():
        return [("bv", ty.width, 0), ("bv", ty.width, (1 << ty.width) - 1)]
    return [("u", str(ty), 0), ("u", str(ty), 1)]


def depth(f, memo):
    if id(f) in memo:
        return memo[id(f)]
    d = 1 + max([depth(a, memo) for a in f.args()] or [0])
    memo[id(f)] = d
    return d


def run_ack(ctx, env, cases, ig):
    mgr = env.formula_manager
    lines, meta = [], []
    runs = []
    shared = {}
    default_env = env
    for case in cases:
        f = case.f
        env = case.env or default_env
        if case.group is not None:
            if case.group not in shared:
                shared[case.group] = Ackermannizer(env)
            ak = shared[case.group]
        else:
            ak = Ackermannizer(env)
        err = res = None
        try:
            res = ak.do_ackermannization(f)
            td = dict(ak.get_term_to_const_dict())
        except (AssertionError, KeyError, TypeError, ValueError, AttributeError, NotImplementedError) as e:
            err, td = type(e).__name__, {}
        try:
            fw = wire.enc_term(f)
            rw = wire.enc_term(res) if res is not None else None
        except wire.OutOfFragment:
            ctx.count("out_of_fragment")
            continue
        r = {"case": case, "res": res, "td": td, "err": err}
        runs.append(r)
        if case.pos == 0:
            # the Lean model is per call: a reused instance (tables of the earlier calls kept) is checked by S only
            lines.append("ack " + fw)
            meta.append(("ack", r))
        else:
            ctx.count("ack_reuse_S_only")
        if rw is not None:
            lines.append("shape nouf " + rw)
            meta.append(("shape", r))
    try:
        answers = ctx.lean_run_sharded("C11", lines)
    except common.LeanError as e:
        ctx.report_l("driver C11 does not run", str(e))
        answers = [None] * len(lines)
    for line, ans, (kind, r) in zip(lines, answers, meta):
        if ans is None:
            continue
        if kind == "shape":
            r["shape"] = ans
        else:
            try:
                compare_ack(ctx, r, line, ans)
            except Exception as e:
                ctx.report_k("ack: the results cannot be compared (%r)" % (e,),
                             {"proc": "ack", "formula": semantic.readable(r["case"].f), "index": r["case"].idx})
    search_ack(ctx, default_env, runs, ig)


def compare_ack(ctx, r, line, ans):
    f = r["case"].f
    rep = {"proc": "ack", "formula": semantic.readable(f), "index": r["case"].idx, "request": line[:6000], "lean": ans[:3000]}
    if ans.startswith("bad-op"):
        ctx.infra("C11 driver rejected a request: %s :: %s" % (ans, semantic.readable(f)))
        return
    if r["err"] is not None:
        rep["impl"] = "err " + r["err"]
        ctx.report_k("ack: implementation raises %s" % r["err"], rep)
        return
    tk = wire.Tok(ans)
    tk.next()
    form = wire.dec_term(tk)
    m = tk.nat()
    mkeys = {}
    for _ in range(m):
        name = wire.unhex(tk.next())
        ty = wire.dec_type(tk)
        g = wire.dec_term(tk)
        mkeys[node_keys(g)[-1]] = (name, ty)
    rename = {}
    ok_types = True
    for app, c in r["td"].items():
        k = term_key(app)
        if k in mkeys:
            rename[c.symbol_name()] = mkeys[k][0]
            if wire.dec_type(wire.Tok(wire.enc_type(c.symbol_type()))) != mkeys[k][1]:
                ok_types = False
    if len(rename) != len(mkeys) or len(r["td"]) != len(mkeys) or not ok_types:
        rep["impl"] = {str(a): str(c) for a, c in r["td"].items()}
        ctx.report_k("ack: the application -> constant tables differ", rep)
        return
    fvnames = {s.symbol_name() for s in f.get_free_variables()}
    cn = [c.symbol_name() for c in r["td"].values()]
    if len(set(cn)) != len(cn) or fvnames & set(cn):
        ctx.report_k("ack: the constants are not fresh", dict(rep, consts=cn))
    ac = ("and", "or", "equals", "iff")
    if term_key(r["res"], rename, ac) != node_keys(form, None, ac)[-1]:
        rep["impl"] = semantic.readable(r["res"], 2000)
        ctx.report_k("ack: results differ", rep)


def search_ack(ctx, env, runs, ig):
    mgr = env.formula_manager
    nJ = 24 if ctx.tier == "quick" else 64
    kI = 3 if ctx.tier == "quick" else 5
    # ---------------- round 1: eval I f, values of the applications under I, candidate J's
    lines = []

    def ask(line):
        lines.append(line)
        return len(lines) - 1

    todo = []
    for r in runs:
        case = r["case"]
        f = case.f
        nontriv = ("ack " + wire.enc_term(f)) if r["td"] else None
        ctx.case(nontriv)
        ctx.count("proc_ack")
        ctx.count("ack_apps_%d" % min(len(r["td"]), 6))
        if r["err"] is not None:
            ctx.report_s({"oracle": "total", "proc": "ack", "error": r["err"]},
                         "Ackermannizer raises %s on a quantifier-free formula" % r["err"],
                         {"proc": "ack", "formula": semantic.readable(f), "index": case.idx, "stream": case.stream})
            continue
        res, td_all = r["res"], r["td"]
        res_syms = set(res.get_free_variables())
        sub_f = {id(x) for x in subterms(case.ctxf)}
        # the implementation's table may hold applications of other calls / other objects: only the constants that
        # occur in this result and the applications of this input matter here
        td = {a: c for a, c in td_all.items() if c in res_syms or id(a) in sub_f}
        r["td"] = td
        left = [s for s in subterms(res) if s.is_function_application()]
        if left or r.get("shape") == "false":
            nested = any(any(not a.is_function_application() and any(x.is_function_application() for x in subterms(a))
                             for a in app.args()) for app in td)
            ctx.report_s({"oracle": "shape", "proc": "ack",
                          "where": "application-inside-non-application-argument" if nested else "other"},
                         "the Ackermannization still contains the application %s" % (left[0] if left else "?"),
                         {"proc": "ack", "formula": semantic.readable(f), "index": case.idx, "stream": case.stream,
                          "result": semantic.readable(res, 2000), "driver_shape": r.get("shape")})
            continue
        clash = sorted(c.symbol_name() for c in set(td.values()) & set(case.ctxf.get_free_variables()))
        if clash:
            ctx.report_s({"oracle": "fresh", "proc": "ack"},
                         "the Ackermann constant %s is a symbol of the input" % clash[0],
                         {"proc": "ack", "formula": semantic.readable(f), "index": case.idx, "stream": case.stream,
                          "clashing_symbols": clash, "result": semantic.readable(res, 1500),
                          "fresh_symbols_created_earlier_in_the_manager": case.earlier_fresh,
                          "constants": {str(a): str(c) for a, c in td.items()}})
        # the rewritten input is the input with applications replaced, nothing else: substituting the applications
        # back for their constants must give the input again (as the result itself or its last conjunct)
        try:
            back = (case.env or env).substituter.substitute(res, {c: a for a, c in td.items()})
            cands = [back] + (list(back.args()) if back.is_and() else [])
            if not any(x is f for x in cands):
                ctx.report_s({"oracle": "rebuild", "proc": "ack", "shape": shape_sig(f)},
                             "the result is not the input with its applications replaced by constants "
                             "(plus consistency constraints)",
                             {"proc": "ack", "formula": semantic.readable(f), "index": case.idx, "stream": case.stream,
                              "result": semantic.readable(res, 1500),
                              "result_with_applications_substituted_back": semantic.readable(back, 1500),
                              "constants": {str(a): str(c) for a, c in td.items()}})
        except Exception as e:
            ctx.count("rebuild_oracle_error_" + type(e).__name__)
        if len(ctx.samples) < 6 and td:
            ctx.sample({"formula": semantic.readable(f), "ack": semantic.readable(res, 600)})
        consts = sorted(td.values(), key=lambda c: c.symbol_name())
        apps = sorted(td.keys(), key=lambda a: (depth(a, {}), a.node_id()))
        crng = case_rng(ctx, case.idx)
        ig.rng = crng
        for I in interps_for(case.ctxf, ig, crng, kI):
            syms, fns, doms = I
            try:
                il = wire.enc_interp(syms, fns, doms)
                item = {"r": r, "I": I, "il": il, "rng": crng, "f": ask("evalc %s %s" % (il, wire.enc_term(f))),
                        "apps": [ask("evalc %s %s" % (il, wire.enc_term(a))) for a in apps], "applist": apps,
                        "consts": consts}
            except wire.OutOfFragment:
                ctx.count("out_of_fragment")
                continue
            todo.append(item)
    try:
        ans = ctx.lean_run_sharded("Sem", lines)
    except common.LeanError as e:
        ctx.report_l("driver Sem does not run", str(e))
        return
    # ---------------- round 2: completeness + candidates for soundness
    lines2 = []

    def ask2(line):
        lines2.append(line)
        return len(lines2) - 1

    for it in todo:
        r, I = it["r"], it["I"]
        vals = [ans[i] for i in [it["f"]] + it["apps"]]
        if any(v == "div0" for v in vals):
            ctx.count("skipped_div0")
            it["skip"] = True
            continue
        if any(v.startswith("bad-op") for v in vals):
            ctx.infra("Sem driver rejected a request: %s" % vals)
            it["skip"] = True
            continue
        syms, fns, doms = I
        td = r["td"]
        appval = {id(a): semantic.parse_val(ans[i]) for a, i in zip(it["applist"], it["apps"])}
        canon = [(td[a].symbol_name(), td[a].symbol_type(), appval[id(a)]) for a in it["applist"]]
        it["canon"] = canon
        it["plus"] = ask2("evalc %s %s" % (wire.enc_interp(syms + canon, [], doms), wire.enc_term(r["res"])))
        # candidate interpretations of the output's symbols: the canonical one perturbed / enumerated
        pool = [v for _, _, v in syms] + [v for _, _, v in canon]
        doms_c = [type_values(t, pool) + [v] for (_, t, v) in canon]
        doms_c = [list({repr(x): x for x in d}.values()) for d in doms_c]
        total = 1
        for d in doms_c:
            total *= len(d)
        cands = []
        if total <= nJ:
            cands = list(itertools.product(*doms_c))
        else:
            for _ in range(nJ):
                cands.append(tuple(it["rng"].choice(d) if it["rng"].random() < 0.5 else v
                                   for d, (_, _, v) in zip(doms_c, canon)))
        it["J"] = []
        for cv in cands:
            js = [(n, t, v) for (n, t, _), v in zip(canon, cv)]
            it["J"].append((js, ask2("evalc %s %s" % (wire.enc_interp(syms + js, [], doms), wire.enc_term(r["res"])))))
    try:
        ans2 = ctx.lean_run_sharded("Sem", lines2)
    except common.LeanError as e:
        ctx.report_l("driver Sem does not run", str(e))
        return
    # ---------------- soundness: recover the functions level by level
    active = []
    for it in todo:
        if it.get("skip"):
            continue
        r, I = it["r"], it["I"]
        f = r["case"].f
        base = {"proc": "ack", "formula": semantic.readable(f), "index": r["case"].idx, "stream": r["case"].stream,
                "earlier_calls_on_the_same_instance": r["case"].prev,
                "result": semantic.readable(r["res"], 1500), "interpretation": show_interp(I),
                "constants": {str(a): str(c) for a, c in r["td"].items()}}
        f_true = ans[it["f"]] == "b 1"
        ctx.count("S_checked_ack_complete")
        if f_true and ans2[it["plus"]] != "b 1":
            ctx.report_s({"oracle": "equisat", "dir": "complete", "proc": "ack", "shape": shape_sig(f)},
                         "the input holds under I but I extended by c_app := value of app does not satisfy the result (%s)"
                         % ans2[it["plus"]], dict(base, extension={n: repr(v) for n, _, v in it["canon"]}))
        for js, ai in it["J"]:
            if ans2[ai] == "b 1":
                active.append({"it": it, "js": js, "tables": {}, "level": 0, "base": base, "dead": False})
    # group applications by depth; each round evaluates the arguments of one level under (J, F so far)
    maxlevel = 0
    for a in active:
        it = a["it"]
        memo = {}
        a["levels"] = {}
        for app in it["applist"]:
            a["levels"].setdefault(depth(app, memo), []).append(app)
        a["order"] = sorted(a["levels"])
        maxlevel = max(maxlevel, len(a["order"]))

    def fn_tables(a):
        out = []
        for fsym, tab in a["tables"].items():
            rows = list(tab.values())
            dflt = rows[0][1]
            out.append((fsym.symbol_name(), fsym.symbol_type(), rows, dflt))
        return out

    for lvl in range(maxlevel):
        lines3, refs = [], []
        for a in active:
            if a["dead"] or lvl >= len(a["order"]):
                continue
            it = a["it"]
            syms, _, doms = it["I"]
            il = wire.enc_interp(syms + a["js"], fn_tables(a), doms)
            for app in a["levels"][a["order"][lvl]]:
                idxs = []
                for arg in app.args():
                    lines3.append("evalc %s %s" % (il, wire.enc_term(arg)))
                    idxs.append(len(lines3) - 1)
                refs.append((a, app, idxs))
        if not lines3:
            continue
        try:
            ans3 = ctx.lean_run_sharded("Sem", lines3)
        except common.LeanError as e:
            ctx.report_l("driver Sem does not run", str(e))
            return
        for (a, app, idxs) in refs:
            if a["dead"]:
                continue
            vs = [ans3[i] for i in idxs]
            if any(v == "div0" or v.startswith("bad-op") for v in vs):
                a["dead"] = True
                ctx.count("skipped_div0")
                continue
            it = a["it"]
            c = it["r"]["td"][app]
            cval = next(v for (n, _, v) in a["js"] if n == c.symbol_name())
            argv = [semantic.parse_val(v) for v in vs]
            tab = a["tables"].setdefault(app.function_name(), {})
            key = repr(argv)
            if key in tab and repr(tab[key][1]) != repr(cval):
                a["dead"] = True
                f = it["r"]["case"].f
                ctx.report_s({"oracle": "equisat", "dir": "sound", "proc": "ack", "shape": shape_sig(f),
                              "how": "inconsistent-constants"},
                             "an interpretation satisfies the result although two applications of %s with equal "
                             "argument values have constants with different values" % app.function_name(),
                             dict(a["base"], constants_values={n: repr(v) for n, _, v in a["js"]},
                                  application=str(app), argument_values=repr(argv)))
                continue
            tab[key] = (argv, cval)
    # final round: the input under (J, recovered F)
    lines4, refs4 = [], []
    for a in active:
        if a["dead"]:
            continue
        it = a["it"]
        syms, _, doms = it["I"]
        il = wire.enc_interp(syms + a["js"], fn_tables(a), doms)
        lines4.append("evalc %s %s" % (il, wire.enc_term(it["r"]["case"].f)))
        refs4.append(a)
    try:
        ans4 = ctx.lean_run_sharded("Sem", lines4)
    except common.LeanError as e:
        ctx.report_l("driver Sem does not run", str(e))
        return
    for a, v in zip(refs4, ans4):
        ctx.count("S_checked_ack_sound")
        if v == "div0":
            ctx.count("skipped_div0")
            continue
        if v != "b 1":
            f = a["it"]["r"]["case"].f
            ctx.report_s({"oracle": "equisat", "dir": "sound", "proc": "ack", "shape": shape_sig(f), "how": "recovered"},
                         "an interpretation satisfies the result, but the input is false for the functions recovered "
                         "from the fresh constants (%s)" % v,
                         dict(a["base"], constants_values={n: repr(x) for n, _, x in a["js"]},
                              functions={k.symbol_name(): [(repr(x), repr(y)) for x, y in t.values()]
                                         for k, t in a["tables"].items()}))


# ------------------------------------------------------------------------------------------ entry points
PRIORITY = ["consts", "converse", "fresh-names", "non-boolean-root", "reuse", "fresh-object-shared-apps", "rule", "random"]


def by_priority(cases):
    """dedicated streams first, random last (stable: the calls of one reused instance keep their order); under the
    quick budget the tail is what gets cut on a slow machine"""
    return sorted(cases, key=lambda c: PRIORITY.index(c.stream) if c.stream in PRIORITY else len(PRIORITY))


def within_budget(ctx, cases, seconds):
    """quick tier: keep the check near its wall-time budget regardless of the machine load — estimate the cost per
    case from the time already spent on this run's own start-up and cut the (lowest-priority) tail"""
    if ctx.tier != "quick" or len(cases) < 50:
        return cases
    import time
    t0 = time.time()
    # calibration: a fixed small piece of pure-python work, ~0.05 s on an idle machine
    x = 0
    for i in range(400000):
        x += i * i % 7
    slow = max(1.0, (time.time() - t0) / 0.05)
    if slow <= 1.6:
        return cases
    keep = max(50, int(len(cases) / min(slow, 6.0) * 1.3))
    if keep < len(cases):
        ctx.count("cases_cut_for_budget", len(cases) - keep)
        ctx.extra["budget_slowdown_factor"] = round(slow, 2)
    return cases[:keep]


def run_cases(ctx, env, uni, cases):
    ig = gen.InterpGen(ctx.rng, uni)
    cnf_cases = within_budget(ctx, by_priority([c for c in cases if c.kind == "cnf"]), 40)
    ack_cases = within_budget(ctx, by_priority([c for c in cases if c.kind == "ack"]), 30)
    for c in cases:
        ctx.count("stream_%s_%s" % (c.kind, c.stream))
    if cnf_cases:
        run_cnf(ctx, env, cnf_cases, ig)
    if ack_cases:
        run_ack(ctx, env, ack_cases, ig)


def run(ctx):
    env, uni, cases = gen_cases(ctx.rng, ctx.tier)
    run_cases(ctx, env, uni, cases)
    # smallest failing input of every kind first (the runner prints the first five distinct signatures)
    ctx.s_violations.sort(key=lambda v: len(str(v["replay"].get("formula", ""))))
    ctx.k_divergences.sort(key=lambda v: len(str(v["replay"].get("formula", ""))))


def replay(ctx, rep):
    """regenerate the case streams of the recorded seed/tier and re-check the recorded case only"""
    r = rep["replay"]
    import random
    rng = random.Random(rep.get("seed", 0))
    env, uni, cases = gen_cases(rng, rep.get("tier", "quick"))
    sel = [c for c in cases if c.idx == r.get("index")]
    if not sel:
        ctx.infra("replay: case %r not found" % r.get("index"))
        return
    if sel[0].group is not None:        # instance reuse: replay the calls of the same instance up to this one
        g, kd = sel[0].group, sel[0].kind
        sel = [c for c in cases if c.group == g and c.kind == kd and c.idx <= r.get("index")]
        print("instance reuse, calls so far: %s" % [semantic.readable(c.f, 120) for c in sel])
    if sel[-1].stream == "fresh-object-shared-apps":
        # fresh objects over applications that EARLIER objects of the process converted: replay those calls too
        last = sel[-1].idx
        sel = [c for c in cases if c.kind == "ack" and c.stream in ("rule", "fresh-object-shared-apps") and c.idx <= last]
        print("fresh object after %d earlier conversions by other objects in the same environment" % (len(sel) - 1))
    print("replaying case %d: %s" % (sel[-1].idx, semantic.readable(sel[-1].f)))
    ctx.rng = rng
    ctx.seed = rep.get("seed", 0)
    ctx.tier = rep.get("tier", ctx.tier)
    run_cases(ctx, env, uni, sel)
    for v in ctx.s_violations:
        print("still failing:", v["what"])
    if not ctx.s_violations and not ctx.k_divergences:
        print("the recorded case passes on the current tree")
