"""C02 — model evaluation returns the exact value of any ground-evaluable formula."""
import pysmt.operators as op
from pysmt.environment import Environment
from pysmt.exceptions import PysmtException
from pysmt.solvers.eager import EagerModel
from pysmt.typing import BOOL

import common
import gen
import semantic
import wire

LEAN_MODULES = ["PySMT.Props.C02"]
RULE = ("type-directed random QF, UF-free formulas of every sort (Bool/Int/Real/BV w in {1,2,3,4,8}/String/Array) with "
        "corner-value constants, total and partial assignments, both completion modes; a case is non-trivial when the "
        "formula is not itself a constant; distinct = distinct (formula, assignment) wire encodings")
ASSUMPTIONS = ["arrays: finitely supported interpretations only", "reals are rationals",
               "interpretations under which a division by zero is evaluated are skipped (property proviso)"]


def defaults_ok(ty):
    return ty.is_bool_type() or ty.is_int_type() or ty.is_real_type() or ty.is_bv_type()


def default_val(ty):
    if ty.is_bool_type():
        return False
    if ty.is_int_type():
        return 0
    if ty.is_real_type():
        from fractions import Fraction
        return Fraction(0)
    return ("bv", ty.width, 0)


def bv_exhaustive(ctx, env, widths):
    """every bit-vector operator on every operand value at every width in `widths`"""
    m = env.formula_manager
    out = []
    for w in widths:
        vals = [m.BV(v, w) for v in range(1 << w)]
        un = [m.BVNot, m.BVNeg, m.BVToNatural]
        bi = [m.BVAnd, m.BVOr, m.BVXor, m.BVAdd, m.BVSub, m.BVMul, m.BVUDiv, m.BVURem, m.BVSDiv, m.BVSRem,
              m.BVLShl, m.BVLShr, m.BVAShr, m.BVComp, m.BVConcat, m.BVULT, m.BVULE, m.BVSLT, m.BVSLE]
        for a in vals:
            for f in un:
                out.append(f(a))
            for lo in range(w):
                for hi in range(lo, w):
                    out.append(m.BVExtract(a, lo, hi))
            # rotation amounts beyond the width too: today the type checker refuses k > w
            # (known finding F41 of C03), but if a build accepts them their value must be exact
            for k in range(2 * w + 2):
                for ctor in (m.BVRol, m.BVRor):
                    try:
                        out.append(ctor(a, k))
                    except PysmtException:
                        ctx.count("bv_rotate_refused")
            for k in range(3):
                out.append(m.BVZExt(a, k))
                out.append(m.BVSExt(a, k))
            for b in vals:
                for f in bi:
                    out.append(f(a, b))
    return out


def run_ground(ctx, env, formulas, tag):
    lines, meta = [], []
    model = EagerModel({}, env)
    for f in formulas:
        try:
            r = model.get_value(f)
            out = ("ok", semantic.fnode_to_val(r))
        except PysmtException as e:
            out = ("err", type(e).__name__)
        lines.append("evalc N 0 0 0 " + wire.enc_term(f))
        meta.append((f, out))
    try:
        answers = ctx.lean_run_sharded("Sem", lines)
    except common.LeanError as e:
        ctx.report_l("driver Sem does not run", str(e))
        return
    for line, ans, (f, out) in zip(lines, answers, meta):
        ctx.case(line)
        ctx.count(tag)
        if ans.startswith("bad-op"):
            ctx.infra("Sem driver rejected a request: %s :: %s" % (ans, semantic.readable(f)))
            continue
        expected = semantic.parse_val(ans)
        rep = {"formula": semantic.readable(f), "mode": "ground", "request": line, "lean": ans, "impl": repr(out),
               "assignment": []}
        if out[0] == "err" or out[1] != expected:
            ctx.report_s({"oracle": "eval", "kind": "wrong-ground-value", "root": wire.OPNAMES[f.node_type()]},
                         "ground %s folded to %r, SMT-LIB value is %r" % (semantic.readable(f), out, expected), rep)


def run(ctx):
    n = 6000 if ctx.tier == "quick" else 60000
    genv = Environment()
    widths = (1, 2, 3) if ctx.tier == "quick" else (1, 2, 3, 4)
    run_ground(ctx, genv, bv_exhaustive(ctx, genv, widths), "bv_exhaustive")
    ctx.extra["bv_exhaustive_widths"] = list(widths)
    env = Environment()
    uni = gen.Universe(env, theories=("bool", "int", "real", "bv", "str", "arr"))
    fg = gen.FormulaGen(ctx.rng, uni, max_depth=4, quant_prob=0.0)
    ig = gen.InterpGen(ctx.rng, uni)
    mgr = env.formula_manager
    lines, meta = [], []
    for i in range(n):
        if ctx.time_left() < 40:
            break
        ty = fg.any_type(0.4)
        f = fg.gen(ty, ctx.rng.choice([2, 3, 4]))
        syms, fns, doms = ig.for_formula(f)
        mode = ctx.rng.choice(["total", "total", "partial-complete", "partial-nocomplete"])
        asg = {}
        dropped = []
        for (nm, t, v) in syms:
            if mode != "total" and ctx.rng.random() < 0.4 and (defaults_ok(t) or mode == "partial-nocomplete"):
                dropped.append((nm, t, v))
                continue
            asg[mgr.Symbol(nm, t)] = semantic.val_to_fnode(mgr, t, v)
        # interpretation the model stands for
        if mode == "partial-complete":
            syms_eff = [(nm, t, (default_val(t) if any(nm == d[0] for d in dropped) else v)) for (nm, t, v) in syms]
        else:
            syms_eff = syms
        model = EagerModel(asg, env)
        try:
            r = model.get_value(f, model_completion=(mode != "partial-nocomplete"))
            out = ("ok", semantic.fnode_to_val(r))
        except PysmtException as e:
            out = ("err", type(e).__name__)
        sat = None
        # satisfies() completes absent symbols with the documented defaults, so it is
        # checked for total models and for partial models whose absent symbols have defaults
        if ty.is_bool_type() and mode in ("total", "partial-complete"):
            try:
                sat = model.satisfies(f)
            except PysmtException as e:
                sat = "err:" + type(e).__name__
        try:
            line = "evalc %s %s" % (wire.enc_interp(syms_eff, fns, doms), wire.enc_term(f))
        except wire.OutOfFragment:
            ctx.count("out_of_fragment")
            continue
        lines.append(line)
        meta.append((f, mode, out, sat, syms_eff, dropped))
        ctx.count("mode_" + mode)
        ctx.count("type_" + str(ty).split("{")[0].split("(")[0])
    try:
        answers = ctx.lean_run_sharded("Sem", lines)
    except common.LeanError as e:
        ctx.report_l("driver Sem does not run", str(e))
        return
    for line, ans, (f, mode, out, sat, syms_eff, dropped) in zip(lines, answers, meta):
        nontriv = None if f.is_constant() else line
        ctx.case(nontriv)
        rd = semantic.readable(f)
        rep = {"formula": rd, "mode": mode, "request": line, "lean": ans, "impl": repr(out),
               "assignment": [(nm, str(t), repr(v)) for nm, t, v in syms_eff]}
        if ans.startswith("bad-op"):
            ctx.infra("Sem driver rejected a request: %s :: %s" % (ans, rd))
            continue
        if ans == "div0":
            ctx.count("skipped_div0")
            continue
        expected = semantic.parse_val(ans)
        ctx.sample({"formula": rd, "mode": mode, "value": ans})
        if mode == "partial-nocomplete" and dropped:
            # either an error, or a value that holds for every completion: the sampled
            # completion is one of them
            if out[0] == "err":
                ctx.count("nocomplete_error")
                continue
        if out[0] == "err":
            ctx.report_s({"oracle": "eval", "kind": "unexpected-error", "error": out[1],
                          "root": wire.OPNAMES[f.node_type()]},
                         "get_value raised %s on a ground-evaluable formula" % out[1], rep)
            continue
        if out[1] != expected:
            ctx.report_s({"oracle": "eval", "kind": "wrong-value", "root": wire.OPNAMES[f.node_type()]},
                         "get_value returned %r, SMT-LIB value is %r" % (out[1], expected), rep)
            continue
        if sat is not None and sat != (expected is True):
            ctx.report_s({"oracle": "eval", "kind": "satisfies-mismatch"},
                         "satisfies() = %r but value is %r" % (sat, expected), rep)


def replay(ctx, rep):
    r = rep["replay"]
    ans = ctx.lean_run("Sem", [r["request"]])[0]
    print("lean:", ans, " recorded impl:", r["impl"])
