"""C02 — model evaluation returns the exact value of any ground-evaluable formula."""
import pysmt.operators as op
from pysmt.environment import Environment
from pysmt.exceptions import PysmtException
from pysmt.solvers.eager import EagerModel
from pysmt.typing import BOOL

import common
import gen
import semantic
import wire

LEAN_MODULES = ["PySMT.Props.C02"]
RULE = ("type-directed random QF, UF-free formulas of every sort (Bool/Int/Real/BV w in {1,2,3,4,8}/String/Array) with "
        "corner-value constants, total and partial assignments, both completion modes, plus a stream of formulas on "
        "which MGSubstituter's rebuilding changes the term (Div by a symbol that becomes a constant, ToReal of a symbol, "
        "array values whose entries change, array-valued assignments); every case is checked against the Lean reference "
        "evaluator (S) and get_value / satisfies are compared end to end with the Lean model getValue' / satisfies' (K); "
        "a case is non-trivial when the formula is not itself a constant; distinct = distinct (formula, assignment) "
        "wire encodings")
ASSUMPTIONS = ["arrays: finitely supported interpretations only", "reals are rationals",
               "interpretations under which a division by zero is evaluated are skipped (property proviso)"]


def defaults_ok(ty):
    return ty.is_bool_type() or ty.is_int_type() or ty.is_real_type() or ty.is_bv_type()


def default_val(ty):
    if ty.is_bool_type():
        return False
    if ty.is_int_type():
        return 0
    if ty.is_real_type():
        from fractions import Fraction
        return Fraction(0)
    return ("bv", ty.width, 0)


def bv_exhaustive(ctx, env, widths):
    """every bit-vector operator on every operand value at every width in `widths`"""
    m = env.formula_manager
    out = []
    for w in widths:
        vals = [m.BV(v, w) for v in range(1 << w)]
        un = [m.BVNot, m.BVNeg, m.BVToNatural]
        bi = [m.BVAnd, m.BVOr, m.BVXor, m.BVAdd, m.BVSub, m.BVMul, m.BVUDiv, m.BVURem, m.BVSDiv, m.BVSRem,
              m.BVLShl, m.BVLShr, m.BVAShr, m.BVComp, m.BVConcat, m.BVULT, m.BVULE, m.BVSLT, m.BVSLE]
        for a in vals:
            for f in un:
                out.append(f(a))
            for lo in range(w):
                for hi in range(lo, w):
                    out.append(m.BVExtract(a, lo, hi))
            # rotation amounts beyond the width too: today the type checker refuses k > w
            # (known finding F41 of C03), but if a build accepts them their value must be exact
            for k in range(2 * w + 2):
                for ctor in (m.BVRol, m.BVRor):
                    try:
                        out.append(ctor(a, k))
                    except PysmtException:
                        ctx.count("bv_rotate_refused")
            for k in range(3):
                out.append(m.BVZExt(a, k))
                out.append(m.BVSExt(a, k))
            for b in vals:
                for f in bi:
                    out.append(f(a, b))
    return out


def bv_wide(rng, env, widths, per_width):
    """every binary / unary bit-vector operator on corner and random operands at WIDE widths (beyond 53 bits a
    detour through a float loses bits; beyond 64 bits a detour through a machine word does)"""
    m = env.formula_manager
    out = []
    for w in widths:
        top = (1 << w) - 1
        corners = [0, 1, 2, 3, top, top - 1, 1 << (w - 1), (1 << (w - 1)) - 1, (1 << (w - 1)) + 1,
                   (1 << 53) + 1 if w > 54 else 5, (1 << 64) - 1 if w > 64 else 7, top // 3, top // 7]
        corners = [c & top for c in corners]
        bi = [m.BVAnd, m.BVOr, m.BVXor, m.BVAdd, m.BVSub, m.BVMul, m.BVUDiv, m.BVURem, m.BVSDiv, m.BVSRem,
              m.BVLShl, m.BVLShr, m.BVAShr, m.BVComp, m.BVConcat, m.BVULT, m.BVULE, m.BVSLT, m.BVSLE]
        un = [m.BVNot, m.BVNeg, m.BVToNatural]
        pairs = [(a, b) for a in corners[:9] for b in corners[:9]]
        pairs += [(rng.choice(corners), rng.getrandbits(w)) for _ in range(per_width)]
        pairs += [(rng.getrandbits(w), rng.choice(corners + [rng.getrandbits(8) + 1])) for _ in range(per_width)]
        shifts = (m.BVLShl, m.BVLShr, m.BVAShr)
        for a, b in pairs:
            f = rng.choice(bi)
            if f in shifts:
                # the Lean runtime computes x <<< n through Nat.shiftLeft: keep shift amounts small
                # (amounts >= the width are covered: w, w+1, 2w, 1000)
                b = rng.choice([0, 1, 2, w // 2, w - 1, w, w + 1, 2 * w, 1000]) & top
            out.append(f(m.BV(a, w), m.BV(b, w)))
        for f in (m.BVUDiv, m.BVURem, m.BVSDiv, m.BVSRem, m.BVMul):
            for a in corners:
                for b in (2, 3, 7, top // 3, (1 << (w - 1)) + 1):
                    out.append(f(m.BV(a, w), m.BV(b & top, w)))
        for a in corners:
            for f in un:
                out.append(f(m.BV(a, w)))
            out.append(m.BVExtract(m.BV(a, w), w // 2, w - 1))
            out.append(m.BVZExt(m.BV(a, w), 3))
            out.append(m.BVSExt(m.BV(a, w), 3))
            out.append(m.BVRol(m.BV(a, w), w // 3))
            out.append(m.BVRor(m.BV(a, w), w - 1))
    return out


EXTREME_STRINGS = ["7", "007", "18446744073709551617", "+1", "-1", " 1", "1 ", "1_0", "1.0", "0x1", "\u0663", "1\u0663",
                   "\u0967\u0968", "\uff11", "\U0001d7d1", "\u00e9", "a\u00e9b", "\U0001f600", "x\U0001f600y", "\u00b2", "\u2460", ""]


def extreme_strings(env):
    """string operators on extreme but legal constants: only ASCII digits are digits for str.to_int; other scripts'
    decimal digits, signs, blanks, underscores, leading zeros, numbers beyond 2**64, astral-plane characters"""
    m = env.formula_manager
    out = []
    for st in EXTREME_STRINGS:
        c = m.String(st)
        out += [m.StrToInt(c), m.LT(m.StrToInt(c), m.Int(0)), m.StrLength(c), m.StrCharAt(c, m.Int(1)),
                m.StrCharAt(c, m.Int(-2)), m.StrConcat(c, m.String("a"), c), m.StrIndexOf(m.StrConcat(c, m.String("a"), c), m.String("a"), m.Int(0)),
                m.StrSubstr(c, m.Int(1), m.Int(2)), m.StrReplace(c, m.String("1"), m.String("z")),
                m.StrPrefixOf(m.String("1"), c), m.StrSuffixOf(c, m.String("x" + st)), m.StrContains(c, m.String("\u0663"))]
    for n in (0, 7, -1, -12, 10 ** 20 + 3, 2 ** 64, -(2 ** 64)):
        out += [m.IntToStr(m.Int(n)), m.StrToInt(m.IntToStr(m.Int(n))), m.StrLength(m.IntToStr(m.Int(n)))]
    return out


def run_ground(ctx, env, formulas, tag):
    lines, meta = [], []
    model = EagerModel({}, env)
    for f in formulas:
        try:
            r = model.get_value(f)
            out = ("ok", semantic.fnode_to_val(r))
        except PysmtException as e:
            out = ("err", type(e).__name__)
        lines.append("evalc N 0 0 0 " + wire.enc_term(f))
        meta.append((f, out))
    try:
        answers = ctx.lean_run_sharded("Sem", lines)
    except common.LeanError as e:
        ctx.report_l("driver Sem does not run", str(e))
        return
    for line, ans, (f, out) in zip(lines, answers, meta):
        ctx.case(line)
        ctx.count(tag)
        if ans.startswith("bad-op"):
            ctx.infra("Sem driver rejected a request: %s :: %s" % (ans, semantic.readable(f)))
            continue
        expected = semantic.parse_val(ans)
        rep = {"formula": semantic.readable(f), "mode": "ground", "request": line, "lean": ans, "impl": repr(out),
               "assignment": []}
        if out[0] == "err" or out[1] != expected:
            ctx.report_s({"oracle": "eval", "kind": "wrong-ground-value", "root": wire.OPNAMES[f.node_type()]},
                         "ground %s folded to %r, SMT-LIB value is %r" % (semantic.readable(f), out, expected), rep)



def array_equalities(env, widths):
    """ground (dis)equalities between array-value literals over a FINITE index sort, where extensional
    equality depends on whether the assigned indexes cover the whole index domain: same / different
    defaults x assigned sets of size 0, 1, w, 2w-1, 2w, 2w+1, 2^w-1, 2^w x agreeing / one differing /
    one missing entry, for BV index widths in `widths` and for Bool; plus select/store on them"""
    from pysmt.typing import INT, BVType
    m = env.formula_manager
    out = []
    for w in widths:
        it = BVType(w)
        dom = list(range(1 << w))
        sizes = sorted({k for k in (0, 1, w, 2 * w - 1, 2 * w, 2 * w + 1, (1 << w) - 1, 1 << w) if 0 <= k <= len(dom)})
        for k in sizes:
            for rot in (0, 1):
                idxs = [dom[(j + rot * 3) % len(dom)] for j in range(k)]
                base = {m.BV(i, w): m.Int(10 + i) for i in idxs}
                for d1, d2 in ((0, 0), (0, 1), (1, 0)):
                    a = m.Array(it, m.Int(d1), dict(base))
                    variants = [dict(base)]
                    if idxs:
                        v = dict(base); v[m.BV(idxs[-1], w)] = m.Int(99); variants.append(v)     # one entry differs
                        v = dict(base); del v[m.BV(idxs[0], w)]; variants.append(v)              # one entry missing
                        v = dict(base); v[m.BV(idxs[0], w)] = m.Int(d2); variants.append(v)      # entry equal to the default
                    for v in variants:
                        b = m.Array(it, m.Int(d2), v)
                        out.append(m.Equals(a, b))
                    out.append(m.Select(a, m.BV(dom[-1], w)))
                    out.append(m.Equals(m.Store(a, m.BV(dom[0], w), m.Int(d2)), m.Array(it, m.Int(d2), dict(base))))
    b0, b1 = m.Bool(False), m.Bool(True)
    from pysmt.typing import BOOL as _B
    for d1 in (0, 1):
        for d2 in (0, 1):
            for e1 in ({}, {b0: m.Int(5)}, {b0: m.Int(5), b1: m.Int(6)}, {b1: m.Int(6)}):
                for e2 in ({}, {b0: m.Int(5)}, {b0: m.Int(5), b1: m.Int(6)}, {b1: m.Int(7)}):
                    out.append(m.Equals(m.Array(_B, m.Int(d1), dict(e1)), m.Array(_B, m.Int(d2), dict(e2))))
    return out


def routes_check(ctx, model, f, completion, r, rep):
    """every public route to the value (get_values, get_py_value, get_py_values, model[f]) must give what
    get_value gave under the same completion flag: the same node / python value, or raise when it raised"""
    routes = [("get_values", lambda: model.get_values([f], model_completion=completion)[f], "node"),
              ("get_py_value", lambda: model.get_py_value(f, model_completion=completion), "py"),
              ("get_py_values", lambda: model.get_py_values([f], model_completion=completion)[f], "py")]
    if completion:
        routes.append(("getitem", lambda: model[f], "node"))
    for name, call, kind in routes:
        if kind == "py" and (r is not None) and (not r.is_constant() or r.is_array_value()):
            continue
        try:
            v = call()
            got = ("ok", v)
        except (PysmtException, AssertionError) as e:
            got = ("err", type(e).__name__)
        ctx.count("route_" + name)
        if r is None:
            bad = got[0] == "ok"
        elif got[0] == "err":
            bad = True
        elif kind == "node":
            bad = got[1] is not r
        else:
            cv = r.constant_value()
            bad = not (got[1] == cv and type(got[1]) is type(cv))
        if bad:
            ctx.report_s({"oracle": "route", "route": name, "completion": bool(completion)},
                         "%s(model_completion=%s) gave %r where get_value gave %s" %
                         (name, completion, got, "an error" if r is None else semantic.readable(r)),
                         dict(rep, route=name))


# ---------------------------------------------------------------------------------------------
# K — correspondence: EagerModel.get_value / Model.satisfies end to end against the Lean model
# `Model.getValue'` / `Model.satisfies'` (Impl/Model.lean), whose substitution step is the model of
# MGSubstituter (every node rebuilt through the manager constructors), driver Drivers/C02.lean.

def k_add(k_cases, asg, f, completion, result, sat, tag):
    """one executed call: the assignment handed to EagerModel, the formula, what the code returned
    (`result` = the FNode, None = it raised; `sat` = satisfies() or None when it was not called)"""
    try:
        parts = ["%s %s %s" % (wire.hexs(k.symbol_name()), wire.enc_type(k.symbol_type()), wire.enc_term(v))
                 for k, v in asg.items()]
        ef = wire.enc_term(f)
        out = "none" if result is None else wire.enc_term(result)
    except wire.OutOfFragment:
        return
    k_cases.append(("getvalue %d %d %s %s" % (1 if completion else 0, len(parts), " ".join(parts), ef),
                    "gv", f, out, tag))
    if sat is not None:
        exp = sat if isinstance(sat, str) else ("true" if sat else "false")
        k_cases.append(("satisfies %d %s %s" % (len(parts), " ".join(parts), ef), "sat", f, exp, tag))


def rebuild_stream(ctx, env, k_cases):
    """formulas on which MGSubstituter's rebuilding through the constructors changes the shape of the
    term before the simplifier sees it: Div by a symbol that becomes a constant (Times with the inverse,
    or Div by the constant 0), ToReal of a symbol that becomes a constant, array values whose entries /
    default change (entries equal to the new default are dropped), bit-vector operators over symbols"""
    from fractions import Fraction
    from pysmt.typing import INT, REAL, BVType, ArrayType
    m = env.formula_manager
    x, y, i, j, p = (m.Symbol("rb_x", REAL), m.Symbol("rb_y", REAL), m.Symbol("rb_i", INT), m.Symbol("rb_j", INT),
                     m.Symbol("rb_p", BOOL))
    b = m.Symbol("rb_b", BVType(4))
    a = m.Symbol("rb_a", ArrayType(INT, INT))
    forms = [m.Div(x, y), m.Plus(m.Div(x, y), m.Real(1)), m.Div(m.ToReal(i), y), m.ToReal(i),
             m.Times(m.ToReal(i), m.Div(x, m.Plus(y, y))), m.Not(p), m.And(m.Not(p), m.LE(m.Div(x, y), x)),
             m.Ite(m.Equals(y, m.Real(0)), m.Real(0), m.Div(x, y)),
             m.Select(m.Array(INT, i, {m.Int(1): j, m.Int(2): m.Int(0)}), j),
             m.Equals(m.Array(INT, i, {m.Int(1): j}), m.Array(INT, m.Int(0))),
             m.Array(INT, i, {m.Int(1): j, m.Int(2): m.Plus(i, j)}),
             m.Store(m.Array(INT, i, {m.Int(1): j}), j, i), m.Store(a, i, j), m.Select(m.Store(a, i, j), m.Int(1)),
             m.BVAdd(b, m.BVNot(b)), m.BVConcat(b, m.BVExtract(b, 1, 2)), m.BVZExt(m.BVRol(b, 1), 2),
             m.Div(i, j), m.Plus(m.Div(i, j), i)]
    vals = {x: [Fraction(0), Fraction(3, 2), Fraction(-1)], y: [Fraction(0), Fraction(2), Fraction(-1, 3)],
            i: [0, 1, -2], j: [0, 1, 2], p: [True, False], b: [0, 5, 15]}
    arrs = [m.Array(INT, m.Int(0)), m.Array(INT, m.Int(1), {m.Int(1): m.Int(0), m.Int(3): m.Int(7)})]
    from pysmt.exceptions import PysmtException
    for f in forms:
        fv = sorted(f.get_free_variables(), key=lambda s: s.symbol_name())
        for k in range(9):
            asg = {}
            for s in fv:
                if s is a:
                    asg[s] = arrs[k % 2]
                    continue
                v = vals[s][(k // (1 + fv.index(s))) % len(vals[s])]
                t = s.symbol_type()
                asg[s] = (m.Bool(v) if t.is_bool_type() else m.Int(v) if t.is_int_type() else
                          m.Real(v) if t.is_real_type() else m.BV(v, 4))
            drop = None
            if k % 3 == 2 and fv and fv[0] is not a:
                drop = fv[0]
                del asg[drop]
            for completion in ((True, False) if drop is not None else (True,)):
                try:
                    r = EagerModel(asg, env).get_value(f, model_completion=completion)
                except PysmtException:
                    r = None
                sat = None
                if f.get_type().is_bool_type() and completion:
                    try:
                        sat = EagerModel(asg, env).satisfies(f)
                    except PysmtException as e:
                        sat = "none"
                k_add(k_cases, asg, f, completion, r, sat, "rebuild")
                ctx.count("k_rebuild_stream")


def k_run(ctx, k_cases):
    lines = [c[0] for c in k_cases]
    try:
        ans = ctx.lean_run_sharded("C02", lines)
    except common.LeanError as e:
        ctx.report_l("driver C02 does not run", str(e))
        return
    for (line, kind, f, out, tag), a in zip(k_cases, ans):
        if a == "out-of-fragment":
            ctx.count("k_out_of_fragment")
            continue
        if a.startswith("bad-op"):
            ctx.infra("C02 driver rejected a request: %s :: %s" % (a[:80], semantic.readable(f, 200)))
            continue
        ctx.count("k_%s_compared" % kind)
        ctx.count("k_%s_%s" % (kind, tag))
        if kind == "sat":
            same = (a == out) or (out.startswith("err:") and a == "none")
        elif a == "none" or out == "none":
            same = a == out
            ctx.count("k_gv_raises" if same else "k_gv_raise_mismatch")
        else:
            same = wire.canon_key(wire.dec_term(a)) == wire.canon_key(wire.dec_term(out))
        if not same:
            ctx.report_k("%s: model %s, implementation %s on %s" % (kind, a[:80], out[:80], semantic.readable(f, 200)),
                         {"formula": semantic.readable(f, 1000), "request": line, "lean": a, "impl": out, "mode": tag,
                          "assignment": []})
    ctx.extra["k_calls"] = len(k_cases)


def run(ctx):
    n = 6000 if ctx.tier == "quick" else 60000
    genv = Environment()
    widths = (1, 2, 3) if ctx.tier == "quick" else (1, 2, 3, 4)
    run_ground(ctx, genv, bv_exhaustive(ctx, genv, widths), "bv_exhaustive")
    ctx.extra["bv_exhaustive_widths"] = list(widths)
    run_ground(ctx, Environment(), array_equalities(genv, (1, 2, 3, 4)), "array_equalities")
    run_ground(ctx, Environment(), extreme_strings(genv), "extreme_strings")
    wide = (53, 54, 64, 65, 128, 300) if ctx.tier == "quick" else (31, 32, 33, 53, 54, 63, 64, 65, 127, 128, 129, 256, 300, 512)
    run_ground(ctx, Environment(), bv_wide(ctx.rng, genv, wide, 12 if ctx.tier == "quick" else 60), "bv_wide")
    env = Environment()
    uni = gen.Universe(env, theories=("bool", "int", "real", "bv", "str", "arr"))
    fg = gen.FormulaGen(ctx.rng, uni, max_depth=4, quant_prob=0.0)
    ig = gen.InterpGen(ctx.rng, uni)
    mgr = env.formula_manager
    lines, meta = [], []
    k_cases = []
    rebuild_stream(ctx, env, k_cases)
    for i in range(n):
        if ctx.time_left() < 40:
            break
        ty = fg.any_type(0.4)
        f = fg.gen(ty, ctx.rng.choice([2, 3, 4]))
        syms, fns, doms = ig.for_formula(f)
        mode = ctx.rng.choice(["total", "total", "partial-complete", "partial-nocomplete"])
        asg = {}
        dropped = []
        for (nm, t, v) in syms:
            if mode != "total" and ctx.rng.random() < 0.4 and (defaults_ok(t) or mode == "partial-nocomplete"):
                dropped.append((nm, t, v))
                continue
            asg[mgr.Symbol(nm, t)] = semantic.val_to_fnode(mgr, t, v)
        # interpretation the model stands for
        if mode == "partial-complete":
            syms_eff = [(nm, t, (default_val(t) if any(nm == d[0] for d in dropped) else v)) for (nm, t, v) in syms]
        else:
            syms_eff = syms
        model = EagerModel(asg, env)
        try:
            r = model.get_value(f, model_completion=(mode != "partial-nocomplete"))
            out = ("ok", semantic.fnode_to_val(r))
        except PysmtException as e:
            out = ("err", type(e).__name__)
        sat = None
        # satisfies() completes absent symbols with the documented defaults, so it is
        # checked for total models and for partial models whose absent symbols have defaults
        if ty.is_bool_type() and mode in ("total", "partial-complete"):
            try:
                sat = model.satisfies(f)
            except PysmtException as e:
                sat = "err:" + type(e).__name__
        try:
            line = "evalc %s %s" % (wire.enc_interp(syms_eff, fns, doms), wire.enc_term(f))
        except wire.OutOfFragment:
            ctx.count("out_of_fragment")
            continue
        routes_check(ctx, model, f, mode != "partial-nocomplete", r if out[0] == "ok" else None,
                     {"formula": semantic.readable(f), "mode": mode, "request": line, "lean": "", "impl": repr(out),
                      "assignment": [(nm, str(t), repr(v)) for nm, t, v in syms_eff]})
        lines.append(line)
        meta.append((f, mode, out, sat, syms_eff, dropped))
        # K on every case in the thorough tier, on one case in four in the quick tier (the interpreted driver
        # needs ~10 ms per call)
        if ctx.tier != "quick" or len(meta) % 4 == 0:
            k_add(k_cases, asg, f, mode != "partial-nocomplete", r if out[0] == "ok" else None, sat, mode)
        ctx.count("mode_" + mode)
        ctx.count("type_" + str(ty).split("{")[0].split("(")[0])
    try:
        answers = ctx.lean_run_sharded("Sem", lines)
    except common.LeanError as e:
        ctx.report_l("driver Sem does not run", str(e))
        return
    for line, ans, (f, mode, out, sat, syms_eff, dropped) in zip(lines, answers, meta):
        nontriv = None if f.is_constant() else line
        ctx.case(nontriv)
        rd = semantic.readable(f)
        rep = {"formula": rd, "mode": mode, "request": line, "lean": ans, "impl": repr(out),
               "assignment": [(nm, str(t), repr(v)) for nm, t, v in syms_eff]}
        if ans.startswith("bad-op"):
            ctx.infra("Sem driver rejected a request: %s :: %s" % (ans, rd))
            continue
        if ans == "div0":
            ctx.count("skipped_div0")
            continue
        expected = semantic.parse_val(ans)
        ctx.sample({"formula": rd, "mode": mode, "value": ans})
        if mode == "partial-nocomplete" and dropped:
            # either an error, or a value that holds for every completion: the sampled
            # completion is one of them
            if out[0] == "err":
                ctx.count("nocomplete_error")
                continue
        if out[0] == "err":
            ctx.report_s({"oracle": "eval", "kind": "unexpected-error", "error": out[1],
                          "root": wire.OPNAMES[f.node_type()]},
                         "get_value raised %s on a ground-evaluable formula" % out[1], rep)
            continue
        if out[1] != expected:
            ctx.report_s({"oracle": "eval", "kind": "wrong-value", "root": wire.OPNAMES[f.node_type()]},
                         "get_value returned %r, SMT-LIB value is %r" % (out[1], expected), rep)
            continue
        if sat is not None and sat != (expected is True):
            ctx.report_s({"oracle": "eval", "kind": "satisfies-mismatch"},
                         "satisfies() = %r but value is %r" % (sat, expected), rep)
    k_run(ctx, k_cases)


def replay(ctx, rep):
    r = rep["replay"]
    ans = ctx.lean_run("Sem", [r["request"]])[0]
    print("lean:", ans, " recorded impl:", r["impl"])
