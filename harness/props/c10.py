"""C10 -- normal forms and Boolean quantifier elimination (pysmt/rewritings.py, pysmt/solvers/qelim.py).

Procedures: nnf, aig, conjunctive/disjunctive_partition, ShannonQuantifierEliminator,
SelfSubstitutionQuantifierEliminator, TimesDistributor, prenex_normal_form, propagate_toplevel.

K (correspondence)  every generated input is run through the real procedure and through the Lean model
   (`lean/Drivers/C10.lean`, one request per procedure); the two results are compared with `wire.canon_key`
   (modulo the order of `and`/`or` arguments and of quantifier variables; the partition generators as multisets;
   prenex: fresh names up to a bijection).  A procedure that raises is compared with the model's `err`/`none`.
S (search, independent of the model)  on the *implementation's* output: `chk_equiv` through the shared `Sem` driver
   (reference semantics; same type, no new free symbol, same value under sampled interpretations -- Bool and BV
   quantifiers are evaluated exactly, Int quantifiers over small finite domains) and the advertised shape predicate
   (`shape nnf|aig|prenex|qf|notand|notor <term>` of the C10 driver evaluated on the implementation's output).
   An exception on an input of the procedure's fragment is a violation as well.
History  prenex is also run on environments with a history (earlier fresh-symbol-creating calls, then user symbols
   named like the manager's fresh names FV<k>, free in the formula); S checks in addition that no bound variable of
   the result is a free symbol of the input (the freshness the theorem `prenex_equiv` assumes of the supply).
Shrinking  the first failing input of every new signature is replaced by its smallest Boolean sub-formula that
   still fails with the same (procedure, oracle) -- one batched round, so that replays stay readable.
"""
import itertools
import warnings

import pysmt.operators as op
from pysmt.environment import Environment
from pysmt.exceptions import PysmtException
from pysmt.typing import BOOL, INT, REAL, STRING, BVType, ArrayType, FunctionType

import common
import gen
import semantic
import wire

LEAN_MODULES = ["PySMT.Props.C10"]
RULE = ("Boolean structure (n-ary and/or, not, implies, iff, Boolean ite in both polarities and under negation) over "
        "theory atoms of every sort (Int/Real/BV/String relations, equalities, Boolean array selects, predicates and "
        "functions with Boolean arguments, theory ite with Boolean conditions), nested and shadowing quantifiers over "
        "Bool/BV2/Int; purely Boolean binders for the two QE procedures; sums of products / differences for "
        "TimesDistributor (including squares, repeated and shared factors); binders whose body occurs again outside the "
        "binder (prenex); Boolean blocks of 3-4 variables with a single witness / counterexample (QE); top-level equality chains (symbol-symbol, symbol-constant, conflicting constants, nested "
        "conjunctions) for propagate_toplevel.  A case is non-trivial when the procedure's result differs from its "
        "input; distinct = distinct (procedure, input wire encoding)")
ASSUMPTIONS = [
    "formulas are built by the FormulaManager constructors (Term.wf)",
    "S samples interpretations (Bool/BV quantifiers exact, Int/Real quantifier domains finite non-empty); only the "
    "Lean theorems quantify over all interpretations",
    "interpretations under which a division by zero is evaluated are skipped",
    "propagate_toplevel: K compares do_simplify=False (the simplifier is the subject of C01); S checks both settings",
    "prenex: fresh names are compared up to a bijection (all bijections for <= 6 fresh names, otherwise with the "
    "fresh names collapsed); shared sub-DAGs are walked as trees by the model",
    "the models describe the repaired code (F18, F19, F19b, F50, F52); F51 (capture in propagate_toplevel) is a "
    "known finding",
    "prenex_equiv assumes a supply of pairwise different fresh names none of which occurs in the input: K finds "
    "the fresh names of the real FormulaManager as the names of the result that do not occur in the input and "
    "matches them one-to-one with the model's",
    "generated binder lists are duplicate-free (the theorems do not need it)",
    "shannon / selfsub, K only: inputs where a variable bound in the input occurs inside an array-value node "
    "(default or entry) are outside the modelled fragment -- the models substitute with a light rebuild, the code "
    "rebuilds array values through FormulaManager.Array (entries equal to the new default are dropped); counted as "
    "k_skipped_bound_var_in_array_value_*; S (equivalence and quantifier-freeness by the Lean evaluator) still "
    "runs on them",
    "deep stream (chains nested 1500-5000 levels, default recursion limit): S only, judged by iterative Python "
    "checkers of the shapes and an iterative Python evaluator on 4 assignments; the Lean drivers are recursive and "
    "are not used on these inputs, no K; prenex gets a quantifier only below monotone chains (below n Iff/Ite "
    "levels the prefix legitimately has 2^n copies)",
    "public routes (shortcuts.qelim / Factory.qelim with solver_name in {name, None} and logic in {None, AUTO, BOOL, "
    "detected}; the walker classes; the module functions with the default environment) must return what the "
    "direct call returns (prenex: up to fresh names); Factory.qelim may refuse (NoSolverAvailableError, "
    "NoLogicAvailableError) a formula "
    "with theory atoms when no logic or a non-Boolean logic is given, since both eliminators declare logic BOOL; "
    "logic=None, logic=AUTO and the detected logic given explicitly must agree",
]

COST_LIMIT = 30000       # node evaluations of the exact evaluator per chk_equiv request
PROCS = ["nnf", "aig", "conj", "disj", "shannon", "selfsub", "times", "prenex", "propagate"]
FRESH_PREFIX = "%FRESH%"


def fresh_env():
    """FNode.substitute() (used by the QE procedures, prenex and propagate) goes through the *global* environment,
    so the run uses a freshly reset global environment rather than a private one"""
    from pysmt.environment import reset_env
    return reset_env()


# ------------------------------------------------------------------------------------------- wire -> FNode (replay)
def ty_of(env, t):
    if t[0] == "B":
        return BOOL
    if t[0] == "I":
        return INT
    if t[0] == "R":
        return REAL
    if t[0] == "S":
        return STRING
    if t[0] == "V":
        return BVType(t[1])
    if t[0] == "A":
        return ArrayType(ty_of(env, t[1]), ty_of(env, t[2]))
    if t[0] == "F":
        return FunctionType(ty_of(env, t[1]), [ty_of(env, p) for p in t[2]])
    if t[0] == "C":
        return env.type_manager.Type(t[1], 0)
    raise ValueError(t)


def build_fnode(env, nodes):
    """decoded wire DAG -> FNode through create_node (the exact node is rebuilt)"""
    m = env.formula_manager
    built = []
    for (o, p, ch) in nodes:
        args = tuple(built[c] for c in ch)
        nt = wire.OPID[o]
        if o == "symbol":
            n = m.Symbol(p[1], ty_of(env, p[2]))
        elif o == "function":
            n = m.create_node(nt, args, m.Symbol(p[1], ty_of(env, p[2])))
        elif o == "boolConst":
            n = m.Bool(p[1])
        elif o == "intConst":
            n = m.Int(p[1])
        elif o == "realConst":
            n = m.Real(p[1])
        elif o == "strConst":
            n = m.String(p[1])
        elif o == "bvConst":
            n = m.BV(p[1], p[2])
        elif o in ("forall", "exists"):
            n = m.create_node(nt, args, tuple(m.Symbol(nm, ty_of(env, t)) for nm, t in p[1:]))
        elif o == "arrayValue":
            n = m.create_node(nt, args, ty_of(env, p[1]))
        elif p is None:
            n = m.create_node(nt, args)
        else:
            n = m.create_node(nt, args, tuple(p[1:]))
        built.append(n)
    return built[-1]


# ------------------------------------------------------------------------------------------- generation
def dom_size(t):
    """size of the quantification domain the Sem driver uses for sort t (gen.InterpGen.domains / Wire.allVals)"""
    if t.is_bool_type():
        return 2
    if t.is_bv_type():
        return 1 << t.width
    if t.is_int_type() or t.is_real_type():
        return 4
    return 2


def dom_product(vs):
    n = 1
    for v in vs:
        n *= dom_size(v.symbol_type())
    return n


def eval_cost(f):
    """number of node evaluations of the (tree-walking, exact) reference evaluator on f"""
    memo = {}
    stack = [(f, False)]
    while stack:
        n, done = stack.pop()
        if n.node_id() in memo:
            continue
        if not done:
            stack.append((n, True))
            stack.extend((c, False) for c in n.args() if c.node_id() not in memo)
        else:
            c = 1 + sum(memo[a.node_id()] for a in n.args())
            if n.is_quantifier():
                c = 1 + dom_product(n.quantifier_vars()) * memo[n.arg(0).node_id()]
            memo[n.node_id()] = min(c, 10 ** 12)
    return memo[f.node_id()]


class Gen10:
    def __init__(self, rng, env):
        self.rng = rng
        self.env = env
        self.m = env.formula_manager
        self.u = gen.Universe(env, widths=(1, 2, 3))
        self.fg = gen.FormulaGen(rng, self.u, max_depth=2, quant_prob=0.0, share_prob=0.2)
        m, u = self.m, self.u
        self.p, self.q, self.r = u.syms[BOOL]
        self.x, self.y, self.z = u.syms[INT]
        self.ua, self.ub = u.syms[REAL]
        self.qb = m.Symbol("qb", BOOL)
        self.qc = m.Symbol("qc", BOOL)
        self.qi = m.Symbol("qi", INT)
        self.qv = m.Symbol("qv", BVType(2))
        self.barr = u.syms[ArrayType(BVType(2), BOOL)]
        self.bv2 = u.syms[BVType(2)]
        self.strs = u.syms[STRING]
        self.pU = [f for f in u.funs if f.symbol_name() == "pU"][0]
        self.g = [f for f in u.funs if f.symbol_name() == "g"][0]
        self.f = [f for f in u.funs if f.symbol_name() == "f"][0]
        self.bool_binders = [self.qb, self.qc, self.p, self.q]
        self.all_binders = [self.qb, self.qc, self.p, self.qi, self.x, self.qv, self.bv2[0]]
        self.pools = {None: [], "bool": [], "all": []}

    def pick(self, l):
        return l[self.rng.randrange(len(l))]

    # ---- atoms
    def bool_leaf(self, bound):
        r = self.rng
        cands = [self.p, self.q, self.r] + [v for v in bound if v.symbol_type().is_bool_type()] * 2
        if r.random() < 0.08:
            return self.m.Bool(r.random() < 0.5)
        return self.pick(cands)

    def int_term(self, bound, d=1):
        m, r = self.m, self.rng
        ints = [self.x, self.y, self.z] + [v for v in bound if v.symbol_type().is_int_type()] * 2
        k = r.random()
        if d <= 0 or k < 0.45:
            return self.pick(ints) if r.random() < 0.7 else m.Int(r.choice([0, 1, -1, 2, 3]))
        if k < 0.6:
            return m.Plus(self.int_term(bound, d - 1), self.int_term(bound, d - 1))
        if k < 0.7:
            return m.Times(m.Int(r.choice([2, -1, 3])), self.int_term(bound, d - 1))
        if k < 0.85:
            return m.Ite(self.boolf(1, bound, quant=None), self.int_term(bound, d - 1), self.int_term(bound, d - 1))
        return m.Function(self.f, [self.int_term(bound, d - 1)])

    def bv_term(self, bound):
        m, r = self.m, self.rng
        bvs = list(self.bv2) + [v for v in bound if v.symbol_type().is_bv_type()] * 2
        k = r.random()
        if k < 0.6:
            return self.pick(bvs)
        if k < 0.75:
            return m.BV(r.randrange(4), 2)
        if k < 0.9:
            return self.pick([m.BVAdd, m.BVAnd, m.BVXor])(self.pick(bvs), self.pick(bvs))
        return m.Ite(self.bool_leaf(bound), self.pick(bvs), m.BV(r.randrange(4), 2))

    def atom(self, bound):
        m, r = self.m, self.rng
        k = r.random()
        if k < 0.30:
            return self.bool_leaf(bound)
        if k < 0.45:
            return self.pick([m.LE, m.LT, m.Equals, m.GE])(self.int_term(bound), self.int_term(bound))
        if k < 0.58:
            return self.pick([m.BVULT, m.BVULE, m.BVSLT, m.Equals])(self.bv_term(bound), self.bv_term(bound))
        if k < 0.68:
            return m.Select(self.pick(self.barr), self.bv_term(bound))          # Boolean array select (F19)
        if k < 0.74:
            s, t = self.strs
            return self.pick([m.StrContains, m.StrPrefixOf, m.Equals])(s, self.pick([t, m.String("a"), m.StrConcat(t, s)]))
        if k < 0.80:
            return m.Function(self.pU, [self.pick(self.u.syms[self.u.U])])
        if k < 0.88:
            return m.Function(self.g, [self.boolf(1, bound, quant=None), self.int_term(bound, 0)])
        if k < 0.93:
            return m.Equals(m.Ite(self.boolf(1, bound, quant=None), self.ua, m.Real(1)), self.ub)
        try:
            return self.fg.gen(BOOL, 2)
        except Exception:
            return self.bool_leaf(bound)

    # ---- Boolean structure
    def boolf(self, depth, bound=(), quant="all", qprob=0.18, budget=64):
        """quant: None (no quantifier), "bool" (Boolean binders), "all" (Bool, BV2, Int binders);
        budget: bound on the product of the domain sizes of nested binders (cost of the exact evaluation)"""
        m, r = self.m, self.rng
        bound = list(bound)
        if depth <= 0 or r.random() < 0.1:
            return self.atom(bound)
        pool = self.pools[quant]
        if pool and r.random() < 0.08 and quant is not None and not bound:
            return self.pick(pool)
        ks = ["not", "not", "and", "and", "or", "or", "implies", "iff", "iff", "ite", "ite"]
        if quant is not None and budget >= 2 and r.random() < qprob * 3:
            ks += ["quant"] * 4
        k = self.pick(ks)
        sub = lambda: self.boolf(depth - 1, bound, quant, qprob, budget)
        if k == "not":
            f = m.Not(sub())
        elif k in ("and", "or"):
            n = r.choice([2, 2, 3, 4])
            args = [sub() for _ in range(n)]
            if r.random() < 0.12:
                args[-1] = args[0]
            if r.random() < 0.1:
                args[-1] = m.Not(args[0])
            f = (m.And if k == "and" else m.Or)(args)
        elif k == "implies":
            f = m.Implies(sub(), sub())
        elif k == "iff":
            f = m.Iff(sub(), sub())
        elif k == "ite":
            f = m.Ite(sub(), sub(), sub())
        else:
            binders = self.bool_binders if quant == "bool" else self.all_binders
            vs = r.sample(binders, r.choice([1, 1, 1, 2, 2, 3]))
            while len(vs) > 1 and dom_product(vs) > budget:
                vs.pop()
            if dom_product(vs) > budget:
                vs = [self.qb]
            body = self.boolf(depth - 1, bound + vs, quant, qprob, budget // dom_product(vs))
            if r.random() < 0.6:
                v = vs[0]
                t = v.symbol_type()
                occ = v if t.is_bool_type() else (m.Equals(v, self.int_term(bound + vs, 0)) if t.is_int_type()
                                                  else m.BVULT(v, self.bv_term(bound + vs)))
                body = self.pick([m.And, m.Or, m.Iff, m.Implies])(body, occ)
            f = (m.ForAll if r.random() < 0.5 else m.Exists)(vs, body)
        if quant is not None and len(pool) < 30 and not bound:
            pool.append(f)
        return f

    # ---- arithmetic for TimesDistributor
    def arith(self, ty, d):
        m, r = self.m, self.rng
        syms = self.u.syms[ty]
        if d <= 0 or r.random() < 0.15:
            k = r.random()
            if k < 0.6:
                return self.pick(syms)
            c = r.choice([0, 1, -1, 2, 3, -2])
            return m.Int(c) if ty.is_int_type() else m.Real(c)
        k = self.pick(["plus", "plus", "times", "times", "times", "minus", "minus", "ite", "toreal", "fun"])
        if k == "plus":
            return m.Plus([self.arith(ty, d - 1) for _ in range(r.choice([2, 2, 3]))])
        if k == "times":
            return m.Times([self.arith(ty, d - 1) for _ in range(r.choice([2, 2, 3]))])
        if k == "minus":
            return m.Minus(self.arith(ty, d - 1), self.arith(ty, d - 1))
        if k == "ite":
            return m.Ite(self.bool_leaf([]), self.arith(ty, d - 1), self.arith(ty, d - 1))
        if k == "toreal" and ty.is_real_type():
            return m.ToReal(self.arith(INT, d - 1))
        if k == "fun" and ty.is_int_type():
            return m.Function(self.f, [self.arith(INT, d - 1)])
        return self.pick(syms)

    def times_input(self):
        m, r = self.m, self.rng
        ty = INT if r.random() < 0.6 else REAL
        k = r.random()
        if k < 0.35:
            return self.arith(ty, 3)
        rel = lambda: self.pick([m.LE, m.LT, m.Equals])(self.arith(ty, r.choice([2, 3])), self.arith(ty, 2))
        if k < 0.7:
            return rel()
        return self.pick([m.And, m.Or, m.Implies])(rel(), m.Not(rel())) if r.random() < 0.7 else \
            m.ForAll([self.x], m.Or(rel(), self.bool_leaf([])))

    def times_repeated(self):
        """products with a sum among the factors and the *same node* twice as a factor (squares, shared sub-DAGs)"""
        m, r = self.m, self.rng
        ty = INT if r.random() < 0.6 else REAL
        syms = self.u.syms[ty]
        c = lambda k: m.Int(k) if ty.is_int_type() else m.Real(k)
        sm = m.Plus([self.arith(ty, 1) for _ in range(r.choice([2, 2, 3]))])
        sm2 = m.Plus(self.pick(syms), c(r.choice([1, 2, -1])))
        z = self.pick(syms)
        w = self.arith(ty, 1)
        shape = r.randrange(7)
        if shape == 0:
            t = m.Times(sm, sm)                                   # a square of a sum
        elif shape == 1:
            t = m.Times(z, z, sm2)                                # a repeated non-sum factor
        elif shape == 2:
            t = m.Times(sm2, w, sm2)
        elif shape == 3:
            t = m.Times(sm, sm, sm2)
        elif shape == 4:
            t = m.Times(m.Minus(z, w), m.Minus(z, w))             # becomes a square of a sum
        elif shape == 5:
            t = m.Times(m.Times(z, sm2), m.Times(z, sm2))         # nested: the same product twice
        else:
            t = m.Plus(m.Times(sm2, sm2), m.Times(w, w, sm))
        k = r.random()
        if k < 0.4:
            return t
        if k < 0.8:
            return self.pick([m.LE, m.LT, m.Equals])(t, self.arith(ty, 1))
        return m.Or(m.LT(t, c(3)), self.bool_leaf([]))

    # ---- shapes for the prenex walker's memoisation: the body of a binder occurs again, free
    def prenex_shared(self):
        m, r = self.m, self.rng
        vs = r.sample(self.all_binders, r.choice([1, 1, 2]))
        body = self.boolf(r.choice([1, 2]), vs, quant=r.choice([None, None, "all"]), budget=8)
        v = vs[0]
        t = v.symbol_type()
        occ = v if t.is_bool_type() else (m.Equals(v, self.int_term(vs, 0)) if t.is_int_type()
                                          else m.BVULT(v, self.bv_term(vs)))
        body = self.pick([m.And, m.Or])(body, occ) if r.random() < 0.8 else body
        q = (m.ForAll if r.random() < 0.5 else m.Exists)(vs, body)
        op2 = self.pick([m.And, m.Or, m.Implies, m.Iff])
        shape = r.randrange(6)
        if shape == 0:
            return op2(q, body)
        if shape == 1:
            return op2(body, q)
        if shape == 2:
            return m.And(self.atom([]), m.Or(q, m.Not(body)))
        if shape == 3:
            return m.Ite(self.bool_leaf([]), q, body)
        if shape == 4:
            q2 = (m.ForAll if r.random() < 0.5 else m.Exists)([self.qc], m.Or(self.qc, q))
            return op2(q2, m.And(body, self.bool_leaf([])))
        return m.Not(op2(m.Not(q), body))

    # ---- Boolean blocks with 3-4 variables whose witness / counterexample is one particular assignment
    def qe_block(self):
        m, r = self.m, self.rng
        k = r.choice([3, 3, 4])
        # binder variables that occur in no atom: self-substitution copies the body once per occurrence of the
        # variable, so occurrences inside shared atoms would blow the (tree-walking) model up
        vs = r.sample([self.qb, self.qc] + [m.Symbol("qd%d" % i_, BOOL) for i_ in range(3)], k)
        target = [r.random() < 0.75 for _ in vs]              # mostly "true": the late assignments
        lits = [v if b else m.Not(v) for v, b in zip(vs, target)]
        free = self.atom([])
        if r.random() < 0.5:
            core = m.And(lits + [free]) if r.random() < 0.7 else m.And(m.And(lits[:2]), m.And(lits[2:] + [free]))
            f = m.Exists(vs, core)
        else:
            nl = [m.Not(l) for l in lits]
            core = m.Or(nl + [free]) if r.random() < 0.7 else m.Implies(m.And(lits), free)
            f = m.ForAll(vs, core)
        ctx = r.randrange(4)
        if ctx == 0:
            return f
        if ctx == 1:
            return m.Not(f)
        if ctx == 2:
            return m.And(f, self.atom([]))
        return m.Iff(f, self.bool_leaf([]))

    # ---- top-level definitions for propagate_toplevel
    def propagate_input(self):
        m, r = self.m, self.rng
        fam = r.choice(["int", "int", "bv", "real", "str", "mixed"])
        conj = []

        def leaves(fam):
            if fam == "int":
                return [self.x, self.y, self.z, self.qi], [m.Int(c) for c in (0, 1, 2, -1)]
            if fam == "bv":
                return list(self.bv2) + [self.qv], [m.BV(c, 2) for c in (0, 1, 3)]
            if fam == "real":
                return [self.ua, self.ub], [m.Real(0), m.Real(1)]
            return list(self.strs), [m.String("a"), m.String("b"), m.String("")]
        fams = ["int", "bv"] if fam == "mixed" else [fam]
        for fm in fams:
            syms, consts = leaves(fm)
            for _ in range(r.choice([1, 2, 2, 3, 4])):
                k = r.random()
                a = self.pick(syms)
                if k < 0.5:
                    b = self.pick(syms)
                elif k < 0.9:
                    b = self.pick(consts)
                else:
                    a, b = self.pick(consts), self.pick(consts)
                if r.random() < 0.4:
                    a, b = b, a
                conj.append(m.Equals(a, b))
        # other conjuncts that use the symbols
        for _ in range(r.choice([0, 1, 1, 2])):
            k = r.random()
            if k < 0.4:
                conj.append(self.atom([]))
            elif k < 0.7:
                conj.append(self.boolf(2, [], quant=None))
            elif k < 0.85:
                conj.append(m.Not(m.Equals(self.x, self.y)))
            else:
                conj.append(m.Or(m.Equals(self.x, m.Int(3)), m.Equals(self.y, self.z)))    # not top level
        if r.random() < 0.35:
            # operators whose manager constructor folds once a propagated constant arrives: ToReal(c), x / c
            k = r.random()
            if k < 0.35:
                conj.append(m.LE(m.ToReal(self.pick([self.x, self.y])), self.pick([self.ua, self.ub])))
                conj.append(m.Equals(self.x, m.Int(r.choice([1, 0, -2]))))
            elif k < 0.7:
                conj.append(m.LE(m.Div(self.ua, self.ub), self.ua))
                conj.append(m.Equals(self.ub, m.Real(r.choice([2, 4, -1]))))
            elif k < 0.85:
                conj.append(m.LT(m.Plus(m.ToReal(m.Plus(self.x, self.y)), m.Div(self.ub, self.ua)), m.Real(3)))
                conj.append(m.Equals(self.ua, m.Real(2)))
                conj.append(m.Equals(self.y, self.x))
            else:
                conj.append(m.Equals(m.Div(self.x, self.y), self.z))
                conj.append(m.Equals(self.y, m.Int(r.choice([2, 3]))))
        if r.random() < 0.15:
            # a binder over a non-defined symbol
            conj.append(m.ForAll([self.qc], m.Or(self.qc, m.LE(self.x, self.y))))
        if r.random() < 0.06:
            # a binder over a symbol that may be the representative of a class (capture, finding F51)
            conj.append(m.Exists([self.x], m.LT(self.x, self.y)))
        r.shuffle(conj)
        if len(conj) >= 3 and r.random() < 0.4:
            k = r.randrange(1, len(conj) - 1)
            conj = [m.And(conj[:k + 1])] + conj[k + 1:]
        f = m.And(conj)
        return f


    def propagate_shadow(self):
        """a top-level definition `k = c` whose KEY k is re-bound by a quantifier (shadowing; not the capture of
        F51: the representative c is a constant), free occurrences of k in other conjuncts, the quantifier in every
        argument position (first, middle, last) and below connectives"""
        m, r = self.m, self.rng
        if r.random() < 0.7:
            syms, consts = [self.x, self.y, self.z], [m.Int(c) for c in (0, 1, 2, -1)]
            le, lt = m.LE, m.LT
        else:
            syms, consts = list(self.bv2)[:3], [m.BV(c, 2) for c in (0, 1, 3)]
            le, lt = m.BVULE, m.BVULT
        syms = list(syms)
        r.shuffle(syms)
        k, w = syms[0], syms[1]
        c = self.pick(consts)

        def use():
            j = r.randrange(5)
            return [lt(w, k), le(k, w), m.Not(m.Equals(k, w)), m.Or(lt(k, w), self.bool_leaf([])),
                    m.Equals(k, self.pick(consts))][j]
        body = r.choice([le(w, k), m.Or(lt(k, w), m.Equals(k, self.pick(consts))), m.Not(m.Equals(k, w)),
                         m.And(le(w, k), self.bool_leaf([]))])
        q = (m.ForAll if r.random() < 0.5 else m.Exists)([k], body)
        j = r.randrange(5)
        qpos = [q, q, m.Not(q), m.Or(q, lt(w, self.pick(consts))), m.Implies(self.bool_leaf([]), q)][j]
        uses = [use() for _ in range(r.choice([1, 1, 2, 3]))]
        eq = m.Equals(k, c) if r.random() < 0.6 else m.Equals(c, k)
        others = uses + [eq]
        r.shuffle(others)
        pos = r.choice([0, 0, len(others), r.randrange(len(others) + 1)])
        conj = others[:pos] + [qpos] + others[pos:]
        if len(conj) >= 3 and r.random() < 0.3:
            i = r.randrange(1, len(conj) - 1)
            conj = conj[:i] + [m.And(conj[i:])]
        return m.And(conj)


# ------------------------------------------------------------------------------------------- running the real code
def run_impl(env, proc, f):
    """-> ("ok", FNode | [FNode]) | ("err", exception class name, message)"""
    import pysmt.rewritings as rw
    from pysmt.solvers.qelim import ShannonQuantifierEliminator, SelfSubstitutionQuantifierEliminator
    try:
        if proc == "nnf":
            return ("ok", rw.nnf(f, env))
        if proc == "aig":
            return ("ok", rw.aig(f, env))
        if proc == "conj":
            return ("ok", list(rw.conjunctive_partition(f)))
        if proc == "disj":
            return ("ok", list(rw.disjunctive_partition(f)))
        if proc == "shannon":
            return ("ok", ShannonQuantifierEliminator(env).eliminate_quantifiers(f))
        if proc == "selfsub":
            return ("ok", SelfSubstitutionQuantifierEliminator(env).eliminate_quantifiers(f))
        if proc == "times":
            return ("ok", rw.TimesDistributor(env).walk(f))
        if proc == "prenex":
            return ("ok", rw.prenex_normal_form(f, env))
        if proc == "propagate":
            return ("ok", rw.propagate_toplevel(f, env, do_simplify=False))
        if proc == "propagate_simp":
            return ("ok", rw.propagate_toplevel(f, env))
    except (PysmtException, AssertionError, TypeError, KeyError, ValueError, AttributeError, RecursionError) as e:
        return ("err", type(e).__name__, str(e)[:200])
    raise ValueError(proc)


# ------------------------------------------------------------------------------------------- public routes
ERRS = (PysmtException, AssertionError, TypeError, KeyError, ValueError, AttributeError, RecursionError)


def pure_bool(f):
    """only Boolean symbols, constants, connectives, Boolean ite and quantifiers (logic BOOL)"""
    seen, stack = set(), [f]
    while stack:
        n = stack.pop()
        if n.node_id() in seen:
            continue
        seen.add(n.node_id())
        if n.is_symbol():
            if not n.symbol_type().is_bool_type():
                return False
        elif not (n.is_bool_constant() or n.is_bool_op() or n.is_ite()):
            return False
        stack.extend(n.args())
    return True


def routes_for(proc, f):
    """the other public ways to reach the procedure; a route is a '|'-separated descriptor"""
    if proc in ("shannon", "selfsub"):
        names = [proc] + (["None"] if proc == "shannon" else [])    # the preference list ends with shannon, selfsub
        return ["%s|%s|%s" % (e, nm, lg) for e in ("shortcuts.qelim", "factory.qelim") for nm in names
                for lg in ("None", "AUTO", "BOOL", "detected")]
    if proc in ("nnf", "aig", "prenex"):
        return ["class", "module-default-env"]
    if proc == "propagate":
        return ["module-default-env"]
    return []


def run_route(env, proc, f, route):
    """-> like run_impl, through the route"""
    import pysmt.rewritings as rw
    import pysmt.shortcuts as sc
    import pysmt.logics as lg_
    import pysmt.oracles
    try:
        if proc in ("shannon", "selfsub"):
            entry, nm, lg = route.split("|")
            name = None if nm == "None" else nm
            logic = {"None": None, "AUTO": lg_.AUTO, "BOOL": lg_.BOOL}.get(lg)
            if lg == "detected":
                logic = pysmt.oracles.get_logic(f, env)
            fn = sc.qelim if entry == "shortcuts.qelim" else env.factory.qelim
            return ("ok", fn(f, solver_name=name, logic=logic))
        if route == "class":
            if proc == "nnf":
                return ("ok", rw.NNFizer(env).convert(f))
            if proc == "aig":
                return ("ok", rw.AIGer(env).convert(f))
            if proc == "prenex":
                return ("ok", rw.PrenexNormalizer(env).normalize(f))
        if route == "module-default-env":
            if proc == "nnf":
                return ("ok", rw.nnf(f))
            if proc == "aig":
                return ("ok", rw.aig(f))
            if proc == "prenex":
                return ("ok", rw.prenex_normal_form(f))
            if proc == "propagate":
                return ("ok", rw.propagate_toplevel(f, do_simplify=False))
    except ERRS as e:
        return ("err", type(e).__name__, str(e)[:200])
    raise ValueError((proc, route))


def same_outcome(proc, f, a, b):
    if a[0] != b[0]:
        return False
    if a[0] == "err":
        return a[1] == b[1]
    if a[1] is b[1]:
        return True
    if proc == "prenex":          # two calls draw different fresh names
        ok, _why = same_up_to_fresh(wire.dec_term(wire.enc_term(a[1])), wire.dec_term(wire.enc_term(b[1])),
                                    set(all_symbols(f)))
        return ok
    return False


def route_verdict(proc, f, route, direct, got):
    """None when the route's outcome is acceptable, otherwise what is wrong"""
    if same_outcome(proc, f, direct, got):
        return None
    if proc in ("shannon", "selfsub") and route.split("|")[2] != "BOOL" and not pure_bool(f) \
            and got[0] == "err" and got[1] in ("NoSolverAvailableError", "NoLogicAvailableError"):
        # the eliminators declare logic BOOL only: the factory refuses a formula of another logic, or one for
        # which the logic detection (C13) finds no logic
        return None
    return "differs from the direct call"


def check_routes(ctx, env, proc, f, direct, routes, rd, ef):
    """runs the routes; reports; -> [(route, result)] of the deviating routes that returned a formula"""
    bad, got_by = [], {}
    for route in routes:
        got = run_route(env, proc, f, route)
        got_by[route] = got
        ctx.count("route_" + proc + "_" + "_".join(route.split("|")[:1]))
        why = route_verdict(proc, f, route, direct, got)
        if why is None:
            ctx.count("route_refused" if got[0] == "err" and direct[0] == "ok" else "route_same")
            continue
        show = lambda r_: semantic.readable(r_[1], 300) if r_[0] == "ok" else repr(r_)[:300]
        ctx.report_s(sig_for(proc, "route", f, {"route": route}),
                     "%s through %s %s: %s  ==>  %s  (direct call: %s)" % (proc, route, why, rd[:200], show(got),
                                                                          show(direct)),
                     {"proc": proc, "formula": rd, "term": ef, "route": route, "history": None,
                      "impl": show(got), "direct": show(direct)})
        if got[0] == "ok":
            bad.append((route, got))
    # logic=None and logic=AUTO (and the detected logic given explicitly) mean the same
    for route, got in got_by.items():
        parts = route.split("|")
        if len(parts) == 3 and parts[2] in ("AUTO", "detected"):
            base = "|".join(parts[:2] + ["None"])
            if base in got_by and not same_outcome(proc, f, got_by[base], got):
                show = lambda r_: semantic.readable(r_[1], 300) if r_[0] == "ok" else repr(r_)[:300]
                ctx.report_s(sig_for(proc, "route-logic", f, {"route": route}),
                             "qelim with logic=%s and with logic=None disagree (%s): %s  ==>  %s  vs  %s" % (
                                 parts[2], route, rd[:200], show(got), show(got_by[base])),
                             {"proc": proc, "formula": rd, "term": ef, "route": route, "base_route": base,
                              "history": None, "impl": show(got), "direct": show(got_by[base])})
            else:
                ctx.count("route_logic_agree")
    return bad


def all_symbols(f):
    """symbol FNodes occurring in f (free, bound, applied)"""
    out, seen, stack = {}, set(), [f]
    while stack:
        n = stack.pop()
        if n.node_id() in seen:
            continue
        seen.add(n.node_id())
        if n.is_symbol():
            out[n.symbol_name()] = n
        elif n.is_quantifier():
            for v in n.quantifier_vars():
                out[v.symbol_name()] = v
        elif n.is_function_application():
            out[n.function_name().symbol_name()] = n.function_name()
        stack.extend(n.args())
    return out


def has_quantifier(f):
    seen, stack = set(), [f]
    while stack:
        n = stack.pop()
        if n.node_id() in seen:
            continue
        seen.add(n.node_id())
        if n.is_quantifier():
            return True
        stack.extend(n.args())
    return False


def request_line(proc, f):
    ef = wire.enc_term(f)
    if proc == "propagate":
        leaves = {}
        stack, seen = [f], set()
        while stack:
            n = stack.pop()
            if n.node_id() in seen:
                continue
            seen.add(n.node_id())
            if n.is_symbol() or n.is_constant():
                leaves[n.node_id()] = n
            stack.extend(n.args())
        parts = ["propagate", str(len(leaves))]
        for nid, n in sorted(leaves.items()):
            parts.append(wire.enc_term(n))
            parts.append(str(nid))
        parts.append(ef)
        return " ".join(parts)
    return "%s %s" % (proc, ef)


SHAPE_OF = {"nnf": "nnf", "aig": "aig", "shannon": "qf", "selfsub": "qf", "prenex": "prenex"}


# ------------------------------------------------------------------------------------------- comparing
def rename_nodes(nodes, ren):
    """rename symbols (by name) in a decoded DAG"""
    out = []
    for (o, p, ch) in nodes:
        if p is not None and p[0] == "y" and p[1] in ren:
            p = ("y", ren[p[1]], p[2])
        elif p is not None and p[0] == "Q":
            p = ("Q",) + tuple((ren.get(nm, nm), t) for nm, t in p[1:])
        out.append((o, p, ch))
    return out


def names_of(nodes):
    s = set()
    for (o, p, ch) in nodes:
        if p is not None and p[0] == "y":
            s.add(p[1])
        elif p is not None and p[0] == "Q":
            s.update(nm for nm, t in p[1:])
    return s


def same_up_to_fresh(impl_nodes, lean_nodes, input_names):
    """canonical keys equal after some bijection between the fresh names of the two sides"""
    fi = sorted(names_of(impl_nodes) - input_names)
    fl = sorted(names_of(lean_nodes) - input_names)
    if len(fi) != len(fl):
        return False, "different number of fresh symbols (%d vs %d)" % (len(fi), len(fl))
    ki = wire.canon_key(impl_nodes)
    if not fi:
        return ki == wire.canon_key(lean_nodes), "no fresh symbol"
    if len(fi) > 6:
        # too many bijections: compare with all fresh names collapsed (weaker)
        a = wire.canon_key(rename_nodes(impl_nodes, {n: "%F" for n in fi}))
        b = wire.canon_key(rename_nodes(lean_nodes, {n: "%F" for n in fl}))
        return a == b, "collapsed fresh names"
    for perm in itertools.permutations(fi):
        if wire.canon_key(rename_nodes(lean_nodes, dict(zip(fl, perm)))) == ki:
            return True, "bijection"
    return False, "no bijection between the fresh names makes the results equal"


def split_list_answer(ans):
    """'ok k | T.. | T..' -> list of term strings"""
    parts = ans.split(" | ")
    return parts[1:]


# ------------------------------------------------------------------------------------------- the run
def interps_for(ig, f, n, rng):
    fv = sorted(f.get_free_variables(), key=lambda s: s.symbol_name())
    bools = [s for s in fv if s.symbol_type().is_bool_type()]
    others = [s for s in fv if not s.symbol_type().is_bool_type()]
    if not others and len(bools) <= 4:
        doms = ig.domains()
        out = []
        for vals in itertools.product([False, True], repeat=len(bools)):
            out.append(([(s.symbol_name(), BOOL, v) for s, v in zip(bools, vals)], [], doms))
        return out
    return [ig.for_formula(f) for _ in range(n)]


def satisfy_definitions(f, it, rng):
    """make the interpretation satisfy (most of) the top-level definitions of f, so that the interesting
    interpretations of a propagate_toplevel input are not vanishingly rare"""
    import pysmt.rewritings as rw
    syms, fns, doms = it
    val = {n: v for n, t, v in syms}
    for _ in range(3):
        for c in rw.conjunctive_partition(f):
            if c.is_equals() and rng.random() < 0.9:
                l, r_ = c.args()
                if l.is_symbol() and r_.is_symbol() and l.symbol_name() in val and r_.symbol_name() in val:
                    val[l.symbol_name()] = val[r_.symbol_name()]
                elif l.is_symbol() and r_.is_constant() and l.symbol_name() in val:
                    val[l.symbol_name()] = semantic.fnode_to_val(r_)
                elif r_.is_symbol() and l.is_constant() and r_.symbol_name() in val:
                    val[r_.symbol_name()] = semantic.fnode_to_val(l)
    return ([(n, t, val[n]) for n, t, v in syms], fns, doms)


def generate(ctx, env, n_each):
    """-> list of (proc, FNode)"""
    g = Gen10(ctx.rng, env)
    r = ctx.rng
    cases = []
    for i in range(n_each):
        # full fragment: nnf, aig, partitions, prenex
        f = g.boolf(r.choice([2, 3, 3, 4]), [], quant="all")
        cases.append(("nnf", f))
        cases.append(("aig", f))
        cases.append(("prenex", f))
        if i % 4 == 0:
            for proc_ in ("nnf", "aig", "prenex"):
                cases.append((proc_, f, None, None, routes_for(proc_, f)))
        if r.random() < 0.5:
            cases.append(("nnf", g.m.Not(f)))
            cases.append(("prenex", g.m.Not(f)))
        h = g.boolf(r.choice([2, 3]), [], quant="all")
        top = r.choice(["and", "or", "mixed"])
        if top == "and":
            pf = g.m.And(f, g.m.And(h, f, g.atom([])), g.m.Or(h, f))
        elif top == "or":
            pf = g.m.Or(f, g.m.Or(h, f, g.atom([])), g.m.And(h, f))
        else:
            pf = r.choice([f, h, g.m.And(f, h), g.m.Or(g.m.Or(f, h), h)])
        cases.append(("conj", pf))
        cases.append(("disj", pf))
        # literal TRUE / FALSE among the (nested) top-level members of an unsimplified input: the neutral constant
        # may be dropped, the absorbing one must stay
        if i % 2 == 0:
            tt_, ff_ = g.m.TRUE(), g.m.FALSE()
            k1, k2 = r.choice([tt_, ff_]), r.choice([tt_, ff_])
            mk = r.choice([g.m.And, g.m.Or])
            inner = r.choice([g.m.And, g.m.Or])
            lf = [g.bool_leaf([]), g.atom([])]
            cf = r.choice([mk(lf[0], k1), mk(k1, lf[1], k2), mk(lf[0], inner(k1, lf[1])), mk(mk(k1, lf[0]), lf[1]),
                           mk(mk(lf[0], mk(lf[1], k1)), inner(lf[0], k2)), mk(k1, k2), g.m.Not(mk(lf[0], k1))])
            cases.append(("conj", cf))
            cases.append(("disj", cf))
        # Boolean binders only: the two QE procedures (and everything else)
        b = g.boolf(r.choice([2, 3, 3]), [], quant="bool", qprob=0.3)
        if not has_quantifier(b):
            b = (g.m.Exists if r.random() < 0.5 else g.m.ForAll)([g.qb], g.m.Iff(b, g.m.Or(g.qb, g.atom([g.qb]))))
        cases.append(("shannon", b))
        cases.append(("selfsub", b))
        # ... and through shortcuts.qelim / Factory.qelim; quantifiers below connectives, theory atoms sometimes
        rb = r.choice([b, b, g.m.Not(b), g.m.And(g.bool_leaf([]), b), g.m.Implies(b, g.m.Not(b)),
                       g.m.Or(g.atom([]), b)])
        for proc_ in ("shannon", "selfsub"):
            rs = routes_for(proc_, rb)
            pick = r.choice(rs)
            e_, nm_, _lg = pick.split("|")
            cases.append((proc_, rb, None, None,
                          ["%s|%s|%s" % (e_, nm_, lg) for lg in ("None", "AUTO", r.choice(["BOOL", "detected"]))]))
        if r.random() < 0.3:
            cases.append(("nnf", b))
            cases.append(("aig", b))
            cases.append(("prenex", b))
        if r.random() < 0.05:
            cases.append(("shannon", f))      # usually raises: non-Boolean binders
        cases.append(("times", g.times_input()))
        if i % 2 == 0:
            cases.append(("times", g.times_repeated()))
        if i % 2 == 1:
            ps = g.prenex_shared()
            cases.append(("prenex", ps))
            if r.random() < 0.3:
                cases.append(("nnf", ps))
        if i % 3 == 0:
            qb_ = g.qe_block()
            cases.append(("shannon", qb_))
            cases.append(("selfsub", qb_))
        pi = g.propagate_input()
        cases.append(("propagate", pi))
        cases.append(("propagate", g.propagate_shadow()))
        if i % 4 == 0:
            cases.append(("propagate", pi, None, None, routes_for("propagate", pi)))
    return cases


def fragment_ok(proc, f):
    """is the input in the procedure's fragment (an exception there is a violation)?"""
    if proc in ("shannon", "selfsub"):
        seen, stack = set(), [f]
        while stack:
            n = stack.pop()
            if n.node_id() in seen:
                continue
            seen.add(n.node_id())
            if n.is_quantifier() and any(not v.symbol_type().is_bool_type() for v in n.quantifier_vars()):
                return False
            stack.extend(n.args())
    return True


def atom_kinds(f):
    """node types of the theory atoms / operators in f (for the signature of a violation)"""
    kinds, seen, stack = set(), set(), [f]
    while stack:
        n = stack.pop()
        if n.node_id() in seen:
            continue
        seen.add(n.node_id())
        kinds.add(wire.OPNAMES[n.node_type()])
        stack.extend(n.args())
    return kinds


def capture_shape(f):
    """a binder of f binds a symbol of a top-level definition while another symbol of a top-level definition is free
    in its body (substituting the one for the other is captured)"""
    import pysmt.rewritings as rw
    defs = set()
    for c in rw.conjunctive_partition(f):
        if c.is_equals():
            l, r_ = c.args()
            if (l.is_symbol() or l.is_constant()) and (r_.is_symbol() or r_.is_constant()):
                defs.update(x for x in (l, r_) if x.is_symbol())
    seen, stack = set(), [f]
    while stack:
        n = stack.pop()
        if n.node_id() in seen:
            continue
        seen.add(n.node_id())
        if n.is_quantifier():
            qv = set(n.quantifier_vars())
            if (qv & defs) and ((n.arg(0).get_free_variables() - qv) & defs):
                return True
        stack.extend(n.args())
    return False


def sig_for(proc, oracle, f, extra=None):
    kinds = atom_kinds(f)
    sig = {"proc": proc, "oracle": oracle,
           "select": "yes" if "arraySelect" in kinds else "no",
           "quantifier": "yes" if ("forall" in kinds or "exists" in kinds) else "no",
           "strConst": "yes" if "strConst" in kinds else "no"}
    if proc.startswith("propagate"):
        sig["capture"] = "yes" if capture_shape(f) else "no"
    if extra:
        sig.update(extra)
    return sig


def process(ctx, env, cases, record=True):
    """run K and S on the cases; returns number of S failures"""
    ig = gen.InterpGen(ctx.rng, gen.Universe(env, widths=(1, 2, 3)))
    mgr = env.formula_manager
    import time as _t0
    t_start = _t0.time()
    model_lines, sem_lines = [], []
    work = []
    n_int = 5 if ctx.tier == "quick" else 8
    cases = list(cases)       # route cases append the deviating results
    idx = -1
    while idx + 1 < len(cases):
        idx += 1
        case = cases[idx]
        proc, f = case[0], case[1]
        try:
            ef = wire.enc_term(f)
        except wire.OutOfFragment:
            ctx.count("out_of_fragment")
            continue
        routes = case[4] if len(case) > 4 else None
        if routes:
            # the same procedure through its other public routes: the outcome of the direct call is the reference;
            # a deviating result goes through all the S oracles below, as the result of this case
            direct = run_impl(env, proc, f)
            for route, got in check_routes(ctx, env, proc, f, direct, routes, semantic.readable(f, 600), ef):
                cases.append((proc, f, got, None, None, route))
            continue
        # a case may carry the result computed earlier, in the environment (history) it was generated for
        res = case[2] if len(case) > 2 and case[2] is not None else run_impl(env, proc, f)
        item = {"proc": proc, "f": f, "ef": ef, "res": res, "idx": idx,
                "hist": case[3] if len(case) > 3 else None, "route": case[5] if len(case) > 5 else None}
        # ---- K request (the model works on trees: skip results whose tree is huge, they are DAGs in Python)
        item["k"] = len(model_lines)
        if item["route"]:
            item["k_skip"] = True       # K compares the model with the direct call
            model_lines.append("echo T 1 boolConst b 1 0")
        elif res[0] == "ok" and proc in ("selfsub", "shannon") and eval_cost(res[1]) > 400000:
            item["k_skip"] = True
            ctx.count("k_skipped_tree_size_" + proc)
            model_lines.append("echo T 1 boolConst b 1 0")
        else:
            model_lines.append(request_line(proc, f))
        # ---- S requests
        outs = []      # (label, FNode to compare with f)
        if res[0] == "ok":
            if proc in ("conj", "disj"):
                parts = res[1]
                outs.append((proc, (mgr.And if proc == "conj" else mgr.Or)(parts)))
                item["shape_lines"] = []
                for p_ in parts:
                    item["shape_lines"].append(len(model_lines))
                    model_lines.append("shape %s %s" % ("notand" if proc == "conj" else "notor", wire.enc_term(p_)))
            else:
                outs.append((proc, res[1]))
                if proc in SHAPE_OF:
                    item["shape_lines"] = [len(model_lines)]
                    model_lines.append("shape %s %s" % (SHAPE_OF[proc], wire.enc_term(res[1])))
            if proc == "propagate":
                r2 = run_impl(env, "propagate_simp", f)
                item["res_simp"] = r2
                if r2[0] == "ok":
                    outs.append(("propagate_simp", r2[1]))
        its = interps_for(ig, f, n_int, ctx.rng)
        if proc == "propagate":
            its = [satisfy_definitions(f, it, ctx.rng) if i % 4 else it for i, it in enumerate(its + its)]
        item["sem"] = []
        for label, g_ in outs:
            cost = eval_cost(f) + eval_cost(g_)
            if cost > COST_LIMIT:
                ctx.count("s_equiv_skipped_cost_" + label)
                continue
            its_ = its[:max(1, min(len(its), COST_LIMIT // cost))]
            try:
                line = semantic.chk_equiv_line(f, g_, its_)
            except wire.OutOfFragment:
                ctx.count("out_of_fragment_result")
                continue
            item["sem"].append((label, len(sem_lines), g_))
            sem_lines.append(line)
        work.append(item)
    import time as _t
    t0 = _t.time()
    ctx.extra["t_impl_and_encode"] = round(ctx.extra.get("t_impl_and_encode", 0) + t0 - t_start, 1)
    model_ans = None
    try:
        model_ans = ctx.lean_run_sharded("C10", model_lines)
    except common.LeanError as e:
        ctx.report_l("driver C10 does not run", str(e))
    t1 = _t.time()
    ctx.extra["t_driver_C10"] = round(ctx.extra.get("t_driver_C10", 0) + t1 - t0, 1)
    sem_ans = None
    try:
        sem_ans = ctx.lean_run_sharded("Sem", sem_lines)
    except common.LeanError as e:
        ctx.report_l("driver Sem does not run", str(e))
    ctx.extra["t_driver_Sem"] = round(ctx.extra.get("t_driver_Sem", 0) + _t.time() - t1, 1)
    ctx.extra["sem_request_bytes"] = ctx.extra.get("sem_request_bytes", 0) + sum(len(l) for l in sem_lines)
    nfail = 0
    for item in work:
        proc, f, res = item["proc"], item["f"], item["res"]
        rd = semantic.readable(f, 600)
        changed = True
        if res[0] == "ok" and proc not in ("conj", "disj"):
            changed = res[1] is not f
        elif res[0] == "ok":
            changed = len(res[1]) != 1 or res[1][0] is not f
        ctx.case((proc, item["ef"]) if changed else None)
        ctx.count("proc_" + proc)
        if res[0] == "err":
            ctx.count("impl_raised_%s_%s" % (proc, res[1]))
        rep = {"proc": proc, "formula": rd, "term": item["ef"], "request": model_lines[item["k"]],
               "history": item["hist"], "route": item["route"],
               "impl": (semantic.readable(res[1], 600) if res[0] == "ok" and proc not in ("conj", "disj")
                        else repr(res)[:600])}
        if len(ctx.samples) < 6 and changed and ctx.rng.random() < 0.02:
            ctx.sample({"proc": proc, "formula": rd, "result": rep["impl"]})
        # ---------------- S
        if res[0] == "err":
            if fragment_ok(proc, f):
                nfail += 1
                ctx.report_s(sig_for(proc, "exception", f, {"error": res[1]}),
                             "%s raised %s on an input of its fragment: %s" % (proc, res[1], res[2]), rep)
        if item.get("res_simp") is not None and item["res_simp"][0] == "err":
            nfail += 1
            ctx.report_s(sig_for("propagate_simp", "exception", f, {"error": item["res_simp"][1]}),
                         "propagate_toplevel raised %s" % item["res_simp"][1], rep)
        if sem_ans is not None:
            for label, k, g_ in item["sem"]:
                a = sem_ans[k]
                if a.startswith("bad-op"):
                    ctx.infra("Sem driver rejected a request: %s :: %s" % (a, rd))
                elif a.startswith("fail"):
                    nfail += 1
                    kind = a.split()[1]
                    ctx.report_s(sig_for(label, "equiv", f, {"kind": kind}),
                                 "%s result is not equivalent to its input (%s): %s  ==>  %s" % (
                                     label, a[:80], semantic.readable(f, 200), semantic.readable(g_, 200)),
                                 dict(rep, sem_request=sem_lines[k], oracle=a, impl=semantic.readable(g_, 600)))
                else:
                    ctx.count("s_equiv_ok")
        if proc == "prenex" and res[0] == "ok":
            # the freshness of the renamed variables: no bound variable of the result is a free symbol of the input
            cap = sorted(v.symbol_name() for v in (bound_symbols(res[1]) & set(f.get_free_variables())))
            if cap:
                nfail += 1
                ctx.report_s(sig_for(proc, "fresh-capture", f, {"history": "yes" if item["hist"] else "no"}),
                             "prenex binds %s, which is free in its input: %s  ==>  %s" % (
                                 ", ".join(cap), rd[:200], rep["impl"][:300]), rep)
            else:
                ctx.count("s_fresh_ok")
        if model_ans is not None and "shape_lines" in item:
            for k in item["shape_lines"]:
                a = model_ans[k]
                if a == "false":
                    nfail += 1
                    ctx.report_s(sig_for(proc, "shape", f, {"shape": model_lines[k].split()[1]}),
                                 "%s result does not have the advertised shape %s: %s  ==>  %s" % (
                                     proc, model_lines[k].split()[1], rd[:200], rep["impl"][:300]),
                                 dict(rep, shape_request=model_lines[k]))
                elif a != "true":
                    ctx.infra("C10 driver: shape answer %r" % a[:80])
                else:
                    ctx.count("s_shape_ok")
        # ---------------- K
        if model_ans is None:
            continue
        a = model_ans[item["k"]]
        if a.startswith("bad-op") or a == "bad-fresh":
            ctx.infra("C10 driver rejected a request: %s :: %s" % (a[:80], rd))
            continue
        if item.get("k_skip"):
            continue
        if proc == "selfsub" and not fragment_ok(proc, f):
            ctx.count("k_skipped_selfsub_nonbool_binder")
            continue
        if proc in ("selfsub", "shannon") and bound_in_array_value(f):
            # model boundary: the models of the two eliminators substitute with a light rebuild (substT); the code
            # rebuilds an array value through FormulaManager.Array, which drops the entries equal to the new default
            # (Array(p)[3 := False] with p := False).  K does not cover these inputs; S (equivalence, shape) does.
            ctx.count("k_skipped_bound_var_in_array_value_" + proc)
            continue
        ctx.count("k_compared")
        krep = dict(rep, lean=a[:3000])
        if res[0] == "err":
            if a.startswith("ok"):
                ctx.report_k("%s: implementation raised %s, the model returns a result" % (proc, res[1]), krep)
            continue
        if not a.startswith("ok"):
            ctx.report_k("%s: the model answers %r, the implementation returns a result" % (proc, a[:40]), krep)
            continue
        if proc in ("conj", "disj"):
            lean_keys = sorted(wire.canon_key(wire.dec_term(t)) for t in split_list_answer(a))
            impl_keys = sorted(wire.term_key(p_) for p_ in res[1])
            if lean_keys != impl_keys:
                ctx.report_k("%s: model and implementation yield different elements" % proc, krep)
            continue
        lean_nodes = wire.dec_term(a[3:])
        impl_nodes = wire.dec_term(wire.enc_term(res[1]))
        if proc == "prenex":
            ok, why = same_up_to_fresh(impl_nodes, lean_nodes, set(all_symbols(f)))
            ctx.count("k_prenex_" + why.split()[0])
        else:
            ok, why = wire.canon_key(lean_nodes) == wire.canon_key(impl_nodes), "canonical keys differ"
        if not ok:
            ctx.report_k("%s: model and implementation differ (%s) on %s" % (proc, why, rd[:300]), krep)
    return nfail


def bool_subterms(env, f, limit=60):
    """Boolean-typed proper sub-formulas of f, smallest first"""
    out, seen, stack = [], set(), list(f.args())
    get_type = env.stc.get_type
    while stack:
        n = stack.pop()
        if n.node_id() in seen:
            continue
        seen.add(n.node_id())
        try:
            if get_type(n).is_bool_type() and not n.is_symbol() and not n.is_constant():
                out.append(n)
        except Exception:
            pass
        stack.extend(n.args())
    out.sort(key=lambda n: len(wire.enc_term(n)))
    return out[:limit]


def shrink(ctx, env):
    """one batched round: replace each distinct new S failure by the smallest Boolean sub-formula that fails the
    same way (same procedure and oracle)"""
    import json as _json
    known = [e for e in common.load_known() if e.get("property") == ctx.prop]
    firsts = {}
    for v in ctx.s_violations:
        if common.match_known(v["sig"], known) is not None or "term" not in v["replay"] or v["replay"].get("history"):
            continue
        key = _json.dumps(v["sig"], sort_keys=True)
        if key not in firsts and len(firsts) < 5:
            firsts[key] = v
    cands = []
    cand_terms = {}
    for key, v in firsts.items():
        proc = v["replay"]["proc"]
        if proc not in PROCS or proc == "propagate":
            continue
        try:
            f = build_fnode(env, wire.dec_term(v["replay"]["term"]))
        except Exception:
            continue
        for sub in bool_subterms(env, f):
            cands.append((key, proc, sub, v["replay"].get("route"), v["replay"].get("base_route")))
            cand_terms.setdefault(key, set()).add(wire.enc_term(sub))
    if not cands or ctx.time_left() < 30:
        return
    scratch = common.Ctx(ctx.prop, ctx.tier, ctx.seed)
    scratch.rng = ctx.rng
    process(scratch, env, [((proc, sub, None, None, [x_ for x_ in (base, route) if x_]) if route else (proc, sub))
                           for key, proc, sub, route, base in cands])
    for key, v in firsts.items():
        best = None
        for w in scratch.s_violations:
            if w["sig"].get("proc") == v["sig"].get("proc") and w["sig"].get("oracle") == v["sig"].get("oracle") \
                    and w["sig"].get("shape") == v["sig"].get("shape") \
                    and w["replay"].get("route") == v["replay"].get("route") \
                    and w["replay"]["term"] in cand_terms.get(key, ()):
                if best is None or len(w["replay"]["term"]) < len(best["replay"]["term"]):
                    best = w
        if best is not None and len(best["replay"]["term"]) < len(v["replay"]["term"]):
            v["what"] = best["what"] + "   [shrunk from: " + v["replay"]["formula"][:200] + "]"
            v["replay"] = dict(best["replay"], shrunk_from=v["replay"]["term"])
            ctx.count("shrunk")


def bound_in_array_value(f):
    """a variable bound somewhere in f occurs inside an array-value node (default or entry)"""
    bound = bound_symbols(f)
    if not bound:
        return False
    seen, stack = set(), [f]
    while stack:
        n = stack.pop()
        if n.node_id() in seen:
            continue
        seen.add(n.node_id())
        if n.is_array_value() and (set(n.get_free_variables()) & bound):
            return True
        stack.extend(n.args())
    return False


def bound_symbols(f):
    out, seen, stack = set(), set(), [f]
    while stack:
        n = stack.pop()
        if n.node_id() in seen:
            continue
        seen.add(n.node_id())
        if n.is_quantifier():
            out.update(n.quantifier_vars())
        stack.extend(n.args())
    return out


# ------------------------------------------------------------------------------------------- deep inputs
# Extreme but legal sizes: chains of And/Or/Not/Implies/Iff/Ite/Plus/Times/Minus nested 1500-5000 levels, under the
# default recursion limit.  The Lean drivers parse and evaluate terms recursively and are not used here: the stream
# is S only, judged by iterative Python checkers of the advertised shape and an iterative Python evaluator on a few
# assignments (Boolean binders exact).  No K, no theorem speaks about the cost.
DEEP_KINDS = ["and_l", "and_r", "or_l", "or_r", "not", "not_and", "imp_l", "imp_r", "iff", "ite", "mixed"]
DEEP_ARITH = ["plus_l", "plus_r", "times", "minus", "plus_times"]


def deep_build(env, desc):
    """desc = [kind, depth, base] -> FNode.  base: 'qf' | 'ex' | 'fa' (a Boolean quantifier at the bottom) |
    'exq' (a Boolean quantifier on top, the chain mentions its variable) | 'defs' (definitions among the conjuncts)"""
    m = env.formula_manager
    kind, n, base = desc
    a, b, c, qb = [m.Symbol(nm, BOOL) for nm in ("da", "db", "dc", "dq")]
    x, y, z = [m.Symbol(nm, INT) for nm in ("dx", "dy", "dz")]
    if kind in DEEP_ARITH:
        t = x
        for i in range(n):
            if kind == "plus_l":
                t = m.Plus(t, y if i % 2 else m.Int(1))
            elif kind == "plus_r":
                t = m.Plus(x if i % 3 else z, t)
            elif kind == "times":
                t = m.Times(t, y) if i % 2 else m.Times(m.Int(1), t)
            elif kind == "minus":
                t = m.Minus(t, y if i % 2 else m.Int(1))
            else:
                t = m.Plus(m.Times(x, y), t) if i % 2 else m.Plus(t, z)
        if base == "top_times":
            t = m.Times(m.Plus(y, m.Int(2)), t)
        return t
    leaves = [a, b, c, m.Not(a), m.LE(x, y)]
    if base == "exq":
        leaves = [a, qb, m.Not(qb), c, m.LE(x, y)]
    if base == "defs":
        leaves = [a, m.Equals(x, y), m.LE(x, z), m.Equals(y, m.Int(2)), m.Not(b), m.LT(z, x)]
    f = {"qf": a, "exq": qb, "defs": m.LE(z, m.Int(5)),
         "ex": m.Exists([qb], m.Or(qb, c)), "fa": m.ForAll([qb], m.Or(m.Not(qb), m.And(a, c)))}[base]
    for i in range(n):
        l = leaves[i % len(leaves)]
        k_ = kind if kind != "mixed" else DEEP_KINDS[(i * 7 + i // 5) % 10]
        if k_ == "and_l":
            f = m.And(f, l)
        elif k_ == "and_r":
            f = m.And(l, f)
        elif k_ == "or_l":
            f = m.Or(f, l)
        elif k_ == "or_r":
            f = m.Or(l, f)
        elif k_ == "not":
            f = m.Not(f)
        elif k_ == "not_and":
            f = m.Not(m.And(f, l))
        elif k_ == "imp_l":
            f = m.Implies(f, l)
        elif k_ == "imp_r":
            f = m.Implies(l, f)
        elif k_ == "iff":
            f = m.Iff(f, l)
        else:
            f = m.Ite(l, f, m.Not(l)) if i % 2 else m.Ite(f, l, b)
    if base == "exq":
        f = m.Exists([qb], f) if n % 2 else m.ForAll([qb], f)
    return f


def py_apply(n, v):
    if n.is_and():
        return all(v)
    if n.is_or():
        return any(v)
    if n.is_not():
        return not v[0]
    if n.is_implies():
        return (not v[0]) or v[1]
    if n.is_iff():
        return v[0] == v[1]
    if n.is_ite():
        return v[1] if v[0] else v[2]
    if n.is_plus():
        return sum(v)
    if n.is_minus():
        return v[0] - v[1]
    if n.is_times():
        p_ = 1
        for e in v:
            p_ *= e
        return p_
    if n.is_le():
        return v[0] <= v[1]
    if n.is_lt():
        return v[0] < v[1]
    if n.is_equals():
        return v[0] == v[1]
    raise ValueError("py_eval: operator %s" % n.node_type())


def py_eval(f, asg):
    """iterative evaluator (Bool / Int fragment of the deep stream); Boolean binders are enumerated"""
    memo, stack = {}, [f]
    while stack:
        n = stack[-1]
        i = n.node_id()
        if i in memo:
            stack.pop()
            continue
        if n.is_symbol():
            memo[i] = asg[n]
        elif n.is_bool_constant() or n.is_int_constant():
            memo[i] = n.constant_value()
        elif n.is_quantifier():
            vs = list(n.quantifier_vars())
            vals = []
            for bits in itertools.product([False, True], repeat=len(vs)):
                a2 = dict(asg)
                a2.update(zip(vs, bits))
                vals.append(py_eval(n.arg(0), a2))
            memo[i] = all(vals) if n.is_forall() else any(vals)
        else:
            pend = [c for c in n.args() if c.node_id() not in memo]
            if pend:
                stack.extend(pend)
                continue
            memo[i] = py_apply(n, [memo[c.node_id()] for c in n.args()])
        stack.pop()
    return memo[f.node_id()]


def is_conn(n):
    return n.is_bool_op() or n.is_ite()         # every ite of the deep stream is Boolean


def py_shape(shape, g):
    """iterative checkers of the advertised shapes -> None | what is wrong"""
    if shape == "prenex":
        while g.is_quantifier():
            g = g.arg(0)
        shape = "qf"
    seen, stack = set(), [g]
    while stack:
        n = stack.pop()
        if n.node_id() in seen:
            continue
        seen.add(n.node_id())
        if shape == "qf":
            if n.is_quantifier():
                return "a quantifier is left"
            stack.extend(n.args())
        elif shape in ("nnf", "aig"):
            if n.is_quantifier() or n.is_and() or (shape == "nnf" and n.is_or()):
                stack.extend(n.args())
            elif n.is_not():
                if shape == "nnf" and is_conn(n.arg(0)):
                    return "a negation over a connective"
                if shape == "aig":
                    stack.append(n.arg(0))
            elif is_conn(n):
                return "connective %s is left" % wire.OPNAMES[n.node_type()]
        elif shape == "times":
            if n.is_minus():
                return "a subtraction is left"
            if (n.is_times() or n.is_plus()) and any(c.is_plus() for c in n.args()):
                return "a sum below a %s" % ("product" if n.is_times() else "sum")
            stack.extend(n.args())
    return None


def deep_cases(ctx):
    """[(proc, desc)]: the procedures on the chain kinds they accept.  quick: the chains a procedure is sensitive to
    (And for the conjunctive partition and propagate, Or for the disjunctive one) plus 3 other kinds each, depth
    1500-3500; thorough: every kind, depth 1500-5000"""
    r = ctx.rng
    quick = ctx.tier == "quick"
    depth = lambda lo=1500, hi=(3500 if quick else 5000): r.randrange(lo, hi)
    forced = {"conj": ["and_l", "and_r"], "disj": ["or_l", "or_r"], "propagate": ["and_l", "and_r"],
              "propagate_simp": ["and_l"]}
    out = []
    for proc in ("nnf", "aig", "conj", "disj", "prenex", "shannon", "selfsub", "propagate", "propagate_simp"):
        kinds = list(DEEP_KINDS)
        if quick:
            must = forced.get(proc, [])
            rest = [k for k in DEEP_KINDS if k not in must]
            kinds = must + r.sample(rest, 3)
        for kind in kinds:
            bases = ["qf"]
            if proc in ("nnf", "aig"):
                bases = [r.choice(["qf", "ex", "fa", "exq"])]
            elif proc in ("shannon", "selfsub"):
                bases = [r.choice(["qf", "ex", "fa"]), "exq"] if not quick else [r.choice(["ex", "fa", "exq"])]
            elif proc == "prenex":
                # a quantifier below n Iff / Ite levels is legitimately copied 2^n times: monotone chains only
                bases = [r.choice(["ex", "fa"]) if kind not in ("iff", "ite", "mixed") else "qf"]
            elif proc.startswith("propagate"):
                bases = [r.choice(["qf", "defs"]) if kind not in ("and_l", "and_r") else "defs"]
            for base in bases:
                out.append((proc, [kind, depth(), base]))
    # the distributor is quadratic in the number of summands (pairwise products): long sums at moderate depth
    for kind in DEEP_ARITH:
        out.append(("times", [kind, depth() if kind == "times" else r.randrange(1500, 1700), "plain"]))
    out.append(("times", [r.choice(["plus_l", "plus_r", "minus"]), r.randrange(1000, 1500), "top_times"]))
    r.shuffle(out)
    return out


def deep_run(ctx, env, cases):
    """S on the deep inputs with the direct Python oracles"""
    r = ctx.rng
    m = env.formula_manager
    for proc, desc in cases:
        if ctx.time_left() < 40:
            ctx.count("deep_skipped_time")
            continue
        try:
            f = deep_build(env, desc)
        except RecursionError:
            ctx.infra("deep stream: the constructors hit the recursion limit on %r" % (desc,))
            continue
        name = "%s chain, depth %d, base %s" % tuple(desc)
        rep = {"proc": proc, "deep": desc, "formula": name, "history": None}
        sig = {"proc": proc, "deep": "yes", "chain": desc[0]}
        res = run_impl(env, proc, f)
        ctx.case((proc, "deep", desc[0], desc[2]))
        ctx.count("deep_" + proc)
        if res[0] == "err":
            ctx.report_s(dict(sig, oracle="exception", error=res[1]),
                         "%s raised %s on a legal deep input (%s): %s" % (proc, res[1], name, res[2][:120]), rep)
            continue
        # ---- shape
        bad = None
        if proc in ("conj", "disj"):
            parts = res[1]
            if any((p_.is_and() if proc == "conj" else p_.is_or()) for p_ in parts):
                bad = "a member is itself a%s" % (" conjunction" if proc == "conj" else " disjunction")
            elif len(set(parts)) != len(parts):
                bad = "a member occurs twice"
        elif proc in SHAPE_OF or proc == "times":
            bad = py_shape(SHAPE_OF.get(proc, "times"), res[1])
        if bad:
            ctx.report_s(dict(sig, oracle="shape"), "%s on a deep input (%s): %s" % (proc, name, bad), rep)
            continue
        ctx.count("deep_shape_ok")
        # ---- a few evaluations
        syms = [m.Symbol(nm, BOOL) for nm in ("da", "db", "dc", "dq")]
        ints = [m.Symbol(nm, INT) for nm in ("dx", "dy", "dz")]
        for k in range(4):
            asg = {sy: (r.random() < 0.5 if k else True) for sy in syms}
            small = desc[0] in ("times", "plus_times")
            asg.update({sy: r.choice([-1, 0, 1, 2] if small else [-3, -1, 0, 1, 2, 5]) for sy in ints})
            if desc[2] == "defs" and k % 2:
                asg[ints[0]] = asg[ints[1]] = 2           # the definitions x = y, y = 2 hold
            try:
                want = py_eval(f, asg)
                if proc in ("conj", "disj"):
                    vals = [py_eval(p_, asg) for p_ in res[1]]
                    got = all(vals) if proc == "conj" else any(vals)
                else:
                    got = py_eval(res[1], asg)
            except (ValueError, KeyError) as e:
                ctx.count("deep_eval_skipped_%s" % type(e).__name__)
                break
            if got != want:
                ctx.report_s(dict(sig, oracle="equiv"),
                             "%s on a deep input (%s): the result evaluates to %r, the input to %r under %s" % (
                                 proc, name, got, want,
                                 {sy.symbol_name(): v for sy, v in asg.items()}), rep)
                break
            ctx.count("deep_eval_ok")


# ------------------------------------------------------------------------------------------- fresh symbols and history
TYTOK = {"B": BOOL, "I": INT, "V2": BVType(2)}


def apply_history(env, steps):
    """replays, on a new environment, the calls that precede a prenex call: earlier fresh-symbol-creating calls and
    the declaration of user symbols whose names look like the manager's fresh names"""
    import pysmt.rewritings as rw
    m = env.formula_manager
    for st in steps:
        if st[0] == "fresh":
            m.FreshSymbol(TYTOK[st[1]])
        elif st[0] == "prenex":
            h = m.Symbol("ha", BOOL)
            rw.prenex_normal_form(m.And(m.Exists([h], m.Not(h)), h), env)
        elif st[0] == "declare":
            m.Symbol(st[1], TYTOK[st[2]])


def history_cases(ctx, n):
    """prenex calls that need alpha-renaming, on environments with a history: 0-3 earlier fresh-symbol-creating
    calls, THEN user symbols named like fresh names (FV<k>, Bool and other sorts, contiguous or not) that occur
    free in the formula.  The real result is computed at once, in that environment."""
    import re
    from pysmt.environment import push_env, pop_env
    r = ctx.rng
    out = []
    for _ in range(n):
        env = Environment()
        push_env(env)
        try:
            m = env.formula_manager
            steps = []
            for _h in range(r.choice([0, 0, 1, 1, 2, 3])):
                k = r.choice(["fresh", "fresh", "prenex"])
                steps.append(("fresh", r.choice(["B", "B", "I"])) if k == "fresh" else ("prenex",))
            apply_history(env, steps)
            nums = [int(mm.group(1)) for mm in (re.fullmatch(r"FV(\d+)", sy.symbol_name())
                                                for sy in m.get_all_symbols()) if mm]
            c = max(nums) + 1 if nums else 0
            offs = sorted(r.sample(range(0, 8), r.choice([1, 2, 3, 4, 5])))
            if r.random() < 0.3:
                offs = list(range(0, r.choice([2, 4, 7])))            # contiguous from the next name on
            decl = []
            for o in offs:
                tok = "B" if r.random() < 0.8 else r.choice(["I", "V2"])
                decl.append(("declare", "FV%d" % (c + o), tok))
            steps2 = steps + decl
            apply_history(env, decl)
            x, y = m.Symbol("hx", BOOL), m.Symbol("hy", BOOL)
            bools = [m.Symbol(nm, BOOL) for (_d, nm, tok) in decl if tok == "B"]
            ints = [m.Symbol(nm, INT) for (_d, nm, tok) in decl if tok == "I"]
            r.shuffle(bools)
            used = bools[:r.choice([1, 2, 3, 3])] if r.random() < 0.7 else bools
            b0 = used[0] if used else x
            atoms = list(used) + [m.LE(i_, m.Int(1)) for i_ in ints[:1]]
            shape = r.randrange(6)
            if shape == 0:
                f = m.And([x] + atoms + [m.Exists([x], m.Not(x))])
            elif shape == 1:
                f = m.Or([m.Not(x)] + [m.Not(a_) for a_ in atoms] + [m.ForAll([x], x)])
            elif shape == 2:
                f = m.And([x, y] + atoms + [m.Exists([x], m.Not(x)), m.ForAll([y], m.Or(y, m.Not(b0)))])
            elif shape == 3:
                f = m.Iff(m.And([x] + atoms), m.Exists([x], m.And(x, b0)))
            elif shape == 4:
                f = m.And(m.Or(x, b0), m.Exists([x, y], m.And(m.Not(x), y)), m.And([y] + atoms))
            else:
                f = m.Implies(m.ForAll([x], m.Or(x, b0)), m.And([x] + atoms))
            res = run_impl(env, "prenex", f)
            out.append(("prenex", f, res, [list(st) for st in steps2]))
        finally:
            pop_env()
    return out


def probes(env):
    """fixed inputs: the shapes of the findings F18/F19 and relatives, always part of the run"""
    m = env.formula_manager
    a, b, c = m.Symbol("p"), m.Symbol("q"), m.Symbol("r")
    arr = m.Symbol("a1_0", ArrayType(BVType(2), BOOL))
    i = m.Symbol("b2_0", BVType(2))
    x, y = m.Symbol("x", INT), m.Symbol("y", INT)
    s, t = m.Symbol("s", STRING), m.Symbol("t", STRING)
    sel = m.Select(arr, i)
    out = []
    for f in [m.Not(m.Ite(a, b, c)), m.Not(m.Ite(a, m.Not(b), m.Ite(b, c, a))), m.Ite(m.Not(m.Ite(a, b, c)), a, b),
              sel, m.Not(sel), m.And(a, sel), m.Iff(sel, m.Not(a)), m.Ite(sel, a, m.Not(sel)),
              m.ForAll([i], m.Or(sel, a))]:
        for proc in ("nnf", "aig", "prenex", "conj", "disj"):
            out.append((proc, f))
    for f in [m.TRUE(), m.FALSE(), m.Or(a, m.TRUE()), m.Or(m.TRUE(), a), m.Or(a, m.FALSE()), m.And(a, m.FALSE()),
              m.And(a, m.TRUE()), m.Or(a, m.Or(b, m.TRUE())), m.And(a, m.And(m.FALSE(), b)), m.Or(m.TRUE(), m.FALSE()),
              m.And(m.TRUE(), m.FALSE()), m.Or(m.And(a, m.TRUE()), m.FALSE())]:
        for proc in ("conj", "disj", "nnf", "aig"):
            out.append((proc, f))
    out.append(("prenex", m.And(m.ForAll([a], m.Or(a, b)), m.Exists([a], m.And(a, c)), a)))
    out.append(("prenex", m.Iff(m.ForAll([a], m.Or(a, b)), c)))
    out.append(("prenex", m.ForAll([a], m.ForAll([a], m.Or(a, b)))))
    out.append(("prenex", m.Ite(m.Exists([x], m.LT(x, y)), m.ForAll([x], m.LE(x, y)), a)))
    out.append(("propagate", m.And(m.Equals(x, y), m.Equals(y, m.Int(5)), m.LE(x, m.Int(5)))))
    out.append(("propagate", m.And(m.Equals(x, m.Int(1)), m.Equals(x, m.Int(2)))))
    out.append(("propagate", m.And(m.Equals(y, x), m.ForAll([x], m.LE(x, y)))))          # capture (F51)
    out.append(("propagate", m.Equals(m.String("a"), m.String("b"))))                     # F50
    r_, s_ = m.Symbol("u", REAL), m.Symbol("v", REAL)
    out.append(("propagate", m.And(m.Equals(x, m.Int(1)), m.LE(m.ToReal(x), r_))))         # ToReal(1) folds to 1.0
    out.append(("propagate", m.And(m.Equals(s_, m.Real(2)), m.LE(m.Div(r_, s_), r_))))     # r / 2.0 becomes r * 1/2
    # the guard of propagate_equiv is exact: a bound *key* or a constant representative is harmless
    out.append(("propagate", m.And(m.Equals(x, m.Int(1)), m.ForAll([x], m.LE(x, y)))))
    out.append(("propagate", m.And(m.Equals(x, y), m.ForAll([y], m.LE(y, m.Symbol("z", INT))))))
    # a quantifier re-binds the KEY of a definition (round 5: the substituter must not edit the caller's map):
    # the quantifier first / in the middle / last among the conjuncts
    for cj in ([m.ForAll([x], m.LE(y, x)), m.LT(y, x), m.Equals(x, m.Int(1))],
               [m.LT(y, x), m.ForAll([x], m.LE(y, x)), m.Equals(x, m.Int(1))],
               [m.Equals(x, m.Int(1)), m.LT(y, x), m.Exists([x], m.LE(y, x))],
               [m.Not(m.Exists([x], m.LT(x, y))), m.Equals(m.Int(2), x), m.LE(x, y)]):
        out.append(("propagate", m.And(cj)))
    # F52: a constant joins a class led by a symbol; the constant is also the index of an array value
    out.append(("propagate", m.And(m.Equals(m.Select(m.Array(INT, m.Int(0), {m.Int(5): m.Int(1)}), x), m.Int(1)),
                                   m.Equals(y, m.Int(5)), m.Equals(x, y))))
    out.append(("propagate", m.And(m.Equals(s, m.String("a")), m.Equals(s, t), m.StrContains(t, s))))
    out.append(("times", m.Times(m.Plus(x, m.Int(1)), m.Minus(y, m.Int(1)), x)))
    z = m.Symbol("z", INT)
    out.append(("times", m.Times(m.Plus(x, m.Int(1)), m.Plus(x, m.Int(1)))))              # same factor twice
    out.append(("times", m.Times(z, z, m.Plus(x, m.Int(1)))))
    out.append(("prenex", m.And(m.Exists([a], m.Or(a, b)), m.Or(a, b))))                     # body occurs again
    out.append(("prenex", m.Or(m.Or(a, b), m.ForAll([a], m.Or(a, b)))))
    qa, qb3, qc3 = m.Symbol("qb"), m.Symbol("qc"), m.Symbol("q3")
    out.append(("shannon", m.Exists([qa, qb3, qc3], m.And(qb3, qc3, c))))                    # witness: late assignments
    out.append(("shannon", m.ForAll([qa, qb3, qc3], m.Or(m.Not(qa), m.Not(qb3), m.Not(qc3), c))))
    out.append(("selfsub", m.Exists([qa, qb3, qc3], m.And(qb3, qc3, c))))
    out.append(("selfsub", m.ForAll([qa, qb3, qc3], m.Or(m.Not(qa), m.Not(qb3), m.Not(qc3), c))))
    qb = m.Symbol("qb")
    out.append(("shannon", m.Exists([qb], m.Not(qb))))
    out.append(("selfsub", m.Not(m.Exists([qb], m.Not(qb)))))
    out.append(("selfsub", m.ForAll([qb, a], m.Or(m.Not(qb), m.And(a, b)))))
    # every public route, quantifiers below connectives (round 4: Factory.qelim looked at the top node only)
    ex = m.Exists([qb], m.Or(qb, c))
    fa = m.ForAll([qb], m.And(qb, b))
    for f in [ex, m.And(b, ex), m.Not(fa), m.Implies(ex, fa), m.Iff(a, ex), m.And(a, b),
              m.Exists([qb], m.And(qb, m.LT(x, y))), m.Or(m.LT(x, y), fa), m.Not(m.Exists([x], m.LT(x, y)))]:
        for proc in ("shannon", "selfsub"):
            out.append((proc, f))
            out.append((proc, f, None, None, routes_for(proc, f)))
    for f in [m.Not(m.Ite(a, b, c)), m.And(b, ex), m.Implies(ex, fa), m.And(m.Exists([a], m.Or(a, b)), a)]:
        for proc in ("nnf", "aig", "prenex"):
            out.append((proc, f, None, None, routes_for(proc, f)))
    out.append(("propagate", m.And(m.Equals(x, y), m.LE(x, m.Int(5))), None, None,
                routes_for("propagate", None)))
    return out


def run(ctx):
    warnings.simplefilter("ignore")
    env = fresh_env()
    n_each = 110 if ctx.tier == "quick" else 1500
    cases = probes(env) + generate(ctx, env, n_each)
    ctx.extra["generated_cases"] = len(cases)
    chunk = 4000
    for i in range(0, len(cases), chunk):
        if i > 0 and ctx.time_left() < 60:       # the first chunk always runs (a slow Lean build must not empty the run)
            ctx.extra["stopped_early_at"] = i
            break
        process(ctx, env, cases[i:i + chunk])
    dc = deep_cases(ctx)
    if ctx.tier != "quick":
        dc = dc + deep_cases(ctx) + deep_cases(ctx)
    ctx.extra["deep_cases"] = len(dc)
    import time as _t
    t0 = _t.time()
    deep_run(ctx, env, dc)
    ctx.extra["t_deep"] = round(_t.time() - t0, 1)
    hc = history_cases(ctx, 60 if ctx.tier == "quick" else 600)
    ctx.extra["history_cases"] = len(hc)
    process(ctx, env, hc)
    if ctx.s_violations:
        try:
            shrink(ctx, env)
        except Exception as e:       # shrinking must never hide a failure
            ctx.count("shrink_failed_%s" % type(e).__name__)


def replay(ctx, rep):
    warnings.simplefilter("ignore")
    if "replay" not in rep:
        # a K divergence without a failing input: replay the recorded correspondence cases
        for kd in rep.get("broken_correspondence", []):
            if isinstance(kd, dict) and isinstance(kd.get("replay"), dict) and "term" in kd["replay"]:
                replay(ctx, {"replay": kd["replay"]})
        return
    r = rep["replay"]
    if r.get("history"):
        return replay_history(ctx, r)
    env = fresh_env()
    if r.get("deep"):
        print("procedure:", r["proc"])
        print("input    :", r["formula"], "(built by deep_build(env, %r))" % (r["deep"],))
        deep_run(ctx, env, [(r["proc"], r["deep"])])
        for v in ctx.s_violations:
            print("S:", v["what"][:400])
        return
    f = build_fnode(env, wire.dec_term(r["term"]))
    proc = r["proc"]
    print("procedure:", proc)
    print("input    :", semantic.readable(f, 2000))
    res = run_impl(env, proc, f)
    print("result   :", semantic.readable(res[1], 2000) if res[0] == "ok" and proc not in ("conj", "disj") else repr(res))
    if r.get("route"):
        routes = [x_ for x_ in (r.get("base_route"), r["route"]) if x_]
        for rt in routes:
            got = run_route(env, proc, f, rt)
            print("route %s :" % rt, semantic.readable(got[1], 2000) if got[0] == "ok" else repr(got))
        process(ctx, env, [(proc, f, None, None, routes)])
    else:
        process(ctx, env, [(proc, f)])
    for v in ctx.s_violations:
        print("S:", v["what"][:400])
    for v in ctx.k_divergences:
        print("K:", v["what"][:400])


def replay_history(ctx, r):
    """re-create the environment history, then the formula, then run"""
    from pysmt.environment import push_env, pop_env
    env = Environment()
    push_env(env)
    try:
        steps = [tuple(st) for st in r["history"]]
        apply_history(env, steps)
        f = build_fnode(env, wire.dec_term(r["term"]))
        print("history  :", steps)
        print("input    :", semantic.readable(f, 2000))
        res = run_impl(env, r["proc"], f)
        print("result   :", semantic.readable(res[1], 2000) if res[0] == "ok" else repr(res))
        process(ctx, env, [(r["proc"], f, res, r["history"])])
    finally:
        pop_env()
    for v in ctx.s_violations:
        print("S:", v["what"][:400])
    for v in ctx.k_divergences:
        print("K:", v["what"][:400])
