"""C06 — derived constructors and infix operators build formulas denoting the named function.

K (correspondence): every `FormulaManager` constructor, `shortcuts.Abs` and every infix method
of `FNode` (under `env.enable_infix_notation = True`) is called on generated arguments; the
Lean model (`lean/PySMT/Impl/Mk.lean`, driver `C06`: `mk` / `infix`, the latter interpreting
the table regenerated from fnode.py) is asked the same; the built formulas are compared
literally (wire encoding), exceptions by class.

S (search, independent of the model): the formula built by the *implementation* over symbols
is evaluated by the Lean reference semantics (`Sem` driver, `evalc`) under enumerated / sampled
assignments and compared with a direct Python definition of the named function.
"""
import itertools
import re
import warnings
from fractions import Fraction

import pysmt.environment
import pysmt.operators as op
import pysmt.shortcuts as shortcuts
from pysmt.exceptions import (PysmtTypeError, PysmtValueError, PysmtModeError,
                              UnsupportedOperatorError)
from pysmt.typing import BOOL, INT, REAL, STRING, BVType, ArrayType, FunctionType

import common
import semantic
import wire

LEAN_MODULES = ["PySMT.Props.C06"]
RULE = ("K: every FormulaManager constructor x argument shapes (sorts Bool/Int/Real/BV w in {1,2,3,4,8}/String/"
        "Array/UF, arities 0-6, Python literals in and out of range, ill-sorted operands) and every FNode infix "
        "method x receiver sort x right operand (formula / int / bool / Fraction / float / None / slice); "
        "S: every derived form x arity 0-6 x sort, exhaustive over Boolean assignments (arity <= 6) and bit-vector "
        "assignments up to width 3 (quick) / 4 (thorough) while the product is <= 4096 (quick) / 32768 (thorough), sampled beyond and for "
        "Int/Real; a case is non-trivial when the constructor rewrites (result root differs from a plain node of "
        "the called name) or dispatches (infix) or refuses its arguments; distinct = distinct (call, assignment)")
ASSUMPTIONS = ["reals are rationals", "divisions by zero are not evaluated (SMT-LIB leaves them unconstrained)",
               "negative rotation steps (accepted by pySMT, finding F06 of C03) are outside the model",
               "infix notation enabled (env.enable_infix_notation = True), default env.enable_div_by_0"]

BV_WIDTHS_K = (1, 2, 3, 4, 8)


# ------------------------------------------------------------------ plumbing
def exc_class(e):
    if isinstance(e, PysmtTypeError):
        return "type"
    if isinstance(e, PysmtValueError):
        return "value"
    if isinstance(e, PysmtModeError):
        return "mode"
    if isinstance(e, UnsupportedOperatorError):
        return "unsupported"
    if isinstance(e, AssertionError):
        return "assertion"
    if isinstance(e, IndexError):
        return "index"
    if type(e) is TypeError:
        return "py-type"
    if type(e) is ValueError:
        return "py-value"
    return "other"


class Sym:
    """a symbol passed where the code expects a symbol object (function name, bound variable)"""
    def __init__(self, f):
        self.f = f


def enc_arg(a):
    if isinstance(a, Sym):
        return "y %s %s" % (wire.hexs(a.f.symbol_name()), wire.enc_symty(a.f.symbol_type()))
    if hasattr(a, "node_type"):
        return wire.enc_term(a)
    if a is None:
        return "N"
    if isinstance(a, bool):
        return "b 1" if a else "b 0"
    if isinstance(a, int):
        return "i %d" % a
    if isinstance(a, float):
        a = Fraction(a)
    if isinstance(a, Fraction):
        return "q %d %d" % (a.numerator, a.denominator)
    if isinstance(a, str):
        return "s " + wire.hexs(a)
    if isinstance(a, slice):
        if a.step is not None:
            raise wire.OutOfFragment("slice with step")
        return "S %s %s" % ("-" if a.start is None else "%d" % a.start, "-" if a.stop is None else "%d" % a.stop)
    if hasattr(a, "is_bool_type"):
        return "t " + wire.enc_type(a)
    raise wire.OutOfFragment("argument %r" % (a,))


def show_arg(a):
    if isinstance(a, Sym):
        return "sym:" + a.f.symbol_name()
    if hasattr(a, "node_type"):
        return semantic.readable(a, 80)
    return repr(a)


def py_args(args):
    return [a.f if isinstance(a, Sym) else a for a in args]


class World:
    """the global environment (infix operators always use it) with infix notation on"""

    def __init__(self):
        self.env = pysmt.environment.reset_env()
        self.env.enable_infix_notation = True
        self.mgr = m = self.env.formula_manager
        self.p = [m.Symbol("p%d" % i, BOOL) for i in range(6)]
        self.i = [m.Symbol("i%d" % i, INT) for i in range(6)]
        self.r = [m.Symbol("r%d" % i, REAL) for i in range(6)]
        self.bv = {w: [m.Symbol("v%d_%d" % (w, i), BVType(w)) for i in range(6)] for w in BV_WIDTHS_K}
        self.s = [m.Symbol("s%d" % i, STRING) for i in range(3)]
        self.aii = m.Symbol("aii", ArrayType(INT, INT))
        self.avv = m.Symbol("avv", ArrayType(BVType(2), BVType(2)))
        self.f1 = m.Symbol("f1", FunctionType(INT, [INT]))
        self.f2 = m.Symbol("f2", FunctionType(BVType(2), [BVType(2), BOOL]))
        self.fr = m.Symbol("fr", FunctionType(REAL, [REAL, INT]))

    def sym(self, sort, j):
        """the j-th symbol of a sort (created on demand: the large-arity forms need hundreds)"""
        m = self.mgr
        if sort == "bool":
            lst, mk = self.p, lambda k: m.Symbol("p%d" % k, BOOL)
        elif sort == "int":
            lst, mk = self.i, lambda k: m.Symbol("i%d" % k, INT)
        elif sort == "real":
            lst, mk = self.r, lambda k: m.Symbol("r%d" % k, REAL)
        elif sort == "str":
            lst, mk = self.s, lambda k: m.Symbol("s%d" % k, STRING)
        else:
            w = sort[1]
            lst = self.bv.setdefault(w, [])
            mk = lambda k: m.Symbol("v%d_%d" % (w, k), BVType(w))
        while len(lst) <= j:
            lst.append(mk(len(lst)))
        return lst[j]

    def has_shortcut(self, name):
        f = getattr(shortcuts, name, None)
        return callable(f) and getattr(f, "__module__", None) == "pysmt.shortcuts" and hasattr(self.mgr, name)

    def call_mgr(self, name, args, via_shortcuts=False):
        with warnings.catch_warnings():
            warnings.simplefilter("ignore")
            if via_shortcuts:
                a = py_args(args)
                f = getattr(shortcuts, name)
                if name == "Array":
                    return f(a[0], a[1], dict(zip(a[2::2], a[3::2])))
                if name == "Function":
                    return f(a[0], a[1:])
                if name in ("ForAll", "Exists"):
                    return f(a[:-1], a[-1])
                return f(*a)
            if name == "Abs":
                return shortcuts.Abs(*py_args(args))
            if name == "Array":
                a = py_args(args)
                return self.mgr.Array(a[0], a[1], dict(zip(a[2::2], a[3::2])))
            if name == "Function":
                a = py_args(args)
                return self.mgr.Function(a[0], a[1:])
            if name in ("ForAll", "Exists"):
                a = py_args(args)
                return getattr(self.mgr, name)(a[:-1], a[-1])
            return getattr(self.mgr, name)(*py_args(args))

    def call_infix(self, name, recv, args):
        with warnings.catch_warnings():
            warnings.simplefilter("ignore")
            return getattr(recv, name)(*py_args(args))


def outcome(fn):
    try:
        r = fn()
    except Exception as e:           # every exception class is an outcome (RecursionError included)
        return ("err", exc_class(e), type(e).__name__)
    if not hasattr(r, "node_type"):
        return ("err", "other", "non-formula result %r" % (r,))
    try:
        return ("ok", wire.enc_term(r), r)
    except wire.OutOfFragment as e:
        return ("oof", str(e), r)


# ------------------------------------------------------------------ K: case generation
def pool(W, rng, sort, n=8):
    """terms of a sort: symbols, constants, small compound terms"""
    m = W.mgr
    if sort == "bool":
        base = list(W.p[:4]) + [m.TRUE(), m.FALSE(), m.Not(W.p[0]), m.And(W.p[0], W.p[1]), m.Or(W.p[2], m.Not(W.p[1])),
                                m.LE(W.i[0], W.i[1]), m.Iff(W.p[0], W.p[2])]
    elif sort == "int":
        base = list(W.i[:4]) + [m.Int(0), m.Int(1), m.Int(-3), m.Int(10 ** 20 + 1), m.Plus(W.i[0], m.Int(2)),
                                m.Times(W.i[1], W.i[2]), m.Ite(W.p[0], W.i[0], m.Int(5))]
    elif sort == "real":
        base = list(W.r[:4]) + [m.Real(0), m.Real(1), m.Real(Fraction(-7, 3)), m.Real(Fraction(1, 2)),
                                m.Plus(W.r[0], m.Real(2)), m.ToReal(W.i[0]), m.Ite(W.p[1], W.r[0], W.r[1])]
    elif sort[0] == "bv":
        w = sort[1]
        v = W.bv[w]
        top = (1 << w) - 1
        base = list(v[:4]) + [m.BV(0, w), m.BV(1, w), m.BV(top, w), m.BV(1 << (w - 1), w), m.BVNot(v[0]),
                              m.BVAdd(v[0], v[1]), m.Ite(W.p[0], v[1], v[2]), m.BVNeg(v[2])]
        if w == 2:
            base.append(m.Select(W.avv, v[0]))
            base.append(m.Function(W.f2, [v[0], W.p[0]]))
    elif sort == "str":
        base = list(W.s) + [m.String(""), m.String("ab"), m.String("007")]
    else:
        raise ValueError(sort)
    return base


def pick(rng, W, sort):
    return rng.choice(pool(W, rng, sort))


def other_sort(rng, sort):
    cands = ["bool", "int", "real", ("bv", 2), ("bv", 3), "str"]
    cands = [c for c in cands if c != sort]
    return rng.choice(cands)


def k_cases(W, rng, tier):
    """yield (kind, name, recv, args) — kind 'mk' (recv None) or 'infix'"""
    m = W.mgr
    reps = 2 if tier == "quick" else 8
    num = ["int", "real"]
    bvs = [("bv", w) for w in BV_WIDTHS_K]
    cases = []

    def mk(name, *args):
        cases.append(("mk", name, None, list(args)))

    def nary(name, sorts, arities=range(0, 7)):
        for s in sorts:
            for k in arities:
                for _ in range(reps):
                    args = [pick(rng, W, s) for _ in range(k)]
                    if k >= 2 and rng.random() < 0.15:      # one ill-sorted operand
                        args[rng.randrange(k)] = pick(rng, W, other_sort(rng, s))
                    mk(name, *args)

    def fixed(name, sig, sorts_for):
        """sig: tuple of slot kinds; sorts_for(): list of concrete slot sorts"""
        for _ in range(reps * 3):
            ss = sorts_for()
            args = [pick(rng, W, s) for s in ss]
            if rng.random() < 0.15:
                j = rng.randrange(len(args))
                args[j] = pick(rng, W, other_sort(rng, ss[j]))
            mk(name, *args)

    # Boolean
    for name in ("And", "Or", "AtMostOne", "ExactlyOne"):
        nary(name, ["bool"])
    nary("AllDifferent", ["bool", "int", "real", ("bv", 2), ("bv", 3), "str"])
    for name in ("Implies", "Iff", "Xor"):
        fixed(name, 2, lambda: ["bool", "bool"])
    fixed("Not", 1, lambda: ["bool"])
    for _ in range(reps * 2):
        mk("Not", m.Not(pick(rng, W, "bool")))
    mk("TRUE")
    mk("FALSE")
    for v in (True, False, 1, 0, None, Fraction(1)):
        mk("Bool", v)
    # arithmetic
    nary("Plus", num)
    nary("Times", num)
    nary("Min", num + [("bv", 2)])
    nary("Max", num + [("bv", 2)])
    for name in ("Minus", "GE", "GT", "LE", "LT", "Equals", "NotEquals", "EqualsOrIff", "Div"):
        for s in num + [("bv", 2), ("bv", 3), "bool", "str"]:
            fixed(name, 2, lambda s=s: [s, s])
    for c in (m.Real(0), m.Real(2), m.Real(Fraction(-1, 3)), m.Int(0), m.Int(2), m.Real(1)):
        for l in (W.r[0], W.i[0], m.Real(Fraction(3, 4)), m.Plus(W.r[0], W.r[1])):
            mk("Div", l, c)
    for s in num + ["bool", ("bv", 2)]:
        for _ in range(reps * 2):
            mk("ToReal", pick(rng, W, s))
            mk("Abs", pick(rng, W, s))
            t = rng.choice(num + ["bool", ("bv", 2), "str"])
            mk("Ite", pick(rng, W, "bool"), pick(rng, W, t), pick(rng, W, t))
            mk("Ite", pick(rng, W, s), pick(rng, W, t), pick(rng, W, "int"))
    for b, e in ((m.Int(2), m.Int(3)), (m.Int(2), m.Int(-1)), (m.Real(Fraction(1, 2)), m.Int(2)), (W.i[0], m.Int(2)),
                 (W.r[0], m.Real(2)), (W.i[0], W.i[1]), (m.Int(0), m.Int(0)), (m.Real(3), m.Real(2)),
                 (W.r[0], m.Int(2)), (m.Int(0), m.Int(-1))):
        mk("Pow", b, e)
    for b in (3, 10, -2, 7, 0, 1):
        for e in (-1, -2, -3, 0, 1, 5):
            mk("Pow", m.Int(b), m.Int(e))
            mk("Pow", m.Real(Fraction(b, 3)), m.Int(e))
            mk("Pow", m.Int(b), m.Real(e))
    for v in (0, 5, -7, 10 ** 20 + 1, True, 1.0, None, Fraction(3)):
        mk("Int", v)
    for v in (0, 5, -7, Fraction(1, 3), Fraction(-10, 4), 0.5, 2.0, True, None) + tuple(FLOATS) + tuple(BIG_INTS):
        mk("Real", v)
    for n in BIG_INTS:
        mk("Int", n)
        mk("ToReal", m.Int(n))
        mk("ToReal", m.Int(-n))
        mk("Div", W.r[0], m.Real(Fraction(n, 3)))
        mk("Div", m.Real(n), m.Real(n + 1))
        mk("Plus", m.Int(n), W.i[0])
        for w in (64, 128):
            if n < (1 << w):
                mk("BV", n, w)
                mk("SBV", -n, w + 1)
    for v in ("", "ab", "a\"b"):
        mk("String", v)
    # bit-vector constants
    for w in (0, 1, 2, 3, 4, 8):
        top = 1 << w
        for n in sorted({-1, 0, 1, top // 2 - 1, top // 2, top - 1, top, top + 1, -top // 2, -top // 2 - 1, -top}):
            mk("BV", n, w)
            mk("SBV", n, w)
        mk("BVOne", w)
        mk("BVZero", w)
    for sarg in ("#b0", "#b1", "#b0101", "0101", "1", "#b", "", "012", "#b2", "abc", "#b+1", "#b1_0", "#b0b1", "#b-1",
                 "+1", "1_0", "#b 1", "#b1 ", "#B01", "#b#b1", "0b1"):
        mk("BV", sarg)
        mk("SBV", sarg)
        mk("BV", sarg, 4)
        mk("BV", sarg, None)
    mk("BV", 3)
    mk("SBV", 3)
    mk("BV", True, 2)
    mk("BV", Fraction(1), 2)
    # bit-vector operators
    for name in ("BVAnd", "BVOr", "BVAdd", "BVMul", "BVConcat"):
        nary(name, [("bv", 1), ("bv", 2), ("bv", 3), ("bv", 8)], arities=range(0, 7))
        for _ in range(reps * 2):          # mixed widths (legal for concat, a type error otherwise)
            k = rng.randrange(2, 5)
            mk(name, *[pick(rng, W, rng.choice(bvs)) for _ in range(k)])
    for sign in (True, False):
        for s in [("bv", 1), ("bv", 2), ("bv", 4)]:
            for k in range(0, 7):
                for _ in range(reps):
                    mk("MinBV", sign, *[pick(rng, W, s) for _ in range(k)])
                    mk("MaxBV", sign, *[pick(rng, W, s) for _ in range(k)])
    bin_bv = ("BVXor", "BVSub", "BVUDiv", "BVURem", "BVSDiv", "BVSRem", "BVSMod", "BVNand", "BVNor", "BVXnor",
              "BVComp", "BVULT", "BVULE", "BVUGT", "BVUGE", "BVSLT", "BVSLE", "BVSGT", "BVSGE", "BVLShl",
              "BVLShr", "BVAShr")
    for name in bin_bv:
        for s in bvs:
            fixed(name, 2, lambda s=s: [s, s])
        for _ in range(reps):
            mk(name, pick(rng, W, ("bv", 2)), pick(rng, W, ("bv", 3)))
            mk(name, pick(rng, W, "int"), pick(rng, W, ("bv", 3)))
    for name in ("BVNot", "BVNeg", "BVToNatural"):
        for s in bvs + ["int", "bool"]:
            for _ in range(reps):
                mk(name, pick(rng, W, s))
    for name in ("BVLShl", "BVLShr", "BVAShr"):
        for w in (1, 2, 3, 4):
            for k in sorted({-1, 0, 1, w - 1, w, (1 << w) - 1, 1 << w, (1 << w) + 3}):
                mk(name, pick(rng, W, ("bv", w)), k)
        mk(name, pick(rng, W, ("bv", 2)), None)
        mk(name, pick(rng, W, ("bv", 2)), True)
    for name in ("BVRol", "BVRor", "BVZExt", "BVSExt"):
        for w in (1, 2, 3, 4, 8):
            for k in (0, 1, w - 1, w, w + 1, 5):
                mk(name, pick(rng, W, ("bv", w)), k)
        mk(name, pick(rng, W, ("bv", 2)), W.bv[2][0])
        mk(name, pick(rng, W, ("bv", 2)), None)
    for name in ("BVZExt", "BVSExt"):
        mk(name, pick(rng, W, ("bv", 2)), -1)
    for w in (1, 2, 3, 4, 8):
        x = pick(rng, W, ("bv", w))
        mk("BVExtract", x)
        for s_ in range(-1, w + 1):
            mk("BVExtract", x, s_)
            for e_ in range(-1, w + 2):
                if rng.random() < (1.0 if w <= 3 else 0.3):
                    mk("BVExtract", pick(rng, W, ("bv", w)), s_, e_)
        mk("BVExtract", x, 0, None)
        for k in (-2, 0, 1, 2, 3, 5):
            mk("BVRepeat", pick(rng, W, ("bv", w)), k)
        mk("BVRepeat", x)
    # strings, arrays, functions, quantifiers
    mk("StrLength", W.s[0])
    mk("StrLength", W.i[0])
    for k in range(0, 4):
        mk("StrConcat", *[pick(rng, W, "str") for _ in range(k)])
    mk("StrContains", W.s[0], W.s[1])
    mk("StrIndexOf", W.s[0], W.s[1], W.i[0])
    mk("StrIndexOf", W.s[0], W.s[1], W.s[2])
    mk("StrReplace", W.s[0], W.s[1], W.s[2])
    mk("StrSubstr", W.s[0], W.i[0], m.Int(2))
    mk("StrPrefixOf", W.s[0], W.s[1])
    mk("StrSuffixOf", W.s[0], W.s[1])
    mk("StrToInt", W.s[0])
    mk("IntToStr", W.i[0])
    mk("IntToStr", W.s[0])
    mk("StrCharAt", W.s[0], W.i[0])
    mk("Select", W.aii, W.i[0])
    mk("Select", W.aii, W.p[0])
    mk("Select", W.avv, W.bv[2][0])
    mk("Store", W.aii, W.i[0], m.Int(3))
    mk("Store", W.aii, W.i[0], W.p[0])
    mk("Store", W.avv, W.bv[2][0], W.bv[2][1])
    mk("Array", INT, m.Int(0))
    mk("Array", INT, m.Int(0), m.Int(1), m.Int(5), m.Int(2), m.Int(0))
    mk("Array", BVType(2), m.BV(0, 2), m.BV(1, 2), m.BV(3, 2))
    mk("Array", INT, m.Int(0), W.i[0], m.Int(5))
    mk("Array", INT, m.Int(0), m.Int(1), m.Real(5))
    # a dropped pair (value = default) whose key has the wrong sort / is not a constant
    mk("Array", INT, m.Int(0), m.BV(1, 2), m.Int(0))
    mk("Array", INT, m.Int(0), m.Real(1), m.Int(0), m.Int(2), m.Int(7))
    mk("Array", INT, m.Int(0), W.i[0], m.Int(0))
    mk("Array", BVType(2), m.BV(0, 2), m.BV(1, 2), m.BV(0, 2), m.BV(2, 2), m.BV(3, 2))
    # array values as keys: constant only when every child is a constant
    kc = m.Array(INT, m.Int(0), {m.Int(1): m.Int(2)})
    kn = m.Store(W.aii, m.Int(0), m.Int(1))
    mk("Array", ArrayType(INT, INT), m.Int(0), kc, m.Int(5))
    mk("Array", ArrayType(INT, INT), m.Int(0), kn, m.Int(5))
    mk("Array", ArrayType(INT, INT), m.Int(0), W.aii, m.Int(5))
    mk("Function", Sym(W.f1), W.i[0])
    mk("Function", Sym(W.f1), m.Int(3))
    mk("Function", Sym(W.f1), W.r[0])
    mk("Function", Sym(W.f1))
    mk("Function", Sym(W.f1), W.i[0], W.i[1])
    mk("Function", Sym(W.f2), W.bv[2][0], W.p[0])
    mk("Function", Sym(W.i[0]))
    mk("ForAll", Sym(W.i[0]), m.LE(W.i[0], W.i[1]))
    mk("ForAll", m.LE(W.i[0], W.i[1]))
    mk("Exists", Sym(W.p[0]), Sym(W.i[0]), m.And(W.p[0], m.LE(W.i[0], W.i[1])))
    mk("Exists", Sym(W.i[0]), W.i[0])

    # ---------------------------------------------------------------- infix
    receivers = [("bool", None), ("int", None), ("real", None), (("bv", 1), None), (("bv", 2), None),
                 (("bv", 4), None), ("str", None)]
    return cases, receivers


def infix_cases(W, rng, tier, methods):
    m = W.mgr
    reps = 1 if tier == "quick" else 4
    cases = []
    lits = [0, 1, 3, -1, 7, 16, True, False, Fraction(1, 2), Fraction(-3), 0.25, None, "#b01", 0.1, 1e23, 2 ** 64 + 1,
            Fraction(10 ** 30 + 7, 2 ** 64 + 1)]
    sorts = ["bool", "int", "real", ("bv", 1), ("bv", 2), ("bv", 4), "str"]
    two = {"Ite", "Store", "BVExtract"}
    unary = {"__neg__", "__invert__"}
    intpar = {"BVRepeat": (-1, 0, 1, 2, 3), "BVRol": (0, 1, 2, 5), "BVRor": (0, 1, 2, 5),
              "BVSExt": (0, 1, 3), "BVZExt": (0, 1, 3)}
    for name in methods:
        if name in ("_apply_infix", "_infix_prepare_arg"):
            continue
        for s in sorts:
            for _ in range(reps):
                recv = pick(rng, W, s)
                if name in unary:
                    cases.append(("infix", name, recv, []))
                    continue
                if name == "__call__":
                    continue
                if name == "__getitem__":
                    w = s[1] if isinstance(s, tuple) else 3
                    for idx in (0, w - 1, w, -1, slice(0, w - 1), slice(None, 0), slice(1, None), slice(None, None),
                                slice(w - 1, 0), slice(0, w), slice(1, 1)):
                        cases.append(("infix", name, recv, [idx]))
                    continue
                if name in intpar:
                    for k in intpar[name]:
                        cases.append(("infix", name, recv, [k]))
                    continue
                if name == "BVExtract":
                    w = s[1] if isinstance(s, tuple) else 3
                    for (a, b) in ((0, 0), (0, w - 1), (1, 0), (0, w)):
                        cases.append(("infix", name, recv, [a, b]))
                    continue
                if name == "Ite":
                    t = rng.choice(sorts)
                    cases.append(("infix", name, recv, [pick(rng, W, t), pick(rng, W, t)]))
                    cases.append(("infix", name, recv, [pick(rng, W, t), 3]))
                    continue
                if name == "Store":
                    cases.append(("infix", name, W.aii, [W.i[0], m.Int(1)]))
                    cases.append(("infix", name, recv, [W.i[0], m.Int(1)]))
                    continue
                if name == "Select":
                    cases.append(("infix", name, W.aii, [W.i[1]]))
                    cases.append(("infix", name, W.avv, [W.bv[2][1]]))
                    cases.append(("infix", name, recv, [W.i[1]]))
                    continue
                # binary through _apply_infix: same-sort formula, other-sort formula, literals
                cases.append(("infix", name, recv, [pick(rng, W, s)]))
                cases.append(("infix", name, recv, [pick(rng, W, s)]))
                cases.append(("infix", name, recv, [pick(rng, W, other_sort(rng, s))]))
                for l in lits:
                    cases.append(("infix", name, recv, [l]))
    # __call__
    cases.append(("infix", "__call__", W.f1, [W.i[0]]))
    cases.append(("infix", "__call__", W.f1, [3]))
    cases.append(("infix", "__call__", W.f1, [True]))
    cases.append(("infix", "__call__", W.f1, []))
    cases.append(("infix", "__call__", W.f1, [W.i[0], W.i[1]]))
    cases.append(("infix", "__call__", W.f2, [1, True]))
    cases.append(("infix", "__call__", W.f2, [W.bv[2][0], W.p[0]]))
    cases.append(("infix", "__call__", W.f2, [4, True]))
    cases.append(("infix", "__call__", W.fr, [Fraction(1, 2), 2]))
    cases.append(("infix", "__call__", W.fr, [0.5, 2]))
    cases.append(("infix", "__call__", W.fr, [1, 2]))
    cases.append(("infix", "__call__", W.i[0], [W.i[1]]))
    cases.append(("infix", "__call__", W.p[0], []))
    return cases


PRIMITIVE_ROOT = {   # constructor -> node type a "plain" call produces (anything else = rewritten)
    "Not": op.NOT, "And": op.AND, "Or": op.OR, "Implies": op.IMPLIES, "Iff": op.IFF, "Plus": op.PLUS,
    "Minus": op.MINUS, "Times": op.TIMES, "Div": op.DIV, "Equals": op.EQUALS, "LE": op.LE, "LT": op.LT,
    "Ite": op.ITE, "ToReal": op.TOREAL, "Pow": op.POW, "BVNot": op.BV_NOT, "BVNeg": op.BV_NEG,
    "BVXor": op.BV_XOR, "BVSub": op.BV_SUB, "BVUDiv": op.BV_UDIV, "BVURem": op.BV_UREM, "BVSDiv": op.BV_SDIV,
    "BVSRem": op.BV_SREM, "BVComp": op.BV_COMP, "BVULT": op.BV_ULT, "BVULE": op.BV_ULE, "BVSLT": op.BV_SLT,
    "BVSLE": op.BV_SLE, "BVRol": op.BV_ROL, "BVRor": op.BV_ROR, "BVZExt": op.BV_ZEXT, "BVSExt": op.BV_SEXT,
    "BVExtract": op.BV_EXTRACT, "BVToNatural": op.BV_TONATURAL, "Select": op.ARRAY_SELECT, "Store": op.ARRAY_STORE,
    "Function": op.FUNCTION, "ForAll": op.FORALL, "Exists": op.EXISTS, "Array": op.ARRAY_VALUE,
}


def run_k(ctx, W):
    rng = ctx.rng
    try:
        head = ctx.lean_run("C06", ["names", "methods"])
    except common.LeanError as e:
        ctx.report_l("driver C06 does not run", str(e))
        return
    names = head[0].split()
    methods = head[1].split()
    # the model must know every public constructor of the real manager, and the regenerated
    # table every infix method of the real class
    real_ctors = sorted(n for n in dir(W.mgr) if n[0].isupper() and callable(getattr(W.mgr, n)))
    missing = [n for n in real_ctors if n not in names and n not in ("Symbol", "FreshSymbol")]
    if missing:
        ctx.report_k("constructors of FormulaManager unknown to the model: %s" % missing,
                     {"kind": "coverage", "missing": missing})
    cases, _ = k_cases(W, rng, ctx.tier)
    cases += infix_cases(W, rng, ctx.tier, methods)
    reqs, meta = [], []
    for (kind, name, recv, args) in cases:
        try:
            if kind == "mk" and name == "Array":
                # the code visits the dictionary sorted by id(key)
                prs = sorted(zip(args[2::2], args[3::2]), key=lambda kv: id(kv[0]))
                args = args[:2] + [x for kv in prs for x in kv]
            if kind == "mk":
                line = "mk %s %d %s" % (name, len(args), " ".join(enc_arg(a) for a in args))
            else:
                line = "infix %s %s %d %s" % (name, wire.enc_term(recv), len(args), " ".join(enc_arg(a) for a in args))
        except wire.OutOfFragment:
            ctx.count("k_out_of_fragment_args")
            continue
        if kind == "mk":
            out = outcome(lambda: W.call_mgr(name, args))
        else:
            out = outcome(lambda: W.call_infix(name, recv, args))
        reqs.append(line.rstrip())
        meta.append((kind, name, recv, args, out))
        if kind == "mk" and W.has_shortcut(name):
            # the same call through the wrapper of pysmt.shortcuts: same request, same answer expected
            out2 = outcome(lambda: W.call_mgr(name, args, via_shortcuts=True))
            reqs.append(line.rstrip())
            meta.append(("sc", name, recv, args, out2))
    try:
        answers = ctx.lean_run_sharded("C06", reqs)
    except common.LeanError as e:
        ctx.report_l("driver C06 does not run", str(e))
        return
    seen_ctor, seen_meth = set(), set()
    sampled = set()
    for line, ans, (kind, name, recv, args, out) in zip(reqs, answers, meta):
        call = "%s%s(%s)" % ((semantic.readable(recv, 60) + ".") if kind == "infix" else
                             ("shortcuts." if kind == "sc" else ""), name,
                             ", ".join(show_arg(a) for a in args))
        rep = {"kind": kind, "call": call, "request": line, "lean": ans[:400],
               "impl": (out[0], out[1][:400]) if out[0] != "err" else out[:3]}
        if ans.startswith("bad-op"):
            ctx.infra("C06 driver rejected a request: %s :: %s" % (ans, call))
            continue
        if out[0] == "oof":
            ctx.count("k_result_out_of_fragment")
            continue
        nontrivial = None
        if out[0] == "err":
            nontrivial = line
        elif kind == "infix":
            nontrivial = line
        elif PRIMITIVE_ROOT.get(name) != out[2].node_type() or name not in PRIMITIVE_ROOT:
            nontrivial = line
        ctx.case(nontrivial)
        (seen_meth if kind == "infix" else seen_ctor).add(name)
        ctx.count("k_" + kind)
        if ans == "out-of-fragment":
            ctx.count("k_model_out_of_fragment")
            if out[0] == "ok" and not any(isinstance(a, int) and not isinstance(a, bool) and a < 0 for a in args):
                ctx.report_k("the model does not cover %s (implementation built a formula)" % call, rep)
            continue
        if out[0] == "ok":
            ctx.count("k_ok")
            if ans != "ok " + out[1]:
                ctx.report_k("%s: implementation built %s, model answers %s" % (
                    call, semantic.readable(out[2], 200), ans[:200]), rep)
            elif nontrivial is not None and name not in sampled and len(args) >= 2 and len(line) % 7 == 0:
                sampled.add(name)
                ctx.sample({"call": call, "built": semantic.readable(out[2], 160), "request": line[:200]}, limit=5)
        else:
            ctx.count("k_err_" + out[1])
            if not ans.startswith("err "):
                ctx.report_k("%s: implementation raises %s, model answers %s" % (call, out[2], ans[:200]), rep)
            elif out[1] != "other" and ans != "err other" and ans != "err " + out[1]:
                ctx.report_k("%s: implementation raises %s (%s), model answers %s" % (call, out[2], out[1], ans), rep)
    ctx.extra["k_constructors_exercised"] = len(seen_ctor)
    ctx.extra["k_infix_methods_exercised"] = len(seen_meth)
    unexercised = [n for n in names if n not in seen_ctor]
    if unexercised:
        ctx.extra["k_constructors_not_exercised"] = unexercised
    unexercised_m = [n for n in methods if n not in seen_meth and n not in ("_apply_infix", "_infix_prepare_arg")]
    if unexercised_m:
        ctx.extra["k_methods_not_exercised"] = unexercised_m


# ------------------------------------------------------------------ S: oracles (two's complement by hand)
def mask(w):
    return (1 << w) - 1


def sgn(w, v):
    return v - (1 << w) if (v >> (w - 1)) & 1 else v


def neg(w, v):
    return (-v) & mask(w)


def udiv(w, a, b):
    return mask(w) if b == 0 else a // b


def urem(w, a, b):
    return a if b == 0 else a % b


def sdiv(w, a, b):
    sa, sb = sgn(w, a) < 0, sgn(w, b) < 0
    q = udiv(w, neg(w, a) if sa else a, neg(w, b) if sb else b)
    return neg(w, q) if sa != sb else q


def srem(w, a, b):
    sa, sb = sgn(w, a) < 0, sgn(w, b) < 0
    r = urem(w, neg(w, a) if sa else a, neg(w, b) if sb else b)
    return neg(w, r) if sa else r


def smod(w, a, b):
    if b == 0:
        return a
    return (sgn(w, a) % sgn(w, b)) & mask(w)     # Python %: floor modulus, sign of the divisor


def shl(w, a, k):
    return (a << k) & mask(w) if k < w else 0


def lshr(w, a, k):
    return a >> k if k < w else 0


def ashr(w, a, k):
    return (sgn(w, a) >> min(k, w)) & mask(w)


def rol(w, a, k):
    k %= w
    return ((a << k) | (a >> (w - k))) & mask(w)


def ror(w, a, k):
    k %= w
    return ((a >> k) | (a << (w - k))) & mask(w)


def bvv(w, n):
    return ("bv", w, n & mask(w))


def fold(f, xs):
    acc = xs[0]
    for x in xs[1:]:
        acc = f(acc, x)
    return acc


class Refused(Exception):
    """the oracle says: these arguments are outside the documented domain"""



# ---- oracle values for composed infix expressions: the same Python expression text is evaluated
# ---- once on FNodes (building the formula through the infix layer) and once on these plain
# ---- values (the mathematical meaning of the operators), never touching pySMT
def _euclid_div(a, d):
    return a // d if d > 0 else -(a // -d)


class OB(object):
    """Boolean value"""
    def __init__(self, v):
        self.v = bool(v.v if isinstance(v, OB) else v)

    @staticmethod
    def of(o):
        if isinstance(o, OB):
            return o.v
        if isinstance(o, bool):
            return o
        raise Refused()

    def __and__(self, o): return OB(self.v and OB.of(o))
    __rand__ = __and__
    def __or__(self, o): return OB(self.v or OB.of(o))
    __ror__ = __or__
    def __xor__(self, o): return OB(self.v != OB.of(o))
    __rxor__ = __xor__
    def __invert__(self): return OB(not self.v)
    def Implies(self, o): return OB((not self.v) or OB.of(o))
    def Iff(self, o): return OB(self.v == OB.of(o))
    def And(self, o): return OB(self.v and OB.of(o))
    def Or(self, o): return OB(self.v or OB.of(o))
    def Ite(self, a, b): return a if self.v else b


class ON(object):
    """integer (Python int) or real (Fraction) value"""
    def __init__(self, v):
        self.v = v

    def co(self, o):
        if isinstance(o, ON):
            return o.v
        if isinstance(self.v, Fraction):
            if isinstance(o, bool) or not isinstance(o, (int, Fraction, float)):
                raise Refused()
            return Fraction(o)
        if type(o) is int:
            return o
        raise Refused()

    def mk(self, v): return ON(v)
    def __add__(self, o): return self.mk(self.v + self.co(o))
    __radd__ = __add__
    def __sub__(self, o): return self.mk(self.v - self.co(o))
    def __rsub__(self, o): return self.mk(self.co(o) - self.v)
    def __mul__(self, o): return self.mk(self.v * self.co(o))
    __rmul__ = __mul__
    def __neg__(self): return self.mk(-self.v)

    def __truediv__(self, o):
        d = self.co(o)
        if d == 0:
            raise ZeroDivisionError()
        return self.mk(self.v / d if isinstance(self.v, Fraction) else _euclid_div(self.v, d))

    def __lt__(self, o): return OB(self.v < self.co(o))
    def __le__(self, o): return OB(self.v <= self.co(o))
    def __gt__(self, o): return OB(self.v > self.co(o))
    def __ge__(self, o): return OB(self.v >= self.co(o))
    def Equals(self, o): return OB(self.v == self.co(o))
    def NotEquals(self, o): return OB(self.v != self.co(o))


class OV(object):
    """bit-vector value (unsigned representative)"""
    def __init__(self, w, n):
        self.w, self.n = w, n & mask(w)

    def co(self, o):
        if isinstance(o, OV):
            if o.w != self.w:
                raise Refused()
            return o.n
        if type(o) is int and 0 <= o < (1 << self.w):
            return o
        raise Refused()

    def mk(self, n): return OV(self.w, n)
    def __add__(self, o): return self.mk(self.n + self.co(o))
    __radd__ = __add__
    def __sub__(self, o): return self.mk(self.n - self.co(o))
    def __rsub__(self, o): return self.mk(self.co(o) - self.n)
    def __mul__(self, o): return self.mk(self.n * self.co(o))
    __rmul__ = __mul__
    def __truediv__(self, o): return self.mk(udiv(self.w, self.n, self.co(o)))
    def __mod__(self, o): return self.mk(urem(self.w, self.n, self.co(o)))
    def __and__(self, o): return self.mk(self.n & self.co(o))
    __rand__ = __and__
    def __or__(self, o): return self.mk(self.n | self.co(o))
    __ror__ = __or__
    def __xor__(self, o): return self.mk(self.n ^ self.co(o))
    __rxor__ = __xor__
    def __lshift__(self, o): return self.mk(shl(self.w, self.n, self.co(o)))
    def __rshift__(self, o): return self.mk(lshr(self.w, self.n, self.co(o)))
    def __neg__(self): return self.mk(-self.n)
    def __invert__(self): return self.mk(~self.n)
    def __lt__(self, o): return OB(self.n < self.co(o))
    def __le__(self, o): return OB(self.n <= self.co(o))
    def __gt__(self, o): return OB(self.n > self.co(o))
    def __ge__(self, o): return OB(self.n >= self.co(o))
    def Equals(self, o): return OB(self.n == self.co(o))
    def NotEquals(self, o): return OB(self.n != self.co(o))
    def BVSLT(self, o): return OB(sgn(self.w, self.n) < sgn(self.w, self.co(o)))
    def BVSGE(self, o): return OB(sgn(self.w, self.n) >= sgn(self.w, self.co(o)))
    def BVAShr(self, o): return self.mk(ashr(self.w, self.n, self.co(o)))
    def BVSMod(self, o): return self.mk(smod(self.w, self.n, self.co(o)))
    def BVXnor(self, o): return self.mk(~(self.n ^ self.co(o)))


def o_wrap(v):
    if isinstance(v, bool):
        return OB(v)
    if isinstance(v, (int, Fraction)):
        return ON(v)
    return OV(v[1], v[2])


def o_unwrap(o):
    if isinstance(o, OB):
        return o.v
    if isinstance(o, ON):
        return o.v
    if isinstance(o, OV):
        return ("bv", o.w, o.n)
    raise Refused()


EXPR_VAR = re.compile(r"\b([nb])(\d)\b")


def expr_form(text, base):
    """SForm of a Python infix expression over n0..n3 (sort `base`) and b0..b2 (Bool)"""
    used = sorted(set(m.group(0) for m in EXPR_VAR.finditer(text)), key=lambda x: (x[0] != "n", x))
    sorts = [base if v[0] == "n" else "bool" for v in used]
    code = compile(text, "<expr>", "eval")

    def build(W, a):
        return eval(code, {"Fraction": Fraction, "__builtins__": {}}, dict(zip(used, a)))

    def oracle(v):
        return o_unwrap(eval(code, {"Fraction": Fraction, "__builtins__": {}},
                             dict(zip(used, [o_wrap(x) for x in v]))))
    F = SForm("expr " + text, sorts, build, oracle)
    F.expr = True
    return F


def lit_text(rng, base):
    if base == "int":
        return rng.choice(["0", "1", "2", "3", "5", "(-1)", "(-4)"])
    if base == "real":
        return rng.choice(["0", "1", "2", "(-3)", "Fraction(1, 2)", "Fraction(-5, 3)", "0.25"])
    return str(rng.randrange(1 << base[1]))


def gen_num(rng, base, depth):
    """text of a numeric expression (never a bare literal)"""
    if depth <= 0 or rng.random() < 0.15:
        return "n%d" % rng.randrange(3)
    bv = isinstance(base, tuple)
    r = rng.random()
    if r < 0.22:
        return "(-%s)" % gen_num(rng, base, depth - 1)
    if bv and r < 0.30:
        return "(~%s)" % gen_num(rng, base, depth - 1)
    if r < 0.36 and depth >= 2:
        return "(%s).Ite(%s, %s)" % (gen_bool(rng, base, depth - 1), gen_num(rng, base, depth - 1),
                                     gen_num(rng, base, depth - 1))
    ops = ["+", "-", "*", "*", "-"] + (["/", "%", "&", "|", "^", "<<", ">>"] if bv else [])
    o = rng.choice(ops)
    left = gen_num(rng, base, depth - 1)
    k = rng.random()
    if k < 0.25:
        return "(%s %s %s)" % (left, o, lit_text(rng, base))
    if k < 0.40 and o in ("+", "-", "*", "&", "|", "^"):
        return "(%s %s %s)" % (lit_text(rng, base), o, left)
    if not bv and rng.random() < 0.1:
        d = rng.choice(["2", "3", "(-2)"]) if base == "int" else rng.choice(["2", "Fraction(-1, 3)", "0.5"])
        return "(%s / %s)" % (left, d)
    return "(%s %s %s)" % (left, o, gen_num(rng, base, depth - 1))


def gen_bool(rng, base, depth):
    if depth <= 0 or rng.random() < 0.15:
        return "b%d" % rng.randrange(2)
    r = rng.random()
    if r < 0.45:
        a = gen_num(rng, base, depth - 1)
        b = lit_text(rng, base) if rng.random() < 0.3 else gen_num(rng, base, depth - 1)
        c = rng.choice(["<", "<=", ">", ">=", "Equals", "NotEquals"])
        if c in ("Equals", "NotEquals"):
            return "(%s).%s(%s)" % (a, c, b)
        if rng.random() < 0.2 and not b.startswith("n") and not b.startswith("("):
            return "(%s %s %s)" % (b, c, a)
        return "(%s %s %s)" % (a, c, b)
    if r < 0.55:
        return "(~%s)" % gen_bool(rng, base, depth - 1)
    a = gen_bool(rng, base, depth - 1)
    b = rng.choice(["True", "False"]) if rng.random() < 0.15 else gen_bool(rng, base, depth - 1)
    c = rng.choice(["&", "|", "^", "Implies", "Iff"])
    if c in ("Implies", "Iff"):
        return "(%s).%s(%s)" % (a, c, b)
    if rng.random() < 0.3 and b in ("True", "False"):
        return "(%s %s %s)" % (b, c, a)
    return "(%s %s %s)" % (a, c, b)


def expr_forms(rng, tier):
    """composed infix expressions: a systematic family (negations / differences of products whose
    leftmost factor is itself a negation or a sum) and random expression trees"""
    out = []
    texts = []
    for base in ("int", "real"):
        fac = ["n0", "n1", "(-n0)", "(-n1)", "3", "(n0 + n1)"]
        left = ["(-n0)", "n0", "(n0 + 1)", "(-(n0 + n1))", "(2 - n1)"]
        prods = ["(%s * %s)" % (l, f) for l in left for f in fac]
        three = ["(%s * %s * %s)" % (l, f, g) for l in left for f in fac for g in fac]
        rng.shuffle(three)
        prods += three[:(30 if tier == "quick" else 180)]
        outers = ["-%s", "(5 - %s)", "(%s - n1)", "(%s * n1)", "(-%s + 2)", "(n1 + %s)", "-(-%s)", "(%s < n1)"]
        for P in prods:
            for o in outers:
                texts.append((o % P, base))
    n = 100 if tier == "quick" else 600
    for base in ("int", "real", ("bv", 2), ("bv", 3)):
        for _ in range(n):
            d = rng.choice([2, 3, 3])
            texts.append((gen_num(rng, base, d) if rng.random() < 0.6 else gen_bool(rng, base, d), base))
    seen = set()
    for (t, base) in texts:
        if (t, base) in seen or not EXPR_VAR.search(t):
            continue
        seen.add((t, base))
        out.append(expr_form(t, base))
    return out



LARGE_ARITIES = [31, 32, 33, 34, 35, 63, 64, 65, 66, 67, 127, 128, 129, 130, 255, 256, 257, 258, 500, 501]


def targeted(sort, n, identity_dups=False):
    """position-sensitive assignments for an n-ary form: a base value everywhere and a special value
    at the first / middle / last position (alone and in pairs), plus an 'identity' vector"""
    if sort == "bool":
        pairs = [(False, True), (True, False)]
        ident = [bool(i % 2) for i in range(n)]
    elif sort == "int":
        pairs = [(0, 1), (1, 0), (5, -3), (5, 9), (1, 2)]
        ident = list(range(n))
    elif sort == "str":
        pairs = [("", "a"), ("b", "a")]
        ident = [("a", "b", "ab")[i % 3] for i in range(n)]
    else:
        w = sort[1]
        top = (1 << w) - 1
        pairs = [(("bv", w, 0), ("bv", w, 1)), (("bv", w, top), ("bv", w, 0)), (("bv", w, 1), ("bv", w, top)),
                 (("bv", w, top), ("bv", w, 1 << (w - 1)))]
        ident = [("bv", w, i & top) for i in range(n)]
    mid = n // 2
    pos = sorted({0, mid, n - 1})
    two = [(0, mid), (mid, n - 1), (0, n - 1)]
    out = [tuple(ident)]
    for (b, sp) in pairs:
        out.append(tuple([b] * n))
        for p_ in pos:
            v = [b] * n
            v[p_] = sp
            out.append(tuple(v))
        for (p_, q_) in two:
            if p_ != q_:
                v = [b] * n
                v[p_] = sp
                v[q_] = sp
                out.append(tuple(v))
    if identity_dups:
        for (p_, q_) in two:
            if p_ != q_:
                v = list(ident)
                v[q_] = v[p_]
                out.append(tuple(v))
    seen, res = set(), []
    for t in out:
        if t not in seen:
            seen.add(t)
            res.append(t)
    return res


def large_forms(W, tier, rng):
    """every n-ary / cardinality constructor at large arities (31-35, 63-67, 127-130, 255-258, 500, 501)
    with position-sensitive assignments"""
    m = W.mgr
    quick = tier == "quick"

    def bvfold(f, w):
        return lambda v: bvv(w, fold(lambda x, y: f(x, y) & mask(w), [x[2] for x in v]))

    def cc(v):
        acc = 0
        for x in v:
            acc = (acc << x[1]) | x[2]
        return ("bv", sum(x[1] for x in v), acc)
    specs = [
        ("And", "bool", lambda a: m.And(a), lambda v: all(v), 501, True),
        ("Or", "bool", lambda a: m.Or(a), lambda v: any(v), 501, True),
        ("AtMostOne", "bool", lambda a: m.AtMostOne(a), lambda v: sum(1 for x in v if x) <= 1, 501, True),
        ("ExactlyOne", "bool", lambda a: m.ExactlyOne(*a), lambda v: sum(1 for x in v if x) == 1, 501, True),
        ("AllDifferent", "int", lambda a: m.AllDifferent(a), lambda v: len(set(v)) == len(v), 130, False),
        ("Plus", "int", lambda a: m.Plus(a), sum, 501, False),
        ("Times", "int", lambda a: m.Times(a), lambda v: fold(lambda x, y: x * y, v), 501, False),
        ("Min", "int", lambda a: m.Min(a), min, 501, False),
        ("Max", "int", lambda a: m.Max(*a), max, 501, False),
        ("BVAnd", ("bv", 3), lambda a: m.BVAnd(a), bvfold(lambda x, y: x & y, 3), 501, False),
        ("BVOr", ("bv", 3), lambda a: m.BVOr(*a), bvfold(lambda x, y: x | y, 3), 501, False),
        ("BVAdd", ("bv", 3), lambda a: m.BVAdd(a), bvfold(lambda x, y: x + y, 3), 501, False),
        ("BVMul", ("bv", 3), lambda a: m.BVMul(a), bvfold(lambda x, y: x * y, 3), 501, False),
        ("MinBV signed", ("bv", 2), lambda a: m.MinBV(True, a), lambda v: min(v, key=lambda x: sgn(2, x[2])), 501, False),
        ("MaxBV unsigned", ("bv", 2), lambda a: m.MaxBV(False, a), lambda v: max(v, key=lambda x: x[2]), 501, False),
        ("BVConcat", ("bv", 1), lambda a: m.BVConcat(a), cc, 501, False),
        ("StrConcat", "str", lambda a: m.StrConcat(a), lambda v: "".join(v), 501, False),
    ]
    out = []
    for (name, sort, build, oracle, cap, card) in specs:
        ar = [n for n in LARGE_ARITIES if n <= cap]
        if quick:
            pick = {33, rng.choice([a_ for a_ in ar if a_ > 35])} | ({65, rng.choice([129, 257, 501])} if card else set())
            if name == "AllDifferent":
                pick = {33, rng.choice([34, 35, 63, 64, 65, 66, 67])}
            ar = sorted(pick)
        for n in ar:
            # over symbols for the small ones; over constants beyond (the reference evaluator looks
            # symbols up linearly: hundreds of symbols in a quadratic formula are too slow)
            for const_args in ([False, True] if n <= 35 else [True]):
                F = SForm("%s arity %d%s" % (name, n, " (constant arguments)" if const_args else ""), [sort] * n,
                          lambda W_, a, build=build: build(a), oracle)
                F.asg = targeted(sort, n, identity_dups=(name == "AllDifferent"))
                F.const_args = const_args
                if quick and not card and len(F.asg) > 12:
                    F.asg = F.asg[:1] + rng.sample(F.asg[1:], 11)
                out.append(F)
    return out


def extreme_forms(W, tier, rng):
    """extreme but legal values: integer constants beyond 2**53 / 2**63 / 2**64 / 10**20 / 10**30, rationals
    with huge numerators and denominators, wide bit-vector constants, Python floats whose shortest repr is
    not their exact value -- in every constructor that folds or converts constants and as infix literals"""
    m = W.mgr
    out = []

    def cf(name, build, expected):
        F = SForm("const " + name, [], lambda W_, a: build(), lambda v: expected)
        F.asg = [()]
        out.append(F)
    for n in BIG_INTS:
        for sg in (1, -1):
            k = sg * n
            cf("ToReal(Int(%d))" % k, lambda k=k: m.ToReal(m.Int(k)), Fraction(k))
            cf("shortcuts.ToReal(Int(%d))" % k, lambda k=k: shortcuts.ToReal(shortcuts.Int(k)), Fraction(k))
            cf("ToReal(Int(%d)) < ToReal(Int(%d))" % (k, k + 1),
               lambda k=k: m.LT(m.ToReal(m.Int(k)), m.ToReal(m.Int(k + 1))), True)
            cf("Real(%d)" % k, lambda k=k: m.Real(k), Fraction(k))
            cf("Real((%d, 3))" % k, lambda k=k: m.Real((k, 3)), Fraction(k, 3))
            cf("Plus(Int(%d), Int(1))" % k, lambda k=k: m.Plus(m.Int(k), m.Int(1)), k + 1)
            cf("Times(Int(%d), Int(%d))" % (k, k), lambda k=k: m.Times(m.Int(k), m.Int(k)), k * k)
            cf("Div(Real(%d), Real(%d))" % (k, n + 1), lambda k=k, n=n: m.Div(m.Real(k), m.Real(n + 1)), Fraction(k, n + 1))
            cf("Div(Real(1), Real(%d/%d))" % (k, n + 2),
               lambda k=k, n=n: m.Div(m.Real(1), m.Real(Fraction(k, n + 2))), Fraction(n + 2, k))
            cf("Min(Int(%d), Int(%d))" % (k, k + 1), lambda k=k: m.Min(m.Int(k), m.Int(k + 1)), k)
            cf("Max(Real(%d), Real(%d + 1/2))" % (k, k),
               lambda k=k: m.Max(m.Real(k), m.Real(Fraction(2 * k + 1, 2))), Fraction(2 * k + 1, 2))
            cf("Abs(Int(%d))" % k, lambda k=k: shortcuts.Abs(m.Int(k)), abs(k))
            cf("GT(Int(%d), Int(%d))" % (k + 1, k), lambda k=k: m.GT(m.Int(k + 1), m.Int(k)), True)
            cf("Equals(ToReal(Int(%d)), Real(%d))" % (k, k), lambda k=k: m.Equals(m.ToReal(m.Int(k)), m.Real(k)), True)
        for w in (64, 70, 128, 200):
            if n + 1 >= (1 << w):
                continue
            cf("BVToNatural(BV(%d, %d))" % (n, w), lambda n=n, w=w: m.BVToNatural(m.BV(n, w)), n)
            cf("BVToNatural(SBV(-%d, %d))" % (n, w + 1), lambda n=n, w=w: m.BVToNatural(m.SBV(-n, w + 1)), (1 << (w + 1)) - n)
            cf("BVAdd(BV(%d, %d), BVOne)" % (n, w), lambda n=n, w=w: m.BVAdd(m.BV(n, w), m.BVOne(w)), ("bv", w, n + 1))
            cf("BVULT(BV(%d, %d), +1)" % (n, w), lambda n=n, w=w: m.BVULT(m.BV(n, w), m.BV(n + 1, w)), True)
            cf("BVZExt(BV(%d, %d), 3)" % (n, w), lambda n=n, w=w: m.BVZExt(m.BV(n, w), 3), ("bv", w + 3, n))
            cf("BV(%d, %d) << 1" % (n, w), lambda n=n, w=w: m.BVLShl(m.BV(n, w), 1), ("bv", w, (2 * n) & mask(w)))
    for f in FLOATS:
        cf("Real(%r)" % f, lambda f=f: m.Real(f), Fraction(f))
        cf("shortcuts.Real(%r)" % f, lambda f=f: shortcuts.Real(f), Fraction(f))
        cf("Real(%r) vs decimal" % f, lambda f=f: m.Equals(m.Real(f), m.Real(Fraction(str(f)))), Fraction(f) == Fraction(str(f)))

    def ex(text, base, values):
        F = expr_form(text, base)
        F.asg = [(v,) for v in values]
        out.append(F)

    def lit(x):
        if isinstance(x, Fraction):
            return "Fraction(%d, %d)" % (x.numerator, x.denominator)
        r = repr(x)
        return "(%s)" % r if r.startswith("-") else r
    shapes = ["(n0 + %s)", "(%s + n0)", "(n0 - %s)", "(%s - n0)", "(n0 * %s)", "(%s * n0)", "(n0 < %s)", "(%s < n0)",
              "(n0 >= %s)", "n0.Equals(%s)", "n0.NotEquals(%s)", "(-(n0 * %s))"]
    for n in BIG_INTS + [-x for x in BIG_INTS[:2]]:
        for sh in shapes:
            ex(sh % lit(n), "int", [0, 1, -1, n, n - 1, n + 1, 2 ** 53, -n])
            ex(sh % lit(n), "real", [Fraction(0), Fraction(n), Fraction(n) + Fraction(1, 2), Fraction(n - 1), Fraction(1, 3)])
    big_q = [Fraction(10 ** 30 + 7, 2 ** 64 + 1), Fraction(-(2 ** 53 + 1), 10 ** 20 + 3), Fraction(1, 2 ** 70 + 1)]
    for q in big_q:
        for sh in shapes + ["(n0 / %s)"]:
            ex(sh % lit(q), "real", [Fraction(0), q, q + 1, q * 2, Fraction(1, 3), -q])
    for f in FLOATS:
        exact, dec = Fraction(f), Fraction(str(f))
        vals = [exact, dec, Fraction(0), Fraction(1), exact * 2, dec - exact, Fraction(1, 3)]
        for sh in shapes + ["(n0 / %s)", "(n0 <= %s)", "(%s > n0)"]:
            ex(sh % lit(f), "real", vals)
    return out


def const_operand_forms(forms, tier):
    """the same form with a CONSTANT FNode (TRUE/FALSE, Int 0/1, BV 0/max) in one argument position, the
    other positions staying symbols (constructors with fast paths on constant operands)"""
    out = []
    for F in forms:
        k = len(F.sorts)
        if k < 1 or k > 6 or getattr(F, "expr", False) or F.asg is not None:
            continue
        positions = range(k) if k <= 3 else (0, k // 2, k - 1)
        for j in positions:
            sj = F.sorts[j]
            if sj == "bool":
                cands = [True, False]
            elif sj == "int":
                cands = [0, 1] if tier != "quick" else [0]
            elif sj == "real":
                cands = [Fraction(0), Fraction(1)] if tier != "quick" else [Fraction(0)]
            else:
                if sj[1] > 2 and tier == "quick":
                    continue
                cands = [("bv", sj[1], 0), ("bv", sj[1], mask(sj[1]))]
            if sj != "bool" and tier == "quick":
                continue
            for cv in cands:
                def build(W, a, F=F, j=j, sj=sj, cv=cv):
                    c = semantic.val_to_fnode(W.mgr, sort_type(sj), cv)
                    return F.build(W, list(a[:j]) + [c] + list(a[j:]))

                def oracle(v, F=F, j=j, cv=cv):
                    return F.oracle(list(v[:j]) + [cv] + list(v[j:]))
                nm = "%s @const%d=%s" % (F.name, j, cv if not isinstance(cv, tuple) else "bv%d" % cv[2])
                out.append(SForm(nm, F.sorts[:j] + F.sorts[j + 1:], build, oracle, True))
    return out


def variant_forms(forms, tier):
    """the same form on permuted argument lists (call history on one manager: these are built
    after the originals), on lists with repeated operands, and on lists in which the same
    compound operand is built twice (`x+1, y, x+1`: one node by hash-consing)"""
    out = []
    perms = {2: [[1, 0]], 3: [[2, 1, 0], [1, 0, 2]], 4: [[3, 2, 1, 0], [1, 0, 3, 2]], 5: [[4, 3, 2, 1, 0]],
             6: [[5, 4, 3, 2, 1, 0], [3, 4, 5, 0, 1, 2]]}
    reps = {2: [[0, 0]], 3: [[0, 1, 0], [0, 0, 1], [0, 0, 0]], 4: [[0, 1, 1, 0], [1, 0, 1, 0]],
            5: [[0, 1, 2, 1, 0]], 6: [[0, 1, 2, 0, 1, 2]]}
    comp = {2: [[0, 0]], 3: [[0, 1, 0]], 4: [[0, 1, 1, 0]]}
    for F in forms:
        k = len(F.sorts)
        if k < 2 or len(set(F.sorts)) != 1 or getattr(F, "expr", False):
            continue
        s0 = F.sorts[0]
        if isinstance(s0, tuple) and s0[1] > (2 if tier == "quick" else 3):
            continue

        def mkv(tag, idxs, bump, F=F, s0=s0):
            n = max(idxs) + 1

            def tf(W, x):
                m = W.mgr
                if not bump:
                    return x
                if s0 == "bool":
                    return m.Not(x)
                if s0 == "int":
                    return m.Plus(x, m.Int(1))
                if s0 == "real":
                    return m.Plus(x, m.Real(1))
                return m.BVNot(x)

            def tv(v):
                if not bump:
                    return v
                if s0 == "bool":
                    return not v
                if s0 in ("int", "real"):
                    return v + 1
                return bvv(s0[1], ~v[2])
            V = SForm("%s @%s%s" % (F.name, tag, "".join(str(i) for i in idxs)), [s0] * n,
                      lambda W, a: F.build(W, [tf(W, a[i]) for i in idxs]),
                      lambda v: F.oracle([tv(v[i]) for i in idxs]), True)
            out.append(V)
        for pi in perms.get(k, []):
            mkv("perm", pi, False)
        for ri in reps.get(k, []):
            mkv("rep", ri, False)
        for ci in comp.get(k, []):
            mkv("same", ci, True)
    return out


class SForm:
    """one derived form: how to build it on formulas, the named function on values"""

    def __init__(self, name, sorts, build, oracle, rewritten=True):
        self.name = name
        self.sorts = sorts          # list of sort descriptors of the symbolic arguments
        self.build = build          # (W, [symbols]) -> formula (real code)
        self.oracle = oracle        # ([python values]) -> python value, or raises Refused
        self.rewritten = rewritten
        self.asg = None             # explicit list of assignments (targeted), instead of the domains
        self.const_args = False     # build on constant arguments (one formula per assignment)


class ShortcutsProxy(object):
    """`m.X(...)` goes through the wrapper `pysmt.shortcuts.X` when there is one"""
    def __init__(self, mgr):
        self._mgr = mgr

    def __getattr__(self, n):
        f = getattr(shortcuts, n, None)
        if callable(f) and getattr(f, "__module__", None) == "pysmt.shortcuts" and hasattr(self._mgr, n):
            return f
        return getattr(self._mgr, n)


def s_forms(W, tier, rng):
    maxw = 3 if tier == "quick" else 4
    base = base_forms(W, tier, rng, W.mgr, "", maxw)
    via_sc = base_forms(W, tier, rng, ShortcutsProxy(W.mgr), " [shortcuts]", 2 if tier == "quick" else 3)
    return (base + via_sc + variant_forms(base, tier) + const_operand_forms(base + via_sc, tier) +
            expr_forms(rng, tier) + extreme_forms(W, tier, rng) + large_forms(W, tier, rng))


def base_forms(W, tier, rng, m, tag, maxw):
    forms = []
    widths = list(range(1, maxw + 1))

    def add(name, sorts, build, oracle, rewritten=True):
        if tag and name.startswith("infix"):
            return
        forms.append(SForm(name + tag, sorts, build, oracle, rewritten))

    B, I, R = "bool", "int", "real"

    def count_true(vs):
        return sum(1 for v in vs if v)

    def distinct(vs):
        return all(vs[a] != vs[b] for a in range(len(vs)) for b in range(a + 1, len(vs)))

    # ---- Boolean, arities 0..6
    for k in range(0, 7):
        add("And", [B] * k, lambda W, a: m.And(a), lambda v: all(v))
        add("Or", [B] * k, lambda W, a: m.Or(*a), lambda v: any(v))
        add("AtMostOne", [B] * k, lambda W, a: m.AtMostOne(a), lambda v: count_true(v) <= 1)
        add("AtMostOne*", [B] * k, lambda W, a: m.AtMostOne(*a), lambda v: count_true(v) <= 1)
        add("ExactlyOne", [B] * k, lambda W, a: m.ExactlyOne(a), lambda v: count_true(v) == 1)
        add("ExactlyOne*", [B] * k, lambda W, a: m.ExactlyOne(*a), lambda v: count_true(v) == 1)
        add("AllDifferent", [B] * k, lambda W, a: m.AllDifferent(a), distinct)
        add("AllDifferent", [I] * k, lambda W, a: m.AllDifferent(*a), distinct)
        add("AllDifferent", [R] * k, lambda W, a: m.AllDifferent(a), distinct)
        for w in (1, 2):
            add("AllDifferent", [("bv", w)] * k, lambda W, a: m.AllDifferent(a), distinct)
        # with a negated argument (exercises Not(Not x) inside the encodings)
        if k >= 1:
            add("AtMostOne~", [B] * k, lambda W, a: m.AtMostOne([m.Not(x) for x in a]),
                lambda v: count_true([not x for x in v]) <= 1)
            add("ExactlyOne~", [B] * k, lambda W, a: m.ExactlyOne([m.Not(x) for x in a]),
                lambda v: count_true([not x for x in v]) == 1)
    add("Not", [B], lambda W, a: m.Not(a[0]), lambda v: not v[0], False)
    add("NotNot", [B], lambda W, a: m.Not(m.Not(a[0])), lambda v: v[0])
    add("Implies", [B, B], lambda W, a: m.Implies(*a), lambda v: (not v[0]) or v[1], False)
    add("Iff", [B, B], lambda W, a: m.Iff(*a), lambda v: v[0] == v[1], False)
    add("Xor", [B, B], lambda W, a: m.Xor(*a), lambda v: v[0] != v[1])
    add("EqualsOrIff", [B, B], lambda W, a: m.EqualsOrIff(*a), lambda v: v[0] == v[1])
    add("infix &", [B, B], lambda W, a: a[0] & a[1], lambda v: v[0] and v[1])
    add("infix |", [B, B], lambda W, a: a[0] | a[1], lambda v: v[0] or v[1])
    add("infix ^", [B, B], lambda W, a: a[0] ^ a[1], lambda v: v[0] != v[1])
    add("infix ~", [B], lambda W, a: ~a[0], lambda v: not v[0])
    add("infix & True", [B], lambda W, a: a[0] & True, lambda v: v[0])
    add("infix False | x", [B], lambda W, a: False | a[0], lambda v: v[0])
    add("infix True ^ x", [B], lambda W, a: True ^ a[0], lambda v: not v[0])
    add("infix .Implies", [B, B], lambda W, a: a[0].Implies(a[1]), lambda v: (not v[0]) or v[1])
    add("infix .Iff", [B, B], lambda W, a: a[0].Iff(a[1]), lambda v: v[0] == v[1])
    add("infix .And", [B, B], lambda W, a: a[0].And(a[1]), lambda v: v[0] and v[1])
    add("infix .Or", [B, B], lambda W, a: a[0].Or(a[1]), lambda v: v[0] or v[1])
    add("infix .Ite", [B, B, B], lambda W, a: a[0].Ite(a[1], a[2]), lambda v: v[1] if v[0] else v[2])
    add("infix .Ite", [B, I, I], lambda W, a: a[0].Ite(a[1], a[2]), lambda v: v[1] if v[0] else v[2])

    # ---- Int / Real
    for S_ in (I, R):
        add("GE", [S_, S_], lambda W, a: m.GE(*a), lambda v: v[0] >= v[1])
        add("GT", [S_, S_], lambda W, a: m.GT(*a), lambda v: v[0] > v[1])
        add("LE", [S_, S_], lambda W, a: m.LE(*a), lambda v: v[0] <= v[1], False)
        add("LT", [S_, S_], lambda W, a: m.LT(*a), lambda v: v[0] < v[1], False)
        add("Equals", [S_, S_], lambda W, a: m.Equals(*a), lambda v: v[0] == v[1], False)
        add("NotEquals", [S_, S_], lambda W, a: m.NotEquals(*a), lambda v: v[0] != v[1])
        add("EqualsOrIff", [S_, S_], lambda W, a: m.EqualsOrIff(*a), lambda v: v[0] == v[1])
        add("Minus", [S_, S_], lambda W, a: m.Minus(*a), lambda v: v[0] - v[1], False)
        add("Abs", [S_], lambda W, a: shortcuts.Abs(a[0]), lambda v: abs(v[0]))
        add("infix +", [S_, S_], lambda W, a: a[0] + a[1], lambda v: v[0] + v[1])
        add("infix -", [S_, S_], lambda W, a: a[0] - a[1], lambda v: v[0] - v[1])
        add("infix *", [S_, S_], lambda W, a: a[0] * a[1], lambda v: v[0] * v[1])
        add("infix <", [S_, S_], lambda W, a: a[0] < a[1], lambda v: v[0] < v[1])
        add("infix <=", [S_, S_], lambda W, a: a[0] <= a[1], lambda v: v[0] <= v[1])
        add("infix >", [S_, S_], lambda W, a: a[0] > a[1], lambda v: v[0] > v[1])
        add("infix >=", [S_, S_], lambda W, a: a[0] >= a[1], lambda v: v[0] >= v[1])
        add("infix neg", [S_], lambda W, a: -a[0], lambda v: -v[0])
        add("infix 5 - x", [S_], lambda W, a: 5 - a[0], lambda v: 5 - v[0])
        add("infix x - 5", [S_], lambda W, a: a[0] - 5, lambda v: v[0] - 5)
        add("infix 5 + x", [S_], lambda W, a: 5 + a[0], lambda v: 5 + v[0])
        add("infix 3 * x", [S_], lambda W, a: 3 * a[0], lambda v: 3 * v[0])
        add("infix 2 < x", [S_], lambda W, a: 2 < a[0], lambda v: 2 < v[0])
        add("infix 2 >= x", [S_], lambda W, a: 2 >= a[0], lambda v: 2 >= v[0])
        add("infix .Equals", [S_, S_], lambda W, a: a[0].Equals(a[1]), lambda v: v[0] == v[1])
        add("infix .NotEquals", [S_, S_], lambda W, a: a[0].NotEquals(a[1]), lambda v: v[0] != v[1])
        add("infix .NotEquals 3", [S_], lambda W, a: a[0].NotEquals(3), lambda v: v[0] != 3)
        for k in range(0, 7):
            def need1(f):
                def g(v):
                    if not v:
                        raise Refused()
                    return f(v)
                return g
            add("Plus", [S_] * k, lambda W, a: m.Plus(a), need1(sum))
            add("Times", [S_] * k, lambda W, a: m.Times(*a), need1(lambda v: fold(lambda x, y: x * y, v)))
            add("Min", [S_] * k, lambda W, a: m.Min(a), need1(min))
            add("Max", [S_] * k, lambda W, a: m.Max(*a), need1(max))
    for c in (Fraction(2), Fraction(-1, 3), Fraction(5, 7)):
        add("Div const", [R], lambda W, a, c=c: m.Div(a[0], m.Real(c)), lambda v, c=c: v[0] / c)
        add("infix / const", [R], lambda W, a, c=c: a[0] / c, lambda v, c=c: v[0] / c)
    add("ToReal", [I], lambda W, a: m.ToReal(a[0]), lambda v: Fraction(v[0]))
    add("infix r - 1/2", [R], lambda W, a: a[0] - Fraction(1, 2), lambda v: v[0] - Fraction(1, 2))
    add("infix 0.5 - r", [R], lambda W, a: 0.5 - a[0], lambda v: Fraction(1, 2) - v[0])

    # ---- bit-vectors
    for w in widths:
        V = ("bv", w)

        def bin_(name, build, f, rewritten=True, w=w, V=V):
            add(name, [V, V], build, lambda v, f=f, w=w: bvv(w, f(w, v[0][2], v[1][2])), rewritten)

        def rel_(name, build, f, rewritten=True, w=w, V=V):
            add(name, [V, V], build, lambda v, f=f, w=w: bool(f(w, v[0][2], v[1][2])), rewritten)

        for (nm, f) in (("BVAnd", lambda w, a, b: a & b), ("BVOr", lambda w, a, b: a | b),
                        ("BVAdd", lambda w, a, b: a + b), ("BVMul", lambda w, a, b: a * b)):
            for k in range(0, 7):
                def orc(v, f=f, w=w):
                    if not v:
                        raise Refused()
                    return bvv(w, fold(lambda x, y: f(w, x, y) & mask(w), [x[2] for x in v]))
                add(nm, [V] * k, lambda W, a, nm=nm: getattr(m, nm)(*a) if len(a) % 2 else getattr(m, nm)(a), orc)
        for sign in (False, True):
            for k in range(0, 7):
                def key(x, sign=sign, w=w):
                    return sgn(w, x[2]) if sign else x[2]

                def omin(v, key=key):
                    if not v:
                        raise Refused()
                    return min(v, key=key)

                def omax(v, key=key):
                    if not v:
                        raise Refused()
                    return max(v, key=key)
                add("MinBV %s" % ("signed" if sign else "unsigned"), [V] * k,
                    lambda W, a, sign=sign: m.MinBV(sign, a), omin)
                add("MaxBV %s" % ("signed" if sign else "unsigned"), [V] * k,
                    lambda W, a, sign=sign: m.MaxBV(sign, *a), omax)
        bin_("BVXor", lambda W, a: m.BVXor(*a), lambda w, a, b: a ^ b, False)
        bin_("BVSub", lambda W, a: m.BVSub(*a), lambda w, a, b: a - b, False)
        bin_("BVUDiv", lambda W, a: m.BVUDiv(*a), udiv, False)
        bin_("BVURem", lambda W, a: m.BVURem(*a), urem, False)
        bin_("BVSDiv", lambda W, a: m.BVSDiv(*a), sdiv, False)
        bin_("BVSRem", lambda W, a: m.BVSRem(*a), srem, False)
        bin_("BVSMod", lambda W, a: m.BVSMod(*a), smod)
        bin_("BVNand", lambda W, a: m.BVNand(*a), lambda w, a, b: ~(a & b))
        bin_("BVNor", lambda W, a: m.BVNor(*a), lambda w, a, b: ~(a | b))
        bin_("BVXnor", lambda W, a: m.BVXnor(*a), lambda w, a, b: ~(a ^ b))
        bin_("BVLShl", lambda W, a: m.BVLShl(*a), shl, False)
        bin_("BVLShr", lambda W, a: m.BVLShr(*a), lshr, False)
        bin_("BVAShr", lambda W, a: m.BVAShr(*a), ashr, False)
        rel_("BVULT", lambda W, a: m.BVULT(*a), lambda w, a, b: a < b, False)
        rel_("BVULE", lambda W, a: m.BVULE(*a), lambda w, a, b: a <= b, False)
        rel_("BVUGT", lambda W, a: m.BVUGT(*a), lambda w, a, b: a > b)
        rel_("BVUGE", lambda W, a: m.BVUGE(*a), lambda w, a, b: a >= b)
        rel_("BVSLT", lambda W, a: m.BVSLT(*a), lambda w, a, b: sgn(w, a) < sgn(w, b), False)
        rel_("BVSLE", lambda W, a: m.BVSLE(*a), lambda w, a, b: sgn(w, a) <= sgn(w, b), False)
        rel_("BVSGT", lambda W, a: m.BVSGT(*a), lambda w, a, b: sgn(w, a) > sgn(w, b))
        rel_("BVSGE", lambda W, a: m.BVSGE(*a), lambda w, a, b: sgn(w, a) >= sgn(w, b))
        rel_("Equals", lambda W, a: m.Equals(*a), lambda w, a, b: a == b, False)
        rel_("NotEquals", lambda W, a: m.NotEquals(*a), lambda w, a, b: a != b)
        rel_("EqualsOrIff", lambda W, a: m.EqualsOrIff(*a), lambda w, a, b: a == b)
        add("BVComp", [V, V], lambda W, a: m.BVComp(*a), lambda v: ("bv", 1, 1 if v[0][2] == v[1][2] else 0), False)
        add("BVNot", [V], lambda W, a: m.BVNot(a[0]), lambda v, w=w: bvv(w, ~v[0][2]), False)
        add("BVNeg", [V], lambda W, a: m.BVNeg(a[0]), lambda v, w=w: bvv(w, -v[0][2]), False)
        add("BVToNatural", [V], lambda W, a: m.BVToNatural(a[0]), lambda v: v[0][2], False)
        # infix on bit-vectors
        bin_("infix +", lambda W, a: a[0] + a[1], lambda w, a, b: a + b)
        bin_("infix -", lambda W, a: a[0] - a[1], lambda w, a, b: a - b)
        bin_("infix *", lambda W, a: a[0] * a[1], lambda w, a, b: a * b)
        bin_("infix /", lambda W, a: a[0] / a[1], udiv)
        bin_("infix %", lambda W, a: a[0] % a[1], urem)
        bin_("infix &", lambda W, a: a[0] & a[1], lambda w, a, b: a & b)
        bin_("infix |", lambda W, a: a[0] | a[1], lambda w, a, b: a | b)
        bin_("infix ^", lambda W, a: a[0] ^ a[1], lambda w, a, b: a ^ b)
        bin_("infix <<", lambda W, a: a[0] << a[1], shl)
        bin_("infix >>", lambda W, a: a[0] >> a[1], lshr)
        rel_("infix <", lambda W, a: a[0] < a[1], lambda w, a, b: a < b)
        rel_("infix <=", lambda W, a: a[0] <= a[1], lambda w, a, b: a <= b)
        rel_("infix >", lambda W, a: a[0] > a[1], lambda w, a, b: a > b)
        rel_("infix >=", lambda W, a: a[0] >= a[1], lambda w, a, b: a >= b)
        for nm, f in (("BVSMod", smod), ("BVSDiv", sdiv), ("BVSRem", srem), ("BVUDiv", udiv), ("BVURem", urem),
                      ("BVAShr", ashr), ("BVLShl", shl), ("BVLShr", lshr),
                      ("BVNand", lambda w, a, b: ~(a & b)), ("BVNor", lambda w, a, b: ~(a | b)),
                      ("BVXnor", lambda w, a, b: ~(a ^ b)), ("BVXor", lambda w, a, b: a ^ b),
                      ("BVAnd", lambda w, a, b: a & b), ("BVOr", lambda w, a, b: a | b),
                      ("BVAdd", lambda w, a, b: a + b), ("BVMul", lambda w, a, b: a * b),
                      ("BVSub", lambda w, a, b: a - b)):
            bin_("infix ." + nm, lambda W, a, nm=nm: getattr(a[0], nm)(a[1]), f)
        for nm, f in (("BVSGT", lambda w, a, b: sgn(w, a) > sgn(w, b)), ("BVSGE", lambda w, a, b: sgn(w, a) >= sgn(w, b)),
                      ("BVSLT", lambda w, a, b: sgn(w, a) < sgn(w, b)), ("BVSLE", lambda w, a, b: sgn(w, a) <= sgn(w, b)),
                      ("BVUGT", lambda w, a, b: a > b), ("BVUGE", lambda w, a, b: a >= b),
                      ("BVULT", lambda w, a, b: a < b), ("BVULE", lambda w, a, b: a <= b),
                      ("Equals", lambda w, a, b: a == b), ("NotEquals", lambda w, a, b: a != b)):
            rel_("infix ." + nm, lambda W, a, nm=nm: getattr(a[0], nm)(a[1]), f)
        add("infix .BVComp", [V, V], lambda W, a: a[0].BVComp(a[1]), lambda v: ("bv", 1, 1 if v[0][2] == v[1][2] else 0))
        add("infix ~", [V], lambda W, a: ~a[0], lambda v, w=w: bvv(w, ~v[0][2]))
        add("infix neg", [V], lambda W, a: -a[0], lambda v, w=w: bvv(w, -v[0][2]))
        # Python integers as operands
        for k in range(-1, (1 << w) + 2):
            def inrange(f, k=k, w=w):
                def g(v):
                    if k < 0 or k >= (1 << w):
                        raise Refused()
                    return f(v)
                return g
            add("BVLShl int %d" % k, [V], lambda W, a, k=k: m.BVLShl(a[0], k), inrange(lambda v, k=k, w=w: bvv(w, shl(w, v[0][2], k))))
            add("BVLShr int %d" % k, [V], lambda W, a, k=k: m.BVLShr(a[0], k), inrange(lambda v, k=k, w=w: bvv(w, lshr(w, v[0][2], k))))
            add("BVAShr int %d" % k, [V], lambda W, a, k=k: m.BVAShr(a[0], k), inrange(lambda v, k=k, w=w: bvv(w, ashr(w, v[0][2], k))))
            add("infix << %d" % k, [V], lambda W, a, k=k: a[0] << k, inrange(lambda v, k=k, w=w: bvv(w, shl(w, v[0][2], k))))
            add("infix >> %d" % k, [V], lambda W, a, k=k: a[0] >> k, inrange(lambda v, k=k, w=w: bvv(w, lshr(w, v[0][2], k))))
            add("infix + %d" % k, [V], lambda W, a, k=k: a[0] + k, inrange(lambda v, k=k, w=w: bvv(w, v[0][2] + k)))
            add("infix %d + x" % k, [V], lambda W, a, k=k: k + a[0], inrange(lambda v, k=k, w=w: bvv(w, v[0][2] + k)))
            add("infix %d - x" % k, [V], lambda W, a, k=k: k - a[0], inrange(lambda v, k=k, w=w: bvv(w, k - v[0][2])))
            add("infix x - %d" % k, [V], lambda W, a, k=k: a[0] - k, inrange(lambda v, k=k, w=w: bvv(w, v[0][2] - k)))
            add("infix %d * x" % k, [V], lambda W, a, k=k: k * a[0], inrange(lambda v, k=k, w=w: bvv(w, v[0][2] * k)))
            add("infix %d & x" % k, [V], lambda W, a, k=k: k & a[0], inrange(lambda v, k=k, w=w: bvv(w, v[0][2] & k)))
            add("infix x > %d" % k, [V], lambda W, a, k=k: a[0] > k, inrange(lambda v, k=k: v[0][2] > k))
            add("infix %d > x" % k, [V], lambda W, a, k=k: k > a[0], inrange(lambda v, k=k: k > v[0][2]))
            add("infix x %% %d" % k, [V], lambda W, a, k=k: a[0] % k, inrange(lambda v, k=k, w=w: bvv(w, urem(w, v[0][2], k))))
        for k in range(0, w + 2):
            def rot_ok(f, k=k, w=w):
                def g(v):
                    if k > w:                       # the type checker refuses a step above the width
                        raise Refused()
                    return f(v)
                return g
            add("BVRol %d" % k, [V], lambda W, a, k=k: m.BVRol(a[0], k), rot_ok(lambda v, k=k, w=w: bvv(w, rol(w, v[0][2], k))), False)
            add("BVRor %d" % k, [V], lambda W, a, k=k: m.BVRor(a[0], k), rot_ok(lambda v, k=k, w=w: bvv(w, ror(w, v[0][2], k))), False)
            add("infix .BVRol %d" % k, [V], lambda W, a, k=k: a[0].BVRol(k), rot_ok(lambda v, k=k, w=w: bvv(w, rol(w, v[0][2], k))))
        for k in range(0, 4):
            add("BVZExt %d" % k, [V], lambda W, a, k=k: m.BVZExt(a[0], k), lambda v, k=k, w=w: ("bv", w + k, v[0][2]), False)
            add("BVSExt %d" % k, [V], lambda W, a, k=k: m.BVSExt(a[0], k),
                lambda v, k=k, w=w: ("bv", w + k, sgn(w, v[0][2]) & mask(w + k)), False)
            add("infix .BVSExt %d" % k, [V], lambda W, a, k=k: a[0].BVSExt(k),
                lambda v, k=k, w=w: ("bv", w + k, sgn(w, v[0][2]) & mask(w + k)))
        for k in range(-1, 5):
            def rep_or(v, k=k, w=w):
                if k < 1:
                    raise Refused()
                return ("bv", w * k, sum(v[0][2] << (w * j) for j in range(k)))
            add("BVRepeat %d" % k, [V], lambda W, a, k=k: m.BVRepeat(a[0], k), rep_or)
            add("infix .BVRepeat %d" % k, [V], lambda W, a, k=k: a[0].BVRepeat(k), rep_or)
        for s_ in range(0, w):
            for e_ in range(s_, w):
                orc = lambda v, s_=s_, e_=e_: ("bv", e_ - s_ + 1, (v[0][2] >> s_) & mask(e_ - s_ + 1))
                add("BVExtract %d %d" % (s_, e_), [V], lambda W, a, s_=s_, e_=e_: m.BVExtract(a[0], s_, e_), orc, False)
                add("infix [%d:%d]" % (s_, e_), [V], lambda W, a, s_=s_, e_=e_: a[0][s_:e_], orc)
            add("infix [%d]" % s_, [V], lambda W, a, s_=s_: a[0][s_], lambda v, s_=s_: ("bv", 1, (v[0][2] >> s_) & 1))
            add("infix [%d:]" % s_, [V], lambda W, a, s_=s_: a[0][s_:],
                lambda v, s_=s_, w=w: ("bv", w - s_, v[0][2] >> s_))
            add("infix [:%d]" % s_, [V], lambda W, a, s_=s_: a[0][:s_], lambda v, s_=s_: ("bv", s_ + 1, v[0][2] & mask(s_ + 1)))
        # concatenation of different widths
        for w2 in widths:
            V2 = ("bv", w2)
            add("BVConcat", [V, V2], lambda W, a: m.BVConcat(*a), lambda v, w=w, w2=w2: ("bv", w + w2, (v[0][2] << w2) | v[1][2]))
            add("infix .BVConcat", [V, V2], lambda W, a: a[0].BVConcat(a[1]),
                lambda v, w=w, w2=w2: ("bv", w + w2, (v[0][2] << w2) | v[1][2]))
            if w <= 2 and w2 <= 2:
                for w3 in (1, 2):
                    add("BVConcat", [V, V2, ("bv", w3)], lambda W, a: m.BVConcat(a),
                        lambda v, w=w, w2=w2, w3=w3: ("bv", w + w2 + w3, (((v[0][2] << w2) | v[1][2]) << w3) | v[2][2]))
        for k in (0, 1, 4, 5, 6):
            def cc(v, w=w):
                if len(v) < 2:
                    raise Refused()
                acc = 0
                for x in v:
                    acc = (acc << w) | x[2]
                return ("bv", w * len(v), acc)
            if w <= 2 or k <= 4:
                add("BVConcat", [V] * k, lambda W, a: m.BVConcat(*a), cc)
    return forms


def s_consts(ctx, W):
    """signed constants: checked directly on the constant the implementation builds"""
    m = W.mgr
    maxw = 6 if ctx.tier == "quick" else 10
    for w in range(0, maxw + 1):
        lo, hi = (-(1 << (w - 1)), (1 << (w - 1)) - 1) if w > 0 else (0, -1)
        for n in range(-(1 << w) - 2, (1 << w) + 3):
            out = outcome(lambda: m.SBV(n, w))
            ctx.case("SBV %d %d" % (n, w))
            ctx.count("s_sbv")
            rep = {"call": "SBV(%d, %d)" % (n, w), "form": "SBV", "args": [n, w]}
            if lo <= n <= hi:
                if out[0] != "ok":
                    ctx.report_s({"oracle": "named-function", "form": "SBV", "kind": "unexpected-error", "error": out[1]},
                                 "SBV(%d, %d) raises %s for a representable value" % (n, w, out[2]), rep)
                    continue
                c = out[2]
                ok = c.is_bv_constant() and c.bv_width() == w and sgn(w, int(c.constant_value())) == n \
                    and 0 <= int(c.constant_value()) < (1 << w)
                if not ok:
                    ctx.report_s({"oracle": "named-function", "form": "SBV", "kind": "wrong-value"},
                                 "SBV(%d, %d) = %s whose signed value is not %d" % (n, w, c, n), rep)
            else:
                if out[0] == "ok":
                    ctx.report_s({"oracle": "named-function", "form": "SBV", "kind": "accepted-out-of-domain"},
                                 "SBV(%d, %d) = %s although %d is not representable in %d bits" % (n, w, out[2], n, w), rep)
            # unsigned
            out = outcome(lambda: m.BV(n, w))
            if w >= 1 and 0 <= n < (1 << w):
                if out[0] != "ok" or int(out[2].constant_value()) != n or out[2].bv_width() != w:
                    ctx.report_s({"oracle": "named-function", "form": "BV", "kind": "wrong-value"},
                                 "BV(%d, %d) -> %r" % (n, w, out[:2]), {"call": "BV(%d, %d)" % (n, w), "form": "BV", "args": [n, w]})
            elif out[0] == "ok":
                ctx.report_s({"oracle": "named-function", "form": "BV", "kind": "accepted-out-of-domain"},
                             "BV(%d, %d) = %s" % (n, w, out[2]), {"call": "BV(%d, %d)" % (n, w), "form": "BV", "args": [n, w]})
        if w > 0:
            for nm, val in (("BVOne", 1), ("BVZero", 0)):
                out = outcome(lambda: getattr(m, nm)(w))
                if out[0] != "ok" or int(out[2].constant_value()) != val or out[2].bv_width() != w:
                    ctx.report_s({"oracle": "named-function", "form": nm, "kind": "wrong-value"},
                                 "%s(%d) -> %r" % (nm, w, out[:2]), {"call": "%s(%d)" % (nm, w), "form": nm, "args": [w]})


def s_pow(ctx, W):
    """constant folding of Pow: an integer exponent must give the exact rational power; a
    non-integer exponent may only be folded when the result is rational (checked by raising the
    folded value back to the inverse power)"""
    m = W.mgr
    bases = [Fraction(b) for b in (0, 1, -1, 2, 3, -3, 7, 10)] + [Fraction(2, 3), Fraction(-5, 2), Fraction(9, 4)]
    exps = [Fraction(e) for e in (-3, -2, -1, 0, 1, 2, 5)] + [Fraction(1, 2), Fraction(1, 3), Fraction(-1, 2), Fraction(3, 2)]
    for b in bases:
        for e in exps:
            for bt, et in (("i", "i"), ("r", "i"), ("i", "r"), ("r", "r")):
                if (bt == "i" and b.denominator != 1) or (et == "i" and e.denominator != 1):
                    continue
                B = m.Int(int(b)) if bt == "i" else m.Real(b)
                E = m.Int(int(e)) if et == "i" else m.Real(e)
                out = outcome(lambda: m.Pow(B, E))
                call = "Pow(%s, %s)" % (B, E)
                ctx.case(call)
                ctx.count("s_pow")
                if out[0] != "ok" or not out[2].is_real_constant():
                    continue                      # refused (0 ** negative, complex result): no value claimed
                got = Fraction(out[2].constant_value())
                if e.denominator == 1:
                    if b == 0 and e < 0:
                        continue
                    exact = b ** int(e)
                    if got != exact:
                        ctx.report_s({"oracle": "named-function", "form": "Pow", "kind": "wrong-value",
                                      "exponent": "integer"},
                                     "%s folds to %s, the exact power is %s" % (call, got, exact),
                                     {"form": "Pow", "call": call, "args": [str(b), str(e)]})
                else:
                    # got must satisfy got ** den == b ** num exactly
                    if e.numerator >= 0:
                        target = b ** e.numerator
                    else:
                        target = None if b == 0 else Fraction(1) / (b ** (-e.numerator))
                    if target is None or got ** e.denominator != target:
                        ctx.report_s({"oracle": "named-function", "form": "Pow", "kind": "wrong-value",
                                      "exponent": "non-integer"},
                                     "%s folds to %s, which is not the %s-th power of %s (inexact float)" % (
                                         call, got, e, b),
                                     {"form": "Pow", "call": call, "args": [str(b), str(e)]})


BIG_INTS = [2 ** 53 + 1, 2 ** 63, 2 ** 64 + 1, 10 ** 20 + 3, 10 ** 30 + 7]
INT_VALUES = [0, 1, -1, 2, -2, 3, 5, -5, 7, 10, -10, 2 ** 31, -(2 ** 31), 10 ** 20 + 1, 2 ** 53 + 1, -(2 ** 64 + 1)]
REAL_VALUES = [Fraction(0), Fraction(1), Fraction(-1), Fraction(1, 2), Fraction(-1, 2), Fraction(-7, 3), Fraction(5),
               Fraction(3), Fraction(10 ** 20 + 1, 3), Fraction(2, 7), Fraction(2 ** 53 + 1),
               Fraction(10 ** 30 + 7, 2 ** 64 + 1)]
FLOATS = [0.1, 0.3, 3.14, 1e23, 1e-7, 5e-324, 2.0 ** -70, -0.1, 1e16 + 2.0]


def domain(sort):
    if sort == "bool":
        return [False, True]
    if sort == "int":
        return INT_VALUES
    if sort == "real":
        return REAL_VALUES
    if sort == "str":
        return ["", "a", "b", "ab"]
    w = sort[1]
    return [("bv", w, n) for n in range(1 << w)]


def finite(sort):
    return sort == "bool" or isinstance(sort, tuple)


def assignments(ctx, sorts, cap, samples):
    """(list of value tuples, exhaustive?)"""
    doms = [domain(s) for s in sorts]
    total = 1
    for d in doms:
        total *= len(d)
    if all(finite(s) for s in sorts) and total <= cap:
        return list(itertools.product(*doms)), True
    if total <= samples:
        return list(itertools.product(*doms)), all(finite(s) for s in sorts)
    seen = set()
    out = []
    # corner vectors first
    for pickf in (lambda d: d[0], lambda d: d[-1], lambda d: d[len(d) // 2]):
        t = tuple(pickf(d) for d in doms)
        if t not in seen:
            seen.add(t)
            out.append(t)
    while len(out) < samples:
        t = tuple(ctx.rng.choice(d) for d in doms)
        if t not in seen:
            seen.add(t)
            out.append(t)
    return out, False


def sort_symbols(W, sorts):
    cnt = {}
    out = []
    for s in sorts:
        j = cnt.get(s, 0)
        cnt[s] = j + 1
        out.append(W.sym(s, j))
    return out


def sort_name(s):
    return s if isinstance(s, str) else "bv%d" % s[1]


def sort_type(sort):
    return {"bool": BOOL, "int": INT, "real": REAL, "str": STRING}.get(sort) or BVType(sort[1])


def run_const_form(ctx, W, F, lines, meta):
    """a form evaluated on constant arguments: one formula per assignment, empty interpretation"""
    sig0 = {"oracle": "named-function", "form": re.sub(r"-?\d+", "k", F.name),
            "sorts": ",".join(sorted({sort_name(s) for s in F.sorts})) or "-", "arity": str(len(F.sorts))}
    ctx.count("s_forms")
    tys = [sort_type(s) for s in F.sorts]
    for vals in F.asg:
        consts = [semantic.val_to_fnode(W.mgr, t, v) for t, v in zip(tys, vals)]
        out = outcome(lambda: F.build(W, consts))
        if out[0] != "ok":
            ctx.case("%s refused" % F.name)
            if out[0] == "err":
                ctx.report_s(dict(sig0, kind="unexpected-error", error=out[1]),
                             "%s raises %s on constant arguments" % (F.name, out[2]),
                             {"form": F.name, "sorts": [sort_name(s) for s in F.sorts], "values": repr(vals)[:300]})
            return
        try:
            expected = F.oracle(list(vals))
        except Refused:
            continue
        lines.append("evalc N 0 0 0 %s" % out[1])
        meta.append((F, vals, expected, out[2], sig0))


def run_s(ctx, W):
    forms = s_forms(W, ctx.tier, ctx.rng)
    cap = 4096 if ctx.tier == "quick" else 32768
    samples = 120 if ctx.tier == "quick" else 600
    lines, meta = [], []
    exhaustive_forms = 0
    for F in forms:
        if F.const_args:
            run_const_form(ctx, W, F, lines, meta)
            continue
        syms = sort_symbols(W, F.sorts)
        out = outcome(lambda: F.build(W, syms))
        if F.asg is not None:
            asg, exh = F.asg, False
        elif getattr(F, "expr", False):
            quick = ctx.tier == "quick"
            asg, exh = assignments(ctx, F.sorts, 128 if quick else 4096,
                                   (16 if quick else 80) if not all(finite(x) for x in F.sorts) else (48 if quick else 512))
        elif " @" in F.name or "[shortcuts]" in F.name:
            asg, exh = assignments(ctx, F.sorts, 256 if ctx.tier == "quick" else cap, 20 if ctx.tier == "quick" else 200)
        else:
            asg, exh = assignments(ctx, F.sorts, cap, samples)
        sig0 = {"oracle": "named-function",
                "form": "composed infix expression" if getattr(F, "expr", False) else re.sub(r"-?\d+", "k", F.name),
                "sorts": ",".join(sorted({sort_name(s) for s in F.sorts})) or "-", "arity": str(len(F.sorts))}
        rep0 = {"form": F.name, "sorts": [sort_name(s) for s in F.sorts]}
        ctx.count("s_forms")
        if exh:
            exhaustive_forms += 1
        # is the argument list inside the documented domain at all?
        try:
            probe = F.oracle(list(asg[0])) if asg else F.oracle([])
            refused = False
        except Refused:
            refused = True
        except ZeroDivisionError:
            refused = False
        if out[0] == "err":
            ctx.case("%s/%s refused" % (F.name, rep0["sorts"]))
            if not refused:
                ctx.report_s(dict(sig0, kind="unexpected-error", error=out[1]),
                             "%s on %s raises %s although the arguments are in the documented domain" % (
                                 F.name, rep0["sorts"], out[2]), dict(rep0, impl=out[:3]))
            else:
                ctx.count("s_refused_as_documented")
            continue
        if out[0] == "oof":
            ctx.count("s_out_of_fragment")
            continue
        f = out[2]
        if refused:
            # the implementation built something for arguments outside the domain: it can only
            # be right if the documentation gives these arguments a meaning — none of the
            # refused shapes has one (0 copies, empty sum, empty minimum, constant out of range)
            ctx.case("%s/%s accepted" % (F.name, rep0["sorts"]))
            ctx.report_s(dict(sig0, kind="accepted-out-of-domain"),
                         "%s on %s returns %s for arguments outside its domain" % (
                             F.name, rep0["sorts"], semantic.readable(f, 120)),
                         dict(rep0, built=semantic.readable(f, 200)))
            continue
        enc = wire.enc_term(f)
        for vals in asg:
            try:
                expected = F.oracle(list(vals))
            except ZeroDivisionError:
                continue
            interp = wire.enc_interp([(s.symbol_name(), s.symbol_type(), v) for s, v in zip(syms, vals)])
            lines.append("evalc %s %s" % (interp, enc))
            meta.append((F, vals, expected, f, sig0))
    ctx.extra["s_forms"] = len(forms)
    ctx.extra["s_forms_exhaustive"] = exhaustive_forms
    ctx.extra["exhaustive"] = ("Boolean arguments (arity <= 6) and bit-vector arguments up to width %d enumerated "
                               "completely whenever the product is <= %d" % (3 if ctx.tier == "quick" else 4, cap))
    try:
        answers = ctx.lean_run_sharded("Sem", lines)
    except common.LeanError as e:
        ctx.report_l("driver Sem does not run", str(e))
        return
    for line, ans, (F, vals, expected, f, sig0) in zip(lines, answers, meta):
        key = "%s|%s|%r" % (F.name, ",".join(sort_name(s) for s in F.sorts), vals)
        ctx.case(key if (F.rewritten or F.name.startswith("infix")) else None)
        ctx.count("s_evaluations")
        if ans.startswith("bad-op"):
            ctx.infra("Sem driver rejected a request: %s :: %s" % (ans, F.name))
            continue
        if ans == "div0":
            ctx.count("s_skipped_div0")
            continue
        got = semantic.parse_val(ans)
        if isinstance(expected, bool) or isinstance(got, bool):
            same = (got is expected)
        elif isinstance(expected, (int, Fraction)) and not isinstance(expected, bool) and isinstance(got, (int, Fraction)):
            same = (Fraction(got) == Fraction(expected)) and (isinstance(got, int) == isinstance(expected, int))
        else:
            same = (got == expected)
        if not same:
            ctx.report_s(dict(sig0, kind="wrong-value"),
                         "%s%s: the built formula %s evaluates to %r, the named function gives %r" % (
                             F.name, "(" + repr(tuple(vals))[1:300], semantic.readable(f, 160), got, expected),
                         {"form": F.name, "sorts": [sort_name(s) for s in F.sorts], "values": repr(vals)[:2000],
                          "request": line[:20000], "lean": ans[:2000], "expected": repr(expected)[:2000],
                          "built": semantic.readable(f, 300)})
    if lines:
        ctx.sample({"S-request": lines[len(lines) // 2][:300], "answer": answers[len(lines) // 2]}, limit=7)


def run(ctx):
    ok, log = ctx.lean_build(["PySMT.Core.DriverLib", "PySMT.Gen.Infix"])
    if not ok:
        ctx.report_l("lake build of the driver's imports failed", log)
    W = World()
    run_k(ctx, W)
    W = World()
    s_consts(ctx, W)
    s_pow(ctx, W)
    run_s(ctx, W)


def replay(ctx, rep):
    if "replay" not in rep:
        # a `no-failing-input-found` file: broken obligations and/or diverging K requests
        for b in rep.get("broken_obligations", []):
            print("broken obligation:", b.get("what") if isinstance(b, dict) else b)
        for k in rep.get("broken_correspondence", []):
            if isinstance(k, dict) and "request" in k.get("replay", {}):
                ans = ctx.lean_run("C06", [k["replay"]["request"]])[0]
                print("call:", k["replay"].get("call"))
                print("  model now:", ans[:300])
                print("  recorded implementation outcome:", k["replay"].get("impl"))
        run(ctx)
        return
    r = rep["replay"]
    W = World()
    if "request" in r and r.get("kind") in ("mk", "infix"):
        ans = ctx.lean_run("C06", [r["request"]])[0]
        print("call:", r.get("call"))
        print("model:", ans[:300])
        print("recorded implementation outcome:", r.get("impl"))
        return
    form = r.get("form")
    if form in ("SBV", "BV", "BVOne", "BVZero"):
        s_consts(ctx, W)
        return
    if form == "Pow":
        s_pow(ctx, W)
        for v in ctx.s_violations[:3]:
            print("still failing:", v["what"])
        return
    # re-run exactly this form (all its assignments) against the current tree
    if form.startswith("expr "):
        nb = [x for x in r.get("sorts", []) if x != "bool"]
        base = "int" if not nb else (nb[0] if nb[0] in ("int", "real") else ("bv", int(nb[0][2:])))
        forms = [expr_form(form[5:], base)]
    else:
        # a variant (` @perm…`, ` @rep…`) is replayed after its base form on the same manager:
        # the order of the calls is part of the case
        base = form.split(" @")[0]
        want = r.get("sorts") or []
        forms = [F for F in s_forms(W, "thorough", ctx.rng)
                 if (F.name == form and [sort_name(s) for s in F.sorts] == want) or
                    (form != base and F.name == base and want and
                     set(sort_name(s) for s in F.sorts) == set(want))]
    saved = s_forms

    def only(W_, tier, rng):
        return forms
    globals()["s_forms"] = only
    try:
        run_s(ctx, W)
    finally:
        globals()["s_forms"] = saved
    for v in ctx.s_violations[:3]:
        print("still failing:", v["what"])
    if not ctx.s_violations:
        print("no longer failing:", form, r.get("sorts"))
